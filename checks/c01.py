"""C01 - tracker output contract: one record per detection, distinct tracks per call, fresh ids."""
import vlib
from checks import tracker_common as tc
MANIFEST = dict(level="model_checking", design="4 (C01)",
    technique="TLA+ spec (Tracker.tla): predict contract asserted by TLC on every call of the model; TLC-enumerated call sequences replayed into the four real trackers",
    text="TLC asserts the predict contract (one record per detection in order, ids pairwise distinct within the call, a new id never issued before, record epoch = scene epoch, record length = stored length) on every predict transition of the complete R1 state graph. Every call sequence up to depth 3 (thorough: 4, 250-step simulations, all four tracker kinds, shard counts 1..3, IoU and Mahalanobis) is replayed into the real trackers and each record is compared: echo of box / custom id / scene (value equality), epoch, length, id (literal for simple kinds, bijection for batch kinds), no duplicate id in a call, no reuse of an id that was handed out.",
    note="R1 slot world incl. duplicated detections on one slot with distinct confidences, rotated slots, two scenes. Steps with tied optima are not generated. Trusted: TLC.")
LEVEL = MANIFEST["level"]
RULE = ("behaviours = all API call sequences of the stated depth over the GenTR alphabet plus seeded simulations; "
        "non-trivial = some call has >= 2 detections of which one continues a track and one starts one, or a duplicate "
        "on one slot; distinct by construction")


def run(chk):
    tc.model_check(chk, chk.tier == "quick", parts=("main",), small=True)
    tc.standard_plan(chk, "C01", "nt_C01", kinds_quick=("sort", "batchvisual"))
    # R2: random free-world histories (moving, crossing, disappearing objects; lifecycle calls interleaved)
    from checks import r2_common as r2
    traces = []
    for i in range(4 if chk.tier == "quick" else 120):
        kind = ("sort", "visual", "batchsort", "batchvisual")[i % 4]
        t = r2.record(chk, f"r2-{i}", kind, chk.seed * 1000 + 100 + i, steps=150 if chk.tier == "quick" else 400, shards=1 + i % 3,
                      metric="iou" if i % 2 == 0 else "maha", max_idle=(0, 1, 2, 3)[i % 4], objects=3 + i % 2, spread=90,
                      scenes="0,7,8" if i % 2 else "0,7")
        chk.cov["evaluations"] += r2.trace_stats(t)["events"]
        traces.append(t)
    r2.validate_all(chk, traces, "C01")
    chk.finish(RULE, exhaustive=True)


def replay(payload):
    if payload.get("engine") == "r2-trace":
        from checks import r2_common as r2
        return r2.replay_trace("C01", payload)
    return tc.replay_payload("C01", payload)
