"""C01 - tracker output contract: one record per detection, distinct tracks per call, fresh ids."""
import vlib
from checks import tracker_common as tc
MANIFEST = dict(level="model_checking", design="4 (C01)",
    technique="TLA+ spec (Tracker.tla): predict contract asserted by TLC on every call of the model; TLC-enumerated call sequences replayed into the four real trackers",
    text="TLC asserts the predict contract (one record per detection in order, ids pairwise distinct within the call, a new id never issued before, record epoch = scene epoch, record length = stored length) on every predict transition of the complete R1 state graph. Every call sequence up to depth 3 (thorough: 4, 250-step simulations, all four tracker kinds, shard counts 1..3, IoU and Mahalanobis) is replayed into the real trackers and each record is compared: echo of box / custom id / scene (value equality), epoch, length, id (literal for simple kinds, bijection for batch kinds), no duplicate id in a call, no reuse of an id that was handed out.",
    note="R1 slot world incl. duplicated detections on one slot with distinct confidences, rotated slots, two scenes. Steps with tied optima are not generated. Trusted: TLC.")
LEVEL = MANIFEST["level"]
RULE = ("behaviours = all API call sequences of the stated depth over the GenTR alphabet plus seeded simulations; "
        "non-trivial = some call has >= 2 detections of which one continues a track and one starts one, or a duplicate "
        "on one slot; distinct by construction")


def run(chk):
    tc.model_check(chk, chk.tier == "quick", parts=("main",), small=True)
    tc.standard_plan(chk, "C01", "nt_C01", kinds_quick=("sort", "batchsort"))
    quick = chk.tier == "quick"
    # multi-scene batches through both batch trackers, several voters, seeded delays at the hook sites
    for name, kw in (("batch-d2", dict(depth=2, kind="batch", MaxIdle=0, MaxDets=1 if quick else 2)),
                     ("batch-sim", dict(depth=30, kind="batch", MaxIdle=1, MaxDets=1, sim=6, simulate={"num": 4 if quick else 25, "depth": 31}))):
        r, c = tc.generate(chk, name, **kw)
        for kind in ("batchsort", "batchvisual"):
            for ns, nv in (((2, 3),) if quick else ((1, 2), (2, 3), (3, 4))):
                args = tc.vh_args(c, kind, ns, "C01", voters=nv) + ["--delay-us", "400", "--seed", str(chk.seed)]
                rep = vlib.run_vh(args, [r.out])
                rep["nontrivial"] = rep["counters"].get("nt_C06", 0)
                chk.add_report(f"{name}:{kind}:ns={ns}:nv={nv}", rep)
                chk.classify("tracker", args, rep)
    # VisualSORT with features: look-alike detections claiming one track in the same call
    for name, kw, sim in (("v-sim7", dict(depth=7, Sim=6), {"num": 25 if quick else 300, "depth": 8}),
                          ("v-d2", dict(depth=2, MaxDets=2, Slots={1}, Confs={900}, Feats={1, 2}, Quals={30, 90}), None),
                          # a detection whose confidence lies below the positional floor is weighed with the floor but echoed as
                          # it was submitted
                          ("v-minconf", dict(depth=3, MaxDets=1, Slots={1}, Confs={900, 20}, MinConf=400, Feats={1}, Quals={90}), None)):
        r, c = tc.generate_visual(chk, name, simulate=sim, **kw)
        for kind in ("visual", "batchvisual"):
            tc.replay_visual(chk, name, r, c, kind, 2, "C01", "nt_C12")
    # R2: random free-world histories (moving, crossing, disappearing objects; lifecycle calls interleaved)
    from checks import r2_common as r2
    traces = []
    for i in range(4 if chk.tier == "quick" else 120):
        kind = ("sort", "visual", "batchsort", "batchvisual")[i % 4]
        t = r2.record(chk, f"r2-{i}", kind, chk.seed * 1000 + 100 + i, steps=150 if chk.tier == "quick" else 400, shards=1 + i % 3,
                      metric="iou" if i % 2 == 0 else "maha", max_idle=(0, 1, 2, 3)[i % 4], objects=3 + i % 2, spread=90,
                      scenes="0,7,8" if i % 2 else "0,7")
        chk.cov["evaluations"] += r2.trace_stats(t)["events"]
        traces.append(t)
    r2.validate_all(chk, traces, "C01")
    chk.finish(RULE, exhaustive=True)


def replay(payload):
    if payload.get("engine") == "r2-trace":
        from checks import r2_common as r2
        return r2.replay_trace("C01", payload)
    return tc.replay_payload("C01", payload)
