"""C02 - positional association is gated and a maximum-weight one-to-one assignment."""
import json, random
import vlib
from checks import r2_common as r2
from checks import c17
MANIFEST = dict(level="model_checking", design="4 (C02)",
    technique="TLA+ specs: Assignment.tla (all optimal gated assignments; exhaustive small matrices replayed into the real Hungarian engine) and TrackerTrace.tla (recorded runs of the real trackers with externally measured weights validated by TLC: gate, expiry, optimum by subset DP)",
    text="(a) Engine: TLC enumerates every weight matrix up to 3x3 over a grid straddling the threshold (and simulates 8x8 with the DP optimum) together with the complete set of optimal gated assignments; each is fed in several stream orders to the real SortVoting and the outcome must be one of the optima, one winner per query, no track twice. (b) Tracker level: real Sort / BatchSort / VisualSort runs over random histories with approaching, crossing and occluding objects plus crafted contests in which the greedy choice is not optimal are recorded; before each call the harness measures, with the library's own public primitives, the integer weight of every (detection, stored track) pair (IoU x confidence >= threshold; in Mahalanobis mode the squared distance from the public Kalman filter API, gated and inverted by the constants of Gate.tla - 0.95 quantile of chi-square with 5 degrees of freedom, upper bound 100 - written out in the harness, divided by the confidence, within reach); TLC validates every trace against TrackerTrace: a continued pair is live, present and >= threshold, an ungated detection starts a track, and the recorded continuation set has the maximum total value (unmatched = threshold) up to a stated margin. Every tracker kind is recorded at IoU thresholds 0.3 / 0.1 / 0.5 and, in Mahalanobis mode, with default, tight, loose and very loose Kalman weights (position weight 1: the chi-square gate reaches farther than the bounding circles, so the reach clause binds).",
    note="Weights are measured outside the tracker with Universal2DBox::too_far / IoU / the public Kalman filter API (bound to the specification by C08 / C07). Mahalanobis weights are logged x1e4 and near-ties within the margin are accepted either way.")
LEVEL = MANIFEST["level"]
RULE = ("engine: TLC-enumerated matrices, non-trivial = greedy differs from every optimum or a weight within 10% of the threshold; "
        "traces: one per (seed, kind, metric); non-trivial = predict steps where the greedy choice is worse than the recorded "
        "(optimal) one, counted from the trace; distinct by construction / by seed")


def run(chk):
    quick = chk.tier == "quick"
    c17.assignment_engine(chk, quick)
    # R1: the slot-world behaviours with focus on association (gate at the idle boundary, duplicates on one slot)
    from checks import tracker_common as tc
    for name, kw in (("r1-d3-idle1", dict(depth=3, MaxIdle=1, MaxDets=2, Confs={900, 500}, Slots={1})),
                     # confidence floor: a detection below the minimal confidence is weighed with the minimal confidence
                     ("r1-d3-minconf", dict(depth=3, MaxIdle=1, MaxDets=2, Confs={900, 20}, MinConf=400, Slots={1}, Scenes={1})),
                     ("r1-d3-lowconf", dict(depth=3, MaxIdle=1, MaxDets=1, Confs={900, 200}, MinConf=50, Slots={1}, Scenes={1})),
                     # a threshold other than the default: a weak detection (confidence x IoU between the configured and the
                     # default threshold) continues its track
                     ("r1-d3-thr100", dict(depth=3, MaxIdle=1, MaxDets=2, Confs={900, 200}, Thr=100, Slots={1}, Scenes={1})),
                     ("r1-d4-idle2-maha", dict(depth=4, MaxIdle=2, Metric="maha", Thr=1000, MaxDets=1, Confs={900}, Slots={1}, Scenes={1}))):
        r, c = tc.generate(chk, name, **kw)
        for kind in ((("sort", "batchsort") if name == "r1-d3-thr100" else ("sort",)) if quick else ("sort", "batchsort", "visual")):
            tc.replay(chk, name, r, c, kind, 2, "C02", "nt_C01")
    # every tracker kind x {IoU at the default, a low and a high threshold; Mahalanobis with default, tight, loose and very
    # loose (position weight 1: the chi-square gate reaches farther than the bounding circles) Kalman weights}
    combos = [(kind, m) for m in ("iou:0.3", "iou:0.1", "iou:0.5", "maha:d", "maha:0.1", "maha:0.025", "maha:1.0")
              for kind in ("sort", "batchsort", "visual")]
    if quick:
        # one pass over the 9 IoU combinations, 5 Mahalanobis ones spread over the kinds
        combos = combos[:9] + [combos[9], combos[13], combos[17], combos[18], combos[19]]
    n = len(combos) if quick else 210
    traces, greedy, near = [], 0, 0
    for i in range(n):
        kind, m = combos[i % len(combos)]
        metric, par = m.split(":")
        if metric == "iou":
            wts = ("--thr", par)
        else:
            wts = {"d": (), "0.1": ("--pos-w", "0.1", "--vel-w", "0.0125", "--jump", "1"),
                   "0.025": ("--pos-w", "0.025", "--vel-w", "0.00625", "--jump", "1"),
                   "1.0": ("--pos-w", "1.0", "--vel-w", "0.125", "--jump", "3")}[par]
        t = r2.record(chk, f"r2-{i}", kind, chk.seed * 1000 + i, steps=150 if quick else 300, shards=1 + i % 3, metric=metric,
                      objects=3 + i % 3, spread=(60, 90, 140)[i % 3], extra=list(wts))
        s = r2.trace_stats(t)
        greedy += s["greedy_not_optimal"]
        near += s["near_threshold"]
        chk.cov["evaluations"] += s["predicts"]
        if i == 0:
            chk.cov["samples"].append(s["sample"])
        traces.append(t)
    chk.cov["distinct_nontrivial"] += greedy
    chk.cov["steps_greedy_not_optimal"] = greedy
    chk.cov["weights_near_threshold"] = near
    r2.validate_all(chk, traces, "C02")
    # binding demonstration: swap a recorded optimal assignment for the greedy one -> rejected
    for t in traces:
        ev = [json.loads(l) for l in open(t)]
        k = next((j for j, e in enumerate(ev) if e["ev"] == "predict" and r2.greedy_differs(e, ev[0]["thr"]) and len(e["ids"]) == 2), None)
        if k is None:
            continue
        bad = json.loads(json.dumps(ev))
        bad[k]["ids"] = list(reversed(bad[k]["ids"]))
        bt = chk.workdir / "r2-greedy-swap.ndjson"
        bt.write_text("".join(json.dumps(e) + "\n" for e in bad[:k + 1]))
        ok, _, rej = vlib.validate_trace(r2.T / "TrackerTrace.tla", r2.T / "ttrace.cfg", bt, "tt-swap", chk.workdir)
        chk.witness("non_optimal_assignment_is_rejected", not ok)
        break
    chk.finish(RULE, exhaustive=False)


def replay(payload):
    if payload.get("engine") == "r2-trace":
        return r2.replay_trace("C02", payload)
    rep = vlib.replay_single(payload["vh"], payload["case"], vlib.WORK / "C02")
    if rep["mismatches"]:
        print(f"VIOLATION property=C02 replay=  # reproduced: {list(rep['by_sig'])}")
        return 1
    print("replay: no mismatch")
    return 0
