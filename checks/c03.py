"""C03 - track lifecycle: conservation, exact expiry, wasted once, GC timing unobservable."""
import vlib
from checks import tracker_common as tc
MANIFEST = dict(level="model_checking", design="4 (C03)",
    technique="TLA+ spec (Tracker.tla) model-checked with TLC incl. refinement of a collector-free AbstractTracker; TLC-enumerated call sequences replayed into the real trackers",
    text="TLC checks on the complete state graph of the R1 tracker model: conservation, one place per track, collected => expired, wasted() exact and once, idle/wasted/predict results independent of collection timing, statistics accounting, and that Tracker refines the collector-free AbstractTracker for every periodicity (with reachability witnesses). Every call sequence over {predict, skip, wasted, idle, clear_wasted, set_auto_waste, stats, epoch} x 2 scenes up to depth 3 (thorough: 4, and 250-step simulations reaching the default periodic collection) is replayed into the real trackers; records, returned id sets, epochs, statistics and the physical content of both stores are compared with the values TLC computed.",
    note="R1 slot world: detections on fixed far-apart slots (stationary objects), so the spec computes association itself; generation skips steps with tied optima. Trusted: TLC, the projection through public getters.")
LEVEL = MANIFEST["level"]
RULE = ("behaviours = all API call sequences of the stated depth over the GenTR alphabet (2 scenes, 2 slots, 2 confidences, "
        "0..2 detections) plus seeded simulations; non-trivial = a track is expired but not yet collected while an "
        "observable call (idle, wasted, stats, predict) happens; distinct by construction")


def run(chk):
    tc.model_check(chk, chk.tier == "quick")
    tc.standard_plan(chk, "C03", "nt_C03", kinds_quick=("sort", "batchsort"))
    chk.assumptions.append("ids are compared literally for the simple trackers and modulo renaming for the batch trackers")
    # VisualSORT with the own-area options on (another code path before the epoch is advanced), lifecycle calls included
    r, c = tc.generate_visual(chk, "v-own-lifecycle", depth=4, OwnUse=50, OwnCollect=50, LifecycleOps=True, MaxIdle=1,
                              MaxDets=1, Slots={1}, Confs={900}, Feats={1}, Quals={90})     # exhaustive: empty frames are frequent
    for kind in ("visual", "batchvisual"):
        tc.replay_visual(chk, "v-own-lifecycle", r, c, kind, 2, "C03", "nt_C03")
    # R2: random free-world histories (moving, crossing, disappearing objects; lifecycle calls interleaved)
    from checks import r2_common as r2
    traces = []
    for i in range(4 if chk.tier == "quick" else 120):
        kind = ("sort", "visual", "batchsort", "batchvisual")[i % 4]
        t = r2.record(chk, f"r2-{i}", kind, chk.seed * 1000 + 100 + i, steps=150 if chk.tier == "quick" else 400, shards=1 + i % 3,
                      metric="iou" if i % 2 == 0 else "maha", max_idle=(0, 1, 2, 3)[i % 4], objects=3 + i % 2, spread=90,
                      scenes="0,7,8" if i % 2 else "0,7", history=(3, 2, 1, 4)[i % 4])    # history length never equals the idle limit
        chk.cov["evaluations"] += r2.trace_stats(t)["events"]
        traces.append(t)
    r2.validate_all(chk, traces, "C03")
    chk.finish(RULE, exhaustive=True)


def replay(payload):
    if payload.get("engine") == "r2-trace":
        from checks import r2_common as r2
        return r2.replay_trace("C03", payload)
    return tc.replay_payload("C03", payload)
