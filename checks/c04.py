"""C04 - scene isolation: scenes never interfere."""
import vlib
from checks import tracker_common as tc
MANIFEST = dict(level="model_checking", design="4 (C04)",
    technique="TLA+ spec (Tracker.tla): frame condition and commutation of scene bodies checked by TLC; TLC-enumerated multi-scene histories replayed into the real trackers",
    text="TLC asserts on every predict transition that tracks and epochs of other scenes are unchanged and that a continued track belongs to the call's scene, and (thorough) that predict bodies of different scenes commute. Every two-scene call sequence (scenes share the same slots) up to depth 3 (thorough: 4 and simulations) is replayed into the real trackers; the specification computes each scene's grouping independently, so any cross-scene attachment or influence appears as a mismatch (signature predict:id:foreign-scene, proj:epochs:foreign-scene - the epoch counter of a scene the operation does not name has moved - or a per-scene record/epoch mismatch). The detections of a batch are added to the request scene by scene or round-robin across its scenes (the order of add calls across scenes carries no meaning). R2: an interleaved multi-scene run of random moving objects and the runs of each scene alone are recorded and related by TLC (Pairing.tla, id bijection): equal grouping, boxes, epochs, lengths; every other run holds a small scene with crafted contests in which the greedy choice is not optimal, and in some runs one scene is 150 epochs ahead of the others.",
    note="R1 slot world; ids modulo renaming for batch kinds. The R2 pairing of interleaved vs single-scene runs is part of the trace engine (see DESIGN 4, C04).")
LEVEL = MANIFEST["level"]
RULE = ("behaviours = all two-scene API call sequences of the stated depth over the GenTR alphabet plus simulations; "
        "non-trivial = two scenes hold live tracks on the same slot in the same history; distinct by construction")


def run(chk):
    tc.model_check(chk, chk.tier == "quick", parts=("main",) if chk.tier == "quick" else ("main", "refine", "extra"), small=chk.tier == "quick")
    tc.standard_plan(chk, "C04", "nt_C04", kinds_quick=("sort", "visual"))
    # a constraint table that no pair violates is configured: scene isolation must not depend on that code path
    r0, c0 = tc.generate(chk, "d3-loose-constraints", depth=3, MaxIdle=1, MaxDets=1, Confs={900})
    for kind in ("sort", "visual") if chk.tier == "quick" else ("sort", "visual", "batchsort", "batchvisual"):
        args = tc.vh_args(c0, kind, 2, "C04") + ["--constraints", "1:1000.0,5:1000.0"]
        rep = vlib.run_vh(args, [r0.out])
        rep["nontrivial"] = rep["counters"].get("nt_C04", 0)
        chk.add_report(f"d3-loose-constraints:{kind}", rep)
        chk.classify("tracker", args, rep)
    # batches of several scenes are served by several voting threads at once (seeded delays at the hook sites move the
    # threads against each other): a batch call that panics although one-scene batches of the same alphabet do not
    # is interference between the scenes of a batch
    quick = chk.tier == "quick"
    rb1, cb1 = tc.generate(chk, "batch-d2-one-scene", depth=2, kind="batch", MaxIdle=0, MaxDets=1, Scenes={1})
    rb2, cb2 = tc.generate(chk, "batch-d2", depth=2, kind="batch", MaxIdle=0, MaxDets=1)
    for kind in ("batchsort", "batchvisual"):
        base = vlib.run_vh(tc.vh_args(cb1, kind, 2, "all", voters=2) + ["--delay-us", "300", "--seed", str(chk.seed)], [rb1.out])
        args = tc.vh_args(cb2, kind, 2, "C04", voters=2) + ["--delay-us", "300", "--seed", str(chk.seed)]
        rep = vlib.run_vh(args, [rb2.out], stride=4 if (quick and rb2.generated > 30000) else 1)
        rep["nontrivial"] = rep["counters"].get("nt_C04", 0)
        chk.add_report(f"batch-d2:{kind}", rep)
        if f"{kind}:panic" in base["by_sig"]:
            rep["by_sig"].pop(f"{kind}:panic:multi-scene-batch", None)
        chk.classify("tracker", args, rep)
    # VisualSORT batches with own-area gates: what a scene gets must not depend on the other scenes of its batch.
    # Disagreements that the one-scene batches show as well are not scene interference.
    vkw = dict(depth=5, Sim=12, OwnUse=50, OwnCollect=50, Kind="batch", Slots={1, 2}, Confs={900, 800}, Feats={1}, Quals={90}, MaxDets=2)
    r1, c1 = tc.generate_visual(chk, "v-own-one-scene", simulate={"num": 10 if quick else 100, "depth": 6}, Scenes={1}, **vkw)
    base = tc.replay_visual(chk, "v-own-one-scene", r1, c1, "batchvisual", 2, "all", "nt_C04", extra=[])
    base_sigs = set(base["by_sig"])
    chk.violations = [v for v in chk.violations if not v[0].startswith("batchvisual:")]   # the baseline itself is not judged here
    r2_, c2 = tc.generate_visual(chk, "v-own-two-scenes", simulate={"num": 12 if quick else 150, "depth": 6}, Scenes={1, 2}, **vkw)
    args = tc.vh_args(c2, "batchvisual", 2, "all") + ["--max-obs", str(c2["MaxObs"]), "--min-track-len", str(c2["MinTrackLen"]),
            "--min-votes", str(c2["MinVotes"]), "--q-use", str(c2["QUse"] / 100.0), "--q-collect", str(c2["QCollect"] / 100.0),
            "--vis-thr", str(c2["VisThr"] / 10.0), "--own-use", str(c2["OwnUse"] / 100.0), "--own-collect", str(c2["OwnCollect"] / 100.0)]
    rep = vlib.run_vh(args, [r2_.out])
    rep["nontrivial"] = rep["counters"].get("nt_C06", 0)
    chk.add_report("v-own-two-scenes:batchvisual", rep)
    rep["by_sig"] = {s_: v for s_, v in rep["by_sig"].items() if s_ not in base_sigs}
    chk.classify("tracker", args, rep)
    # R2: an interleaved multi-scene run against the single-scene runs, related by TLC up to an id bijection
    from checks import r2_common as r2
    traces = []
    for i in range(3 if chk.tier == "quick" else 40):
        kind = ("sort", "visual", "batchsort", "batchvisual")[i % 4]
        seed = chk.seed * 1000 + 300 + i
        # short idle limits and a short collection period: the collection counter is shared by all scenes, so the
        # interleaved run collects expired tracks at other moments than the single-scene run
        kw = dict(steps=200, shards=2, metric="iou" if i % 2 == 0 else "maha", max_idle=(1, 2, 3)[i % 3], objects=3, spread=90, scenes="0,7",
                  crafted=(i % 2 == 0), extra=["--no-lifecycle", "1"] + (["--aw", str((3, 7)[i % 2])] if i % 4 != 3 else []))
        if i % 2 == 1:
            kw["constraints"] = "1:1000.0,4:1000.0"
        if i % 3 in (0, 1):
            # one scene is far ahead of the other (skipped by 150 epochs before the first call)
            kw["extra"] = kw["extra"] + ["--pre-skip", "7:150"]
        a = r2.record(chk, f"c04-all-{i}", kind, seed, **kw)
        traces.append(a)
        # every other run also holds a small scene (99) with crafted contests in which the greedy choice is not optimal:
        # how such a contest is decided must not depend on how many tracks the other scenes hold at that moment
        for sc in (0, 7, 99) if kw["crafted"] else (0, 7):
            kw2 = dict(kw); kw2["extra"] = kw["extra"] + ["--only-scene", str(sc)]
            b = r2.record(chk, f"c04-only{sc}-{i}", kind, seed, **kw2)
            ok, rej = r2.pairing(chk, f"c04-pair-{i}-{sc}", a, b, "renaming", scene=sc)
            chk.cov["evaluations"] += 1
            chk.cov["distinct_nontrivial"] += 1
            if not ok:
                chk.violation("c04:interleaving-changes-a-scene", {"engine": "pairing", "a": str(a), "b": str(b), "rejected": rej[:2000]})
    r2.validate_all(chk, traces, "C04")
    chk.finish(RULE, exhaustive=True)


def replay(payload):
    return tc.replay_payload("C04", payload)
