"""C05 - tracking results are independent of shard count and thread schedule."""
import vlib
from checks import tracker_common as tc
MANIFEST = dict(level="model_checking", design="3 (C05)",
    technique="TLA+ specs (Tracker.tla consumes distance results as a bag; StoreConc.tla gives one bag for every schedule): one spec-expected output per call; TLC-generated behaviours replayed for shard counts 1..8 with worker steps serialised in permuted orders through hook gates",
    text="Decided by composition inside the specification (C10: the distance result is the same bag for every shard count and schedule; the tracker spec is a function of that bag), so TLC yields a single expected record list per call. Binding: the TLC-enumerated R1 behaviours (tie-free by construction) are replayed into the real trackers for shard counts {1,2,3,5,8} (thorough: 1..8) while a scheduler thread serialises the shard workers' Distances commands in forward, reverse and seeded random order through the hook gates; every run must equal the one spec-expected output, ids literally for the simple trackers. A disagreement that already appears with one shard and free-running workers is not attributed to C05.",
    note="R1 slot world. Worker steps are permuted at command granularity (w.cmd.start / w.cmd.end); merge commands are not gated.")
LEVEL = MANIFEST["level"]
RULE = ("behaviours = TLC enumeration / simulation of GenTR; each is replayed per (shard count, scheduler policy); non-trivial = "
        "shard count > 1 and at least one worker step granted out of shard order during the behaviour; distinct by construction")


def run(chk):
    quick = chk.tier == "quick"
    plans = [("d3-idle1-maha", dict(depth=3, MaxIdle=1, Metric="maha", Thr=1000, MaxDets=2, Confs={900, 500})),
             ("sim40", dict(depth=40, MaxIdle=1, sim=6, simulate={"num": 6 if quick else 30, "depth": 41}))]
    if not quick:
        plans.append(("d3-idle0", dict(depth=3, MaxIdle=0)))
    kinds = ("sort", "visual", "batchsort") if quick else ("sort", "visual", "batchsort", "batchvisual")
    shard_counts = (2, 3, 5, 8) if quick else (2, 3, 4, 5, 6, 7, 8)
    for name, kw in plans:
        r, c = tc.generate(chk, name, **kw)
        big = r.generated > 20000
        for kind in kinds:
            base = tc.replay(chk, name + ":baseline", r, c, kind, 1, "all", "nt_C05", classify=False, stride=(16 if big else 1))
            base_sigs = set(base["by_sig"])
            for n in shard_counts:
                for pol in (("rand",) if quick else ("rev", "rand", "fwd")):
                    args = tc.vh_args(c, kind, n, "all") + ["--sched", pol, "--seed", str(chk.seed + n)]
                    stride = (64 if quick else 16) if big else (4 if quick and name.startswith("d3") else 1)
                    rep = vlib.run_vh(args, [r.out], stride=stride)
                    rep["nontrivial"] = rep["counters"].get("nt_C05", 0)
                    chk.add_report(f"{name}:{kind}:shards={n}:{pol}", rep)
                    # only disagreements that the one-shard free-running baseline does not show belong to C05
                    rep["by_sig"] = {s: v for s, v in rep["by_sig"].items() if s not in base_sigs}
                    chk.classify("tracker", args, rep)
    # R2: the same random history with 1 shard and with k shards under randomly delayed workers: records and ids equal
    from checks import r2_common as r2
    for i in range(3 if quick else 40):
        kind = ("sort", "visual")[i % 2]
        seed = chk.seed * 1000 + 700 + i
        kw = dict(steps=200, metric="iou" if i % 2 == 0 else "maha", max_idle=2, objects=4, spread=90, extra=["--no-lifecycle", "1"])
        a = r2.record(chk, f"c05-one-{i}", kind, seed, shards=1, **kw)
        kw["extra"] = kw["extra"] + ["--delay-us", "300"]
        b = r2.record(chk, f"c05-many-{i}", kind, seed, shards=(2, 3, 5, 8)[i % 4], **kw)
        ok, rej = r2.pairing(chk, f"c05-pair-{i}", a, b, "equal")
        chk.cov["evaluations"] += 1
        chk.cov["distinct_nontrivial"] += 1
        if not ok:
            chk.violation("c05:shard-count-or-schedule-changes-results", {"engine": "pairing", "a": str(a), "b": str(b), "rejected": rej[:2000]})
    chk.assumptions.append("R2 (free-world) run-against-run comparison is part of the trace engine; here every run is compared with the specification's single expected output")
    chk.finish(RULE, extra={"shard_counts": list(shard_counts)}, exhaustive=False)


def replay(payload):
    return tc.replay_payload("C05", payload)
