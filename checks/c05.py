"""C05 - tracking results are independent of shard count and thread schedule."""
import vlib
from checks import tracker_common as tc
MANIFEST = dict(level="model_checking", design="3 (C05)",
    technique="TLA+ specs (Tracker.tla consumes distance results as a bag; StoreConc.tla gives one bag for every schedule): one spec-expected output per call; TLC-generated behaviours replayed for shard counts 1..8 with worker steps serialised in permuted orders through hook gates",
    text="Decided by composition inside the specification (C10: the distance result is the same bag for every shard count and schedule; the tracker spec is a function of that bag), so TLC yields a single expected record list per call. Binding: the TLC-enumerated R1 behaviours (tie-free by construction) are replayed into the real trackers for shard counts {1,2,3,5,8} (thorough: 1..8) while a scheduler thread serialises the shard workers' Distances commands in forward, reverse and seeded random order through the hook gates; every run must equal the one spec-expected output, ids literally for the simple trackers. A disagreement that already appears (for the same number of behaviours) with one shard and free-running workers is not attributed to C05. Further schedules: a 'slow' policy grants a worker step 2.4 s late now and then (a late partial result is still the result); full multi-scene batches of the batch trackers are replayed under seeded delays at every hook site - also under the shard lock (hook w.dist.scan) - and under a forced overlap in which every voting job starts while shard workers are inside the scan for the next scene.",
    note="R1 slot world. Worker steps are permuted at command granularity (w.cmd.start / w.cmd.end); merge commands are not gated.")
LEVEL = MANIFEST["level"]
RULE = ("behaviours = TLC enumeration / simulation of GenTR; each is replayed per (shard count, scheduler policy); non-trivial = "
        "shard count > 1 and at least one worker step granted out of shard order during the behaviour; distinct by construction")


def run(chk):
    quick = chk.tier == "quick"
    plans = [("d3-idle1-maha", dict(depth=3, MaxIdle=1, Metric="maha", Thr=1000, MaxDets=2, Confs={900, 500})),
             ("sim40", dict(depth=40, MaxIdle=1, sim=6, simulate={"num": 6 if quick else 30, "depth": 41}))]
    if not quick:
        plans.append(("d3-idle0", dict(depth=3, MaxIdle=0)))
    kinds = ("sort", "visual", "batchsort") if quick else ("sort", "visual", "batchsort", "batchvisual")
    shard_counts = (2, 3, 5, 8) if quick else (2, 3, 4, 5, 6, 7, 8)
    for name, kw in plans:
        r, c = tc.generate(chk, name, **kw)
        big = r.generated > 20000
        for kind in kinds:
            base = tc.replay(chk, name + ":baseline", r, c, kind, 1, "all", "nt_C05", classify=False, stride=(16 if big else 1))
            base_sigs = set(base["by_sig"])
            for n in shard_counts:
                for pol in (("rand",) if quick else ("rev", "rand", "fwd")):
                    args = tc.vh_args(c, kind, n, "all") + ["--sched", pol, "--seed", str(chk.seed + n)]
                    stride = (64 if quick else 16) if big else (4 if quick and name.startswith("d3") else 1)
                    rep = vlib.run_vh(args, [r.out], stride=stride)
                    rep["nontrivial"] = rep["counters"].get("nt_C05", 0)
                    chk.add_report(f"{name}:{kind}:shards={n}:{pol}", rep)
                    # only disagreements that the one-shard free-running baseline does not show belong to C05
                    rep["by_sig"] = {s: v for s, v in rep["by_sig"].items() if s not in base_sigs}
                    chk.classify("tracker", args, rep)
    # VisualSORT with appearance features: the votes of a detection arrive in the chunks of several shard workers, in the
    # order the scheduler lets the workers finish; claim weights (which refer to the largest distance of the whole stream)
    # and winners must not depend on it
    rv, cv = tc.generate_visual(chk, "v-sim7-sched", depth=7, Sim=6, MaxObs=3, simulate={"num": 15 if quick else 200, "depth": 8})
    for kind in (("visual",) if quick else ("visual", "batchvisual")):
        base = vlib.run_vh(tc.visual_args(cv, kind, 1, "all"), [rv.out])
        for n in ((2, 3) if quick else (2, 3, 5, 8)):
            for pol in (("rand",) if quick else ("rev", "rand")):
                args = tc.visual_args(cv, kind, n, "all") + ["--sched", pol, "--seed", str(chk.seed + n)]
                rep = vlib.run_vh(args, [rv.out])
                rep["nontrivial"] = rep["counters"].get("nt_C05", 0)
                chk.add_report(f"v-sim7-sched:{kind}:shards={n}:{pol}", rep)
                rep["by_sig"] = {s: x for s, x in rep["by_sig"].items()
                                 if s not in base["by_sig"] or base["by_sig"][s]["count"] != x["count"]}
                chk.classify("tracker", args, rep)
    # slow workers: now and then a worker's step is granted more than a second late (a result that arrives late is still
    # the result); few long behaviours, since every late step costs its delay
    r, c = tc.generate(chk, "sim30-slow", depth=30, MaxIdle=1, sim=6, simulate={"num": 4 if quick else 24, "depth": 31})
    for kind in (("sort", "batchsort") if quick else kinds):
        base = tc.replay(chk, "sim30-slow:baseline", r, c, kind, 1, "all", "nt_C05", classify=False)
        for n in ((2,) if quick else (2, 3)):
            args = tc.vh_args(c, kind, n, "all") + ["--sched", "slow", "--seed", str(chk.seed + n)]
            rep = vlib.run_vh(args, [r.out], timeout=3600, stride=3 if (quick and kind == "sort") else 1)
            rep["nontrivial"] = rep["counters"].get("nt_C05", 0)
            chk.add_report(f"sim30-slow:{kind}:shards={n}", rep)
            rep["by_sig"] = {s: v for s, v in rep["by_sig"].items() if s not in set(base["by_sig"])}
            chk.classify("tracker", args, rep)
    # batch trackers: the voting threads of one scene run while the shard workers already scan for the next scene of the
    # batch; seeded delays at every hook site (also under the shard lock: w.dist.scan) move them against each other.
    # Baseline: one distance shard, one voting thread, no delays.
    rb, cb = tc.generate(chk, "batch-d3-delays", depth=3, kind="fullbatch", MaxIdle=1, MaxDets=1, Confs={900}, Cids={0}, Scenes={1, 2, 3})
    bstride = max(1, rb.generated // (800 if quick else 20000))
    for kind in (("batchsort",) if quick else ("batchsort", "batchvisual")):
        base = vlib.run_vh(tc.vh_args(cb, kind, 1, "all", voters=1), [rb.out], stride=bstride)
        for n, v in (((2, 2),) if quick else ((2, 2), (3, 2), (4, 3))):
            for mode in ((), ("--overlap", "1")):
                # free delays; forced overlap: a voting job starts while shard workers are inside a scan for the next scene
                args = tc.vh_args(cb, kind, n, "all", voters=v) + ["--delay-us", "1500", "--seed", str(chk.seed + n)] + list(mode)
                rep = vlib.run_vh(args, [rb.out], stride=bstride)
                rep["nontrivial"] = rep["cases"]
                chk.add_report(f"batch-d3-delays:{kind}:shards={n}:voters={v}{':overlap' if mode else ''}", rep)
                # the same behaviours were replayed by the baseline: a disagreement with the specification that the baseline
                # does not show, or shows for another number of behaviours, depends on shard count / schedule
                rep["by_sig"] = {s: x for s, x in rep["by_sig"].items()
                                 if s not in base["by_sig"] or base["by_sig"][s]["count"] != x["count"]}
                chk.classify("tracker", args, rep)
    # R2: the same random history with 1 shard and with k shards under randomly delayed workers: records and ids equal
    from checks import r2_common as r2
    for i in range(3 if quick else 40):
        kind = ("sort", "visual")[i % 2]
        seed = chk.seed * 1000 + 700 + i
        kw = dict(steps=200, metric="iou" if i % 2 == 0 else "maha", max_idle=2, objects=4, spread=90, extra=["--no-lifecycle", "1"])
        a = r2.record(chk, f"c05-one-{i}", kind, seed, shards=1, **kw)
        kw["extra"] = kw["extra"] + ["--delay-us", "300"]
        b = r2.record(chk, f"c05-many-{i}", kind, seed, shards=(2, 3, 5, 8)[i % 4], **kw)
        ok, rej = r2.pairing(chk, f"c05-pair-{i}", a, b, "equal")
        chk.cov["evaluations"] += 1
        chk.cov["distinct_nontrivial"] += 1
        if not ok:
            chk.violation("c05:shard-count-or-schedule-changes-results", {"engine": "pairing", "a": str(a), "b": str(b), "rejected": rej[:2000]})
    chk.assumptions.append("R2 (free-world) run-against-run comparison is part of the trace engine; here every run is compared with the specification's single expected output")
    chk.finish(RULE, extra={"shard_counts": list(shard_counts)}, exhaustive=False)


def replay(payload):
    return tc.replay_payload("C05", payload)
