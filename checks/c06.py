"""C06 - batch trackers refine simple trackers; one result per scene; no deadlock."""
import json, random, concurrent.futures as cf
import vlib
from vlib import SPEC
from checks import tracker_common as tc
MANIFEST = dict(level="model_checking", design="4 (C06)",
    technique="PlusCal/TLA+ spec (Batch.tla) of the predict loop, store workers, voting threads, busy monitor and bounded result channel model-checked for deadlock, termination and one-result-per-scene; hook traces of the real batch trackers under random delays validated against it by TLC; R1 behaviours replayed through the batch API against the same Tracker spec as the simple trackers",
    text="TLC explores every interleaving of the client/predict loop, the shard workers and the voting threads of the protocol model (labels = hook sites): no deadlock and termination under weak fairness with the proviso (results of a batch retrieved before the next is submitted), exactly one result per scene per batch, monitor never negative, predict never overlaps voters of an earlier batch; without the proviso the model must deadlock (non-vacuity); thorough: further instances exhaustively, and those too large to enumerate within a check (one batch of four scenes on three shard workers and four voting threads; three shards x one voter; one shard x three voters) by 3200 simulated behaviours each (invariants and deadlock freedom at every state). Real BatchSort / BatchVisualSort runs (distance_shards, voting_shards in 1..4, 2-3 scenes per batch and batches of up to 12 scenes on one or two voting threads, seeded random delays at every hook, watchdog) are recorded at the hook sites and each trace is validated by TLC against BatchTrace (every invariant at every step). Refinement of the simple trackers: the TLC-enumerated R1 behaviours (single- and multi-scene batches) are replayed through the batch API and must give, per scene, the records the Tracker specification computes - the same specification the simple trackers are replayed against - up to renaming of ids.",
    note="The protocol model abstracts the tracking decision (one detection per scene per batch, first batch adds, later batches merge); grouping equality is decided by the R1 replay. Both halves of the proviso are modelled: sequential retrieval by the client, and a second thread retrieving every batch (half of the recorded traces use it, with slow retrieval and the next batch submitted at once).")
LEVEL = MANIFEST["level"]
B = SPEC / "batch"
RULE = ("protocol traces: one per (seed, kind, ns, nv, batches); non-trivial = >= 2 scenes in a batch and >= 2 voters and a "
        "completion order different from dispatch order; R1 replays: behaviours with multi-scene batches; distinct by seed / by construction")


def mc(chk, name, consts_b, ns, nv, proviso, props=True, timeout=600, getter=False, simulate=None):
    cfg = chk.workdir / f"{name}.cfg"
    lines = ["CONSTANTS", f" NS = {ns}", f" NV = {nv}", f" Batches <- {consts_b}", f" Proviso = {'TRUE' if proviso else 'FALSE'}",
             f" Getter = {'TRUE' if getter else 'FALSE'}", " Slack = 0", "SPECIFICATION FairSpec", "INVARIANTS OneResultPerScene AllDelivered MonitorOK NoOverlap"]
    if props:
        lines.append("PROPERTY Termination2")
    lines.append("CHECK_DEADLOCK TRUE")
    cfg.write_text("\n".join(lines) + "\n")
    return vlib.tlc(B / "MCBatch.tla", cfg, name, chk.workdir, workers=8, timeout=timeout, simulate=simulate,
                    seed=chk.seed if simulate else None)


def nontrivial_trace(path):
    ev = [json.loads(l) for l in open(path)]
    cfgl = ev[0]
    if cfgl["nv"] < 2 or max(len(b) for b in cfgl["batches"]) < 2:
        return False
    disp = [e["a"] for e in ev if e["ev"] == "p.dispatch"]
    done = [e["a"] for e in ev if e["ev"] == "v.send.after"]
    return disp != done


def validate_one(args):
    i, trace, workdir = args
    ok, r, rej = vlib.validate_trace(B / "BatchTrace.tla", B / "trace.cfg", trace, f"bt-{i}", workdir, timeout=300)
    return i, ok, r.generated, r.distinct, rej


def run(chk):
    quick = chk.tier == "quick"
    # 1. the protocol: every interleaving
    r = mc(chk, "mc22", "B22", 2, 2, True)
    vlib.tlc_must_pass(r, "Batch 2x{1,2} NS=2 NV=2")
    chk.add_tlc("Batch B22 NS=2 NV=2 proviso", r)
    r = mc(chk, "mc22-noproviso", "B22", 2, 2, False, props=False)
    chk.witness("without_proviso_model_deadlocks", "deadlock" in r.violated)
    # results retrieved from another thread instead (the other half of the proviso): no deadlock, termination
    gb, gns = ("B212", 1) if quick else ("B22", 2)
    r = mc(chk, "mc-getter", gb, gns, 2, False, getter=True, timeout=1800)
    vlib.tlc_must_pass(r, "Batch with a retrieving thread")
    chk.add_tlc(f"Batch {gb} NS={gns} NV=2 retrieving thread", r)
    if not quick:
        for nm, b, ns, nv in (("mc212", "B212", 2, 2), ("mc22-21", "B22", 2, 1), ("mc22-12", "B22", 1, 2)):
            r = mc(chk, nm, b, ns, nv, True, timeout=1500)
            vlib.tlc_must_pass(r, nm)
            chk.add_tlc(f"Batch {b} NS={ns} NV={nv}", r)
        # instances whose state graphs are too large to enumerate in the time of a check (one batch of four scenes on three
        # shard workers and four voting threads: more than 3.4 million distinct states after 25 minutes) are explored by
        # random behaviours run to completion: every invariant and deadlock freedom at every state, no liveness
        for nm, b, ns, nv in (("sim1x4", "B1x4", 3, 4), ("sim22-31", "B22", 3, 1), ("sim22-13", "B22", 1, 3)):
            r = mc(chk, nm, b, ns, nv, True, props=False, timeout=900, simulate={"num": 400, "depth": 1500})
            vlib.tlc_must_pass(r, nm)
            chk.add_tlc(f"Batch {b} NS={ns} NV={nv} (simulated behaviours)", r)
    # 2. impl -> spec: hook traces under random delays
    n = 24 if quick else 300
    rnd = random.Random(chk.seed)
    jobs = []
    hangs = 0
    for i in range(n):
        kind = ("batchsort", "batchvisual")[i % 2]
        trace = chk.workdir / f"batch-{i}.ndjson"
        nb, nsc, dly = rnd.choice((2, 3)), rnd.choice((2, 3)), rnd.choice((100, 500, 1500))
        big = []
        if i % 8 in (1, 4, 6):
            # batches of up to 12 scenes served by one or two voting threads, retrieved by the client after predict
            # returned (i % 8 = 1: BatchVisualSort, 4: BatchSort) or by the retrieving thread (6): far more scenes than
            # voting threads
            nb, nsc, big = 2, 12, ["--nv", 1 + (i // 8) % 2]
        if i % 8 in (2, 7):
            # batches submitted back to back while a second thread retrieves (2: BatchSort, 7: BatchVisualSort), over the
            # same scenes ("aaa") or over disjoint scene sets ("aba"): a batch waits for the previous one whatever scenes
            # it carries, and sees the store as the previous batch left it
            big = ["--pattern", ("aaa", "aba")[(i // 8) % 2]] + (["--slow-voters-us", "4000"] if (i // 8) % 2 == 0 else [])
        ok = vlib.run_recorder(chk, [vlib.VH, "record", "batch", "--kind", kind, "--seed", chk.seed * 100000 + i, "--batches", nb,
                                     "--scenes", nsc, "--delay-us", dly, "--out", trace] + big
                               + (["--getter", "1"] if i % 4 >= 2 else []), "batch:record", timeout=300)
        if ok:
            jobs.append((len(jobs), trace, chk.workdir))
    nt = 0
    with cf.ThreadPoolExecutor(max_workers=6) as ex:
        for i, ok, gen, dist, rej in ex.map(validate_one, jobs):
            chk.cov["states"] += dist
            chk.cov["transitions"] += gen
            chk.cov["traces_validated_against_impl"] += 1
            chk.cov["evaluations"] += 1
            if nontrivial_trace(jobs[i][1]):
                nt += 1
            if not ok:
                hang = "HANG" in rej
                chk.violation("batch:hang" if hang else "batch:trace-rejected", {"engine": "batch-trace", "trace": str(jobs[i][1]), "rejected": rej})
    chk.cov["distinct_nontrivial"] += nt
    chk.cov["samples"].append([json.loads(l) for l in open(jobs[0][1])][:12])
    # binding demonstration: drop one hook event / corrupt the monitor value -> rejection
    ev = [json.loads(l) for l in open(jobs[0][1])]
    idx = [k for k, e in enumerate(ev) if e["ev"] == "v.send.before"]
    if idx:
        bad = ev[:idx[0]] + ev[idx[0] + 1:]
        bt = chk.workdir / "batch-dropped-event.ndjson"
        bt.write_text("".join(json.dumps(e) + "\n" for e in bad))
        ok2, _, _ = vlib.validate_trace(B / "BatchTrace.tla", B / "trace.cfg", bt, "bt-dropped", chk.workdir)
        chk.witness("trace_with_removed_hook_event_is_rejected", not ok2)
    idx = [k for k, e in enumerate(ev) if e["ev"] == "v.mon.dec"]
    if idx:
        bad = json.loads(json.dumps(ev))
        bad[idx[0]]["b"] += 1
        bt = chk.workdir / "batch-bad-monitor.ndjson"
        bt.write_text("".join(json.dumps(e) + "\n" for e in bad))
        ok2, _, _ = vlib.validate_trace(B / "BatchTrace.tla", B / "trace.cfg", bt, "bt-badmon", chk.workdir)
        chk.witness("trace_with_corrupted_monitor_value_is_rejected", not ok2)
    # 3. refinement of the simple trackers: R1 behaviours through the batch API
    plans = [("batch-d2", dict(depth=2, kind="batch", MaxIdle=0, MaxDets=2 if not quick else 1)),
             ("simple-d3", dict(depth=3, MaxIdle=1, Metric="maha", Thr=1000, MaxDets=1)),
             # an IoU threshold other than the default: the batch trackers must gate and vote with the configured one, as
             # the simple trackers do (a weak detection between the two thresholds continues its track)
             ("batch-d2-thr100", dict(depth=2, kind="batch", MaxIdle=1, MaxDets=1, Thr=100, Confs={900, 200}, Scenes={1})),
             ("batch-sim", dict(depth=40, kind="batch", MaxIdle=1, MaxDets=1, sim=6, simulate={"num": 4 if quick else 20, "depth": 41}))]
    if not quick:
        plans.append(("batch-d3", dict(depth=3, kind="batch", MaxIdle=0, MaxDets=1, Confs={900})))
    for name, kw in plans:
        r, c = tc.generate(chk, name, **kw)
        # disagreements that the simple tracker shows on the same behaviours are not C06's
        base_sigs = set()
        if kw.get("kind", "simple") == "simple":
            base = tc.replay(chk, name + ":simple-baseline", r, c, "sort", 2, "all", classify=False)
            base_sigs = {s.split(":", 1)[1] for s in base["by_sig"]}
        for kind in ("batchsort", "batchvisual"):
            # (one voting thread serving several scenes of a batch: what a scene gets must not depend on which thread serves it)
            for ns, nv in (((2, 2),) + (((3, 1),) if name == "batch-sim" else ()) if quick else ((1, 1), (2, 3), (4, 2))):
                args = tc.vh_args(c, kind, ns, "all", voters=nv) + ["--delay-us", "300", "--seed", str(chk.seed)]
                rep = vlib.run_vh(args, [r.out], stride=4 if (quick and r.generated > 30000) else 1)
                rep["nontrivial"] = rep["counters"].get("nt_C06", 0)
                chk.add_report(f"{name}:{kind}:ns={ns}:nv={nv}", rep)
                rep["by_sig"] = {s: v for s, v in rep["by_sig"].items() if s.split(":", 1)[1] not in base_sigs}
                chk.classify("tracker", args, rep)
    # free world (R2): the same random multi-scene history through a batch tracker and, scene by scene, through the simple
    # tracker; TLC relates the two recordings up to an id bijection (Pairing.tla): same grouping, boxes, epochs, lengths
    from checks import r2_common as r2
    for i in range(2 if quick else 24):
        bkind, skind = (("batchsort", "sort"), ("batchvisual", "visual"))[i % 2]
        seed = chk.seed * 1000 + 600 + i
        kw = dict(steps=160, shards=1 + i % 3, metric="iou" if i % 2 == 0 else "maha", max_idle=(2, 1, 3)[i % 3], objects=3, spread=90,
                  scenes="0,7", crafted=(i % 2 == 0), extra=["--no-lifecycle", "1", "--skip-empty", "1", "--delay-us", "200"])
        a = r2.record(chk, f"c06-batch-{i}", bkind, seed, **kw)
        for sc in (0, 7, 99) if kw["crafted"] else (0, 7):
            kw2 = dict(kw); kw2["extra"] = ["--no-lifecycle", "1", "--skip-empty", "1", "--only-scene", str(sc)]
            b = r2.record(chk, f"c06-simple{sc}-{i}", skind, seed, **kw2)
            ok, rej = r2.pairing(chk, f"c06-pair-{i}-{sc}", a, b, "renaming", scene=sc)
            chk.cov["evaluations"] += 1
            if not ok:
                chk.violation("c06:batch-differs-from-simple", {"engine": "pairing", "a": str(a), "b": str(b), "rejected": rej[:2000]})
    # ... with appearance features (weights are discrete, ties occur, so the two recordings are not compared with one
    # another): each is validated by TLC against VisualTrace.tla; a BatchVisualSort run that is rejected while the
    # VisualSort run of the same history is accepted is a batch tracker that does not refine the simple one
    bt, st = [], []
    for i in range(2 if quick else 16):
        seed = chk.seed * 1000 + 650 + i
        kw = dict(vis_kind=("euclid", "cosine")[i % 2], min_votes=1 + i % 2, min_track_len=(2, 1, 3)[i % 3], max_obs=(3, 2, 5)[i % 3],
                  metric=("iou", "maha")[(i // 2) % 2], steps=150, shards=1 + i % 3, objects=4, spread=(90, 120)[i % 2],
                  extra=["--no-lifecycle", "1", "--skip-empty", "1"])
        bt.append(r2.record_visual(chk, f"c06-vbatch-{i}", "batchvisual", seed, **kw))
        st.append(r2.record_visual(chk, f"c06-vsimple-{i}", "visual", seed, **kw))
    rb, rs = r2.validate_visual_each(chk, bt), r2.validate_visual_each(chk, st)
    for i, ((okb, why, rej, _), (oks, _, _, _)) in enumerate(zip(rb, rs)):
        chk.cov["evaluations"] += 1
        if oks and not okb:
            chk.violation(f"c06:batch-visual-differs-from-simple:{'+'.join(sorted(why))}", {"engine": "r2v-trace", "trace": str(bt[i]), "rejected": rej[:3000]})
    # VisualSORT batches with own-area gates (shares are computed per scene inside the batch loop): the batch tracker
    # against the simple tracker on the same behaviours
    vkw = dict(depth=5, Sim=12, OwnUse=50, OwnCollect=50, Kind="batch", Scenes={1, 2}, Slots={1, 2}, Confs={900, 800}, Feats={1}, Quals={90}, MaxDets=2)
    r, c = tc.generate_visual(chk, "v-own-batch", simulate={"num": 12 if quick else 150, "depth": 6}, **vkw)
    n_before = len(chk.violations)
    base = tc.replay_visual(chk, "v-own-batch:simple-baseline", r, c, "visual", 2, "all", "nt_C06")
    del chk.violations[n_before:]          # the simple tracker is not judged here
    base_sigs = {s.split(":", 1)[1] for s in base["by_sig"]}
    extra = ["--max-obs", str(c["MaxObs"]), "--min-track-len", str(c["MinTrackLen"]), "--min-votes", str(c["MinVotes"]),
             "--q-use", str(c["QUse"] / 100.0), "--q-collect", str(c["QCollect"] / 100.0), "--vis-thr", str(c["VisThr"] / 10.0),
             "--own-use", str(c["OwnUse"] / 100.0), "--own-collect", str(c["OwnCollect"] / 100.0)]
    for ns, nv in (((2, 2),) if quick else ((1, 1), (2, 3))):
        args = tc.vh_args(c, "batchvisual", ns, "all", voters=nv) + extra
        rep = vlib.run_vh(args, [r.out])
        rep["nontrivial"] = rep["counters"].get("nt_C06", 0)
        chk.add_report(f"v-own-batch:batchvisual:ns={ns}:nv={nv}", rep)
        rep["by_sig"] = {s: v for s, v in rep["by_sig"].items() if s.split(":", 1)[1] not in base_sigs}
        chk.classify("tracker", args, rep)
    chk.finish(RULE, exhaustive=False)


def replay_v(payload):
    return r2_replay_visual(payload)


def r2_replay_visual(payload):
    from checks import r2_common as r2
    return r2.replay_visual_trace("C06", payload)


def replay(payload):
    if payload.get("engine") == "r2v-trace":
        return r2_replay_visual(payload)
    if payload.get("engine") == "batch-trace":
        ok, r, rej = vlib.validate_trace(B / "BatchTrace.tla", B / "trace.cfg", payload["trace"], "replay", vlib.WORK / "C06")
        print("accepted" if ok else f"VIOLATION property=C06 replay=  # {rej[:200]}")
        return 0 if ok else 1
    return tc.replay_payload("C06", payload)
