"""C08 - oriented-box intersection and IoU are exact; the distance pre-filter is sound.

spec/geom/Lattice.tla: exact integer geometry of boxes on a half-unit lattice with quarter-turn angles
(intersection, IoU as an exact rational, too_far decided by squaring).
  1. TLC checks the algebraic facts of the property on every ordered pair of an alphabet (MCL.tla): symmetry,
     0 <= I <= min area, IoU in [0,1], identical <=> IoU = 1, I = 0 <=> disjoint or touching, invariance under a
     common translation and a common quarter turn, agreement with the axis-aligned closed form and with cell
     counting, I > 0 => not too_far; reachability witnesses for the degenerate classes.
  2. GenL.tla (Mode "pair") emits every ordered pair with the exact values; `vh replay geom` evaluates the real
     Universal2DBox::intersection / too_far / calculate_metric_object (Universal2DBox, BoundingBox,
     VisualObservationAttributes), BoundingBox::intersection and sutherland_hodgman_clip on each pair, on the
     lattice (angle None / Some) and under two common rigid motions (arbitrary rotation, translation up to 1e4,
     power-of-two scale): the exact area is invariant, so TLC's value stays the oracle.
"""
from checks import geomcommon as gc
MANIFEST = {
    'level': 'exploration', 'design': '6 (C08)',
    'technique': 'TLA+ spec of exact lattice geometry (Lattice.tla) model-checked with TLC; every TLC-enumerated pair '
                 'replayed into the real intersection / IoU / too_far / clipping code, also under common rigid motions',
    'text': 'TLC checks the algebraic facts the property states (symmetry, range, identical <=> 1, absent <=> no overlap, '
            'invariance under common translation and quarter turn, axis-aligned closed form, pre-filter soundness) on '
            'every ordered pair of a box alphabet (half-unit lattice, quarter-turn angles incl. |angle| > 2 pi), then '
            'emits every pair with its exact intersection / union / too_far; each pair is evaluated by the real '
            'functions on the lattice and under two common rigid motions per pair (rotation by an arbitrary angle, '
            'translation up to 1e4, scale 0.25..128) and compared with the exact value.',
    'note': 'Decides the property on an exactly representable sub-domain containing the degenerate configurations '
            '(touching, nested, identical, shared edge lines) and their images under rigid motions; not arbitrary reals. '
            'Tolerances: IoU abs 1e-4, areas rel 1e-5 widened by perimeter x (rounding of the f32 inputs + 1/16 ulp of '
            'the coordinates); zero-area contact may be absent or IoU < 1e-6; too_far compared only off the circle-contact boundary.'}
LEVEL = MANIFEST["level"]
RULE = ("cases = every ordered pair (first alphabet near the origin x second alphabet) of lattice boxes, each evaluated in "
        "3-4 variants (lattice with angle None / Some, near motion, far motion); distinct by construction (TLC enumerates "
        "each pair once); non-trivial = the pair is not in general position: contact, nested, identical, or a partial "
        "overlap with a shared edge line (classes computed by the specification and counted separately in the counters)")
WITNESSES = ["W_NoContactNotFar", "W_NoRotatedPartial", "W_NoNested", "W_NoIdenticalOtherAngle", "W_NoTooFar",
             "W_NoDisjointNotFar"]


def run(chk):
    quick = chk.tier == "quick"
    t = "q" if quick else "t"
    gc.model_check(chk, "MCL", "MCL.tla", f"MCL_{t}.cfg", 300 if quick else 1500)
    gc.witnesses(chk, "MCL.tla", WITNESSES, {"Tier": "tiny"})
    gc.generate_and_replay(chk, "pairs", "GenL.tla", f"GenL_pair_{t}.cfg", timeout=300 if quick else 1200)
    # boxes of side 0.1 .. 0.2 whose overlap is a sliver of a few 1e-6 (large lattice pairs replayed 10 000 times smaller):
    # a tiny overlap is an overlap
    gc.generate_and_replay(chk, "slivers", "GenL.tla", "GenL_sliver.cfg", timeout=300)
    gc.box_objects(chk, "c08", 3 if quick else 5)
    chk.assumptions += [
        "rigid motions and power-of-two scalings preserve intersection area (x s^2), IoU and too_far: TLC checks this for "
        "lattice translations and quarter turns, the harness relies on it for arbitrary angles",
        "the harness rounds the moved boxes to f32 and widens the area tolerance by the measured rounding x perimeter",
        "BoundingBox::calculate_metric_object reports Some(0) for no overlap: accepted as 'IoU < 1e-6'"]
    chk.finish(RULE, exhaustive=True)


def replay(payload):
    return gc.replay("C08", payload)
