"""C09 - the track store is a faithful id -> track map and reports merge failures.

TLC: (1) complete state graph of a reduced instance of spec/store/TrackStore.tla with the
invariants and the frame assertions of merges; (2) reachability witnesses; (3) generation of
every behaviour of length D over the operation alphabet (spec/store/GenTS.tla), replayed
into the real TrackStore by `vh replay store` for several shard counts.
"""
import vlib
from vlib import SPEC
MANIFEST = {'level': 'model_checking', 'design': '3 (C09)', 'technique': 'TLA+ spec (TrackStore.tla) model-checked with TLC; every TLC-enumerated behaviour replayed into the real TrackStore', 'text': 'TLC explores the complete state graph of a reduced store instance (invariants, merge frame assertions, reachability witnesses) and enumerates every operation sequence of depth 2 from the empty store and from a store that already holds two tracks (thorough: depth 3, 300-step simulations) over the API alphabet; each behaviour is replayed into the real sharded store for several shard counts and every return value / projected store state is compared with the value TLC computed from the specification. While a non-blocking merge is in flight (the optimise callback of the doubles lingers) the stored tracks are counted: the store is the same map in the middle of the merge as before it.', 'note': 'Trusted: TLC, the harness doubles (attributes/metric/notifier) implement what Track.tla models; ids/classes/values from a small alphabet; error variants are not distinguished.'}
LEVEL = "model_checking"
S = SPEC / "store"
RULE = ("behaviours = all operation sequences of length D over the GenTS alphabet (ids {1,2}(,3), an external id, "
        "2 classes), one TLC run per shard count; a behaviour is non-trivial when some operation fails (spec return "
        "'err') or tracks occupy >= 2 shards at some step; distinct by construction (TLC enumerates each once)")


def consts(n, d, alpha="full", sim=0, ids=(1, 2), pre=0):
    return {"Ids": set(ids), "ExtIds": {9}, "Classes": {0, 1}, "Cap": 2, "N": n, "D": d, "Alpha": alpha, "Sim": sim, "Pre": pre}


def gen_and_replay(chk, name, n, d, alpha, ids=(1, 2), simulate=None, sim=0, timeout=900, focus="c09", pre=0):
    cfg = vlib.write_cfg(chk.workdir / f"{name}.cfg", consts(n, d, alpha, sim, ids, pre), spec="GSpec", invariants=["Emit"])
    r = vlib.tlc(S / "GenTS.tla", cfg, name, chk.workdir, workers=8, timeout=timeout, simulate=simulate,
                 seed=chk.seed if simulate else None)
    vlib.tlc_must_pass(r, name)
    chk.add_tlc(name, r)
    args = ["replay", "store", "--shards", str(n), "--cap", "2", "--focus", focus]
    rep = vlib.run_vh(args, [r.out])
    chk.add_report(name, rep)
    chk.classify("store", args, rep)
    return rep


def run(chk):
    quick = chk.tier == "quick"
    # 1. model checking of the store design
    r = vlib.tlc(S / "MCTS.tla", S / ("MCTS_q.cfg" if quick else "MCTS.cfg"), "mc", chk.workdir, workers=8,
                 timeout=240 if quick else 900)
    if r.timed_out and not quick:
        chk.assumptions.append("thorough model-checking instance stopped by its time limit: partial exploration, no violation in the states visited")
        if r.violated or r.errors:
            vlib.tlc_must_pass(r, "mc")
    else:
        vlib.tlc_must_pass(r, "mc")
    chk.add_tlc("MCTS", r)
    # 2. witnesses
    for w in ("W_NoLongHist", "W_NoTwoShards"):
        cfg = vlib.write_cfg(chk.workdir / f"w-{w}.cfg",
                             {"Ids": {1, 2}, "ExtIds": {9}, "Classes": {0, 1}, "Cap": 1, "N": 2},
                             spec="MCSpec", invariants=[w], constraints=["MCBound"])
        rw = vlib.tlc(S / "MCTS.tla", cfg, f"w-{w}", chk.workdir, workers=4, timeout=120)
        chk.witness(w, vlib.expect_violation(rw, w))
    # 3. exhaustive behaviours, replayed
    shard_counts = (1, 2, 3) if quick else (1, 2, 3, 4, 5)
    for n in shard_counts:
        gen_and_replay(chk, f"gen-d2-n{n}", n, 2, "full")
    # every two-operation continuation of a store that already holds two tracks (successful owned merges, fetches of several ids)
    for n in ((2,) if quick else (1, 2, 3)):
        gen_and_replay(chk, f"gen-pre2-d2-n{n}", n, 4, "full", pre=1)
    if not quick:
        for n in (2, 3):
            # depth 3 over three ids (two of them share a shard for n = 2): 40 operations drawn per state (the complete
            # alphabet gives 8e6 behaviours of depth 3 - more than can be replayed)
            gen_and_replay(chk, f"gen-d3-n{n}", n, 3, "small", ids=(1, 2, 3), sim=40, timeout=1800)
    # 4. long random behaviours
    sims = [(2, 40, 60)] if quick else [(n, 300, 150) for n in (1, 2, 3, 4, 5)]
    for n, depth, num in sims:
        gen_and_replay(chk, f"sim-n{n}", n, depth, "full", ids=(1, 2, 3), sim=6,
                       simulate={"num": num, "depth": depth + 1})
    chk.assumptions += ["harness doubles implement the callbacks exactly as spec/store/Track.tla models them",
                        "return values are compared as ok / err (+payload), not by error variant",
                        "notification counts: membership in the set the specification admits"]
    chk.finish(RULE, extra={"shard_counts": list(shard_counts)}, exhaustive=True)


def replay(payload):
    rep = vlib.replay_single(payload["vh"], payload["case"], vlib.WORK / "C09")
    if rep["mismatches"]:
        print(f"VIOLATION property=C09 replay={payload.get('path','')}  # reproduced: {list(rep['by_sig'])}")
        return 1
    print("replay: no mismatch")
    return 0
