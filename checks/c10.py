"""C10 - distance queries are exact and schedule independent."""
import json, random
import vlib
from vlib import SPEC
MANIFEST = dict(level="model_checking", design="3 (C10)",
    technique="TLA+ spec (StoreConc.tla) of caller / shard-worker steps model-checked over every interleaving; TLC interleavings forced on the real store threads through hook gates; randomly delayed real queries validated against the spec by TLC",
    text="TLC explores every interleaving of the caller's steps and the shard workers' command steps for families of scenarios (owned and foreign candidates, mixed compatibility / status / classes, 1..3 shards) and checks that at completion exactly the required pairs were scanned, never a track with itself, and the store is unchanged (the model of the code before the repair of F8 must violate this: non-vacuity). Each complete interleaving of the small families is then forced on the real store by gating the worker loop and the caller (hook sites w.cmd.start / owned.sent) and the ok / error streams and the store content are compared with the streams TLC computed (in half of the scenarios the first stored track has beforehand absorbed the merge history of an external track (one observation of a class no scenario queries) that carries a candidate's id: histories are no part of a distance query). In the other direction, seeded random stores and candidate batches are queried under random delays at the schedule points and every recorded result is validated line by line by TLC against StoreConcTrace.",
    note="Command granularity (one worker step = one Distances command on one shard). Harness doubles for attributes / metric. A hang (missing chunk) is detected by a watchdog and reported as a violation.")
LEVEL = MANIFEST["level"]
S = SPEC / "conc"
RULE = ("forced schedules: every interleaving TLC finds for each scenario of the family; non-trivial = >= 2 candidates and a "
        "schedule that is not shard-sorted; recorded queries: non-trivial = >= 2 candidates, a non-empty error stream or "
        "owned candidates in different shards; distinct by construction (TLC) / by seed (recorder)")


def mc(chk, name, ns, fixed, family, history=False, invariants=("Exact", "NeverSelf"), timeout=600):
    cfg = vlib.write_cfg(chk.workdir / f"{name}.cfg",
                         {"NS": ns, "Fixed": fixed, "Classes": {0, 1}, "History": history, "Family": family},
                         spec="MCSpec", invariants=list(invariants))
    return vlib.tlc(S / "MCStoreConc.tla", cfg, name, chk.workdir, workers=8, timeout=timeout)


def run(chk):
    quick = chk.tier == "quick"
    # 1. the design: every interleaving, current code shape
    for ns in ((2,) if quick else (1, 2, 3)):
        for fam in (("small",) if quick else ("small", "wide")):
            r = mc(chk, f"mc-{fam}-{ns}", ns, True, fam)
            vlib.tlc_must_pass(r, f"StoreConc {fam} NS={ns}")
            chk.add_tlc(f"StoreConc {fam} NS={ns}", r)
    # non-vacuity: the pre-repair caller (fetch, enqueue, re-add) must violate Exact in the model
    r = mc(chk, "mc-unfixed", 2, False, "owned2")
    chk.witness("model_of_unrepaired_code_violates_Exact", vlib.expect_violation(r, "unfixed"))
    for w in ("W_NeverDone", "W_NoErr", "W_NoDropped"):
        r = mc(chk, w, 2, True, "small", invariants=(w,))
        chk.witness(w, vlib.expect_violation(r, w))
    # 2. spec -> impl: forced schedules (the pre-repair model has the richer caller schedule: it is a superset)
    runs = [("owned2", 2, False)] + ([("small", 2, True)] if quick else [("small", n, True) for n in (1, 2, 3)] + [("wide", 2, True), ("owned2", 3, False)])
    for fam, ns, fixed in runs:
        name = f"sched-{fam}-{ns}"
        r = mc(chk, name, ns, fixed, fam, history=True, invariants=("Emit",), timeout=900)
        if r.timed_out or r.errors:
            vlib.tlc_must_pass(r, name)
        chk.add_tlc(name, r)
        args = ["replay", "conc"]
        rep = vlib.run_vh(args, [r.out], procs=4)
        chk.add_report(name, rep)
        chk.classify("conc", args, rep)
    # a slow worker is a schedule as well: the last worker step of a forced schedule is granted seconds late
    # (the answer must still be complete: no timeout may stand in for a worker's chunk)
    for hold, lim in (((1500, 8),) if quick else ((1500, 16), (6000, 8))):
        args = ["replay", "conc", "--hold-ms", str(hold), "--limit", str(lim)]
        rep = vlib.run_vh(args, [r.out], procs=min(lim, 8))
        chk.add_report(f"slow-worker-{hold}ms", rep)
        chk.classify("conc", args, rep)
    # 3. impl -> spec: recorded random queries under random delays
    n = 300 if quick else 3000
    trace = chk.workdir / "queries.ndjson"
    if not vlib.run_recorder(chk, [vlib.VH, "record", "conc", "--n", n, "--seed", chk.seed, "--delay-us", "400", "--out", trace], "conc:record"):
        chk.finish(RULE, exhaustive=False)
    lines = [json.loads(l) for l in open(trace)]
    nt = sum(1 for e in lines if len(e["sc"]["cands"]) >= 2 or e["err"])
    ok, r, rej = vlib.validate_trace(S / "StoreConcTrace.tla", S / "trace.cfg", trace, "trace", chk.workdir)
    chk.add_tlc("StoreConcTrace", r)
    chk.cov["traces_validated_against_impl"] += len(lines)
    chk.cov["evaluations"] += len(lines)
    chk.cov["distinct_nontrivial"] += nt
    chk.cov["samples"].append(lines[0])
    if not ok:
        chk.violation("conc:recorded-query-rejected", {"engine": "conc-trace", "rejected": rej, "trace": str(trace)})
    # binding demonstration: a corrupted result must be rejected
    rnd = random.Random(chk.seed)
    cand = [i for i, e in enumerate(lines) if e["ok"]]
    if cand:
        i = rnd.choice(cand)
        bad = json.loads(json.dumps(lines))
        bad[i]["ok"][0]["d"] += 1
        bt = chk.workdir / "queries-corrupted.ndjson"
        bt.write_text("".join(json.dumps(e) + "\n" for e in bad))
        ok2, _, _ = vlib.validate_trace(S / "StoreConcTrace.tla", S / "trace.cfg", bt, "trace-corrupted", chk.workdir)
        chk.witness("corrupted_trace_is_rejected", not ok2)
    chk.finish(RULE, exhaustive=False)


def replay(payload):
    if payload.get("engine") == "conc-trace":
        ok, r, rej = vlib.validate_trace(S / "StoreConcTrace.tla", S / "trace.cfg", payload["trace"], "replay", vlib.WORK / "C10")
        print("accepted" if ok else f"VIOLATION property=C10 replay=  # {rej[:200]}")
        return 0 if ok else 1
    rep = vlib.replay_single(payload["vh"], payload["case"], vlib.WORK / "C10")
    if rep["mismatches"]:
        print(f"VIOLATION property=C10 replay=  # reproduced: {list(rep['by_sig'])}")
        return 1
    print("replay: no mismatch")
    return 0
