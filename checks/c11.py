"""C11 - track updates are atomic under callback failures; merge history intact.

Fault enumeration, exhaustive: spec/store/GenTrack.tla enumerates every (destination shape,
source shape, class list, history flag, fault position) for Track::merge and every add_observation
variant, asserts C11 on the specification's own operators, and emits the required result; `vh replay
track` applies each case to real tracks with failing callbacks.  The store part (add, merge_external,
merge_owned under faults; a failed owned merge leaves both tracks stored and unchanged) is replayed
from spec/store/GenTS.tla.
"""
import vlib
from vlib import SPEC
from checks import c09
MANIFEST = {'level': 'fault_enumeration', 'design': '3 (C11)', 'technique': 'TLA+ spec (Track.tla) with a fault parameter; TLC enumerates every fault position, cases replayed into real tracks and the real store', 'text': "Exhaustive enumeration by TLC of every (destination shape, source shape, class list, history flag, failing callback invocation) for Track::merge and every add_observation variant (thorough: two-merge sequences), with C11 asserted on the specification's operators; each case is applied to real tracks whose callbacks fail exactly there and the five mutable parts plus the notification count are compared; the store-level part replays the TrackStore behaviours with faults - every two-operation sequence from the empty store and from a store that already holds two tracks (successful and failing owned merges, both history flags, both tracks after a failed owned merge).", 'note': 'Trusted: TLC; faults are injected only through the user callbacks (apply / attribute merge / optimise); shapes have 0..2 observations in up to 3 classes.'}
LEVEL = "fault_enumeration"
S = SPEC / "store"
RULE = ("cases = every (dst shape over 3 classes with 0..2 observations, src shape, class list without repetition, "
        "history flag, fault in none/attr/opt1..3) for Track::merge plus every add_observation variant (thorough: "
        "two-merge sequences); non-trivial = fault position other than none, or a merge over >= 2 present classes; "
        "distinct by construction")


def run(chk):
    quick = chk.tier == "quick"
    modes = ["single"] if quick else ["single", "merge2"]
    for mode in modes:
        cfg = vlib.write_cfg(chk.workdir / f"gt-{mode}.cfg", {"Classes": {0, 1, 2}, "Cap": 2, "Mode": mode},
                             invariants=["Emit"])
        r = vlib.tlc(S / "GenTrack.tla", cfg, f"gt-{mode}", chk.workdir, workers=8, timeout=1800)
        vlib.tlc_must_pass(r, f"GenTrack {mode}")
        chk.add_tlc(f"GenTrack-{mode}", r)
        args = ["replay", "track", "--cap", "2"]
        rep = vlib.run_vh(args, [r.out])
        chk.add_report(f"track-{mode}", rep)
        chk.classify("track", args, rep)
    # store part: faults threaded through add / merge_external / merge_owned
    for n in ((2,) if quick else (1, 2, 3)):
        c09.gen_and_replay(chk, f"store-d2-n{n}", n, 2, "full", focus="c11")
        # ... and from a store that already holds two tracks: successful and failing owned merges, both history flags'
        # effect on the destination, both tracks after a failed owned merge
        c09.gen_and_replay(chk, f"store-pre2-d2-n{n}", n, 4, "full", focus="c11", pre=1)
    chk.assumptions += ["callbacks fail only where the fault plan says (harness doubles); a failing callback leaves "
                        "half-done changes behind (observations cleared, counter += 1000) so that a missing rollback is visible"]
    chk.finish(RULE, exhaustive=True)


def replay(payload):
    rep = vlib.replay_single(payload["vh"], payload["case"], vlib.WORK / "C11")
    if rep["mismatches"]:
        print(f"VIOLATION property=C11 replay=  # reproduced: {list(rep['by_sig'])}")
        return 1
    print("replay: no mismatch")
    return 0
