"""C12 - VisualSORT: appearance votes first, positional fallback, truthful voting type."""
import vlib
from checks import tracker_common as tc
MANIFEST = dict(level="model_checking", design="4 (C12)",
    technique="TLA+ spec (Visual.tla): operational cascade checked by TLC to lie inside the declarative C12 outcome on every generated step; TLC-enumerated / simulated VisualSORT histories replayed into VisualSort and BatchVisualSort",
    text="Visual.tla models the use gates (feature present, quality), the minimal number of collected features, votes within the visual threshold, claim weights, 'a track goes to its heaviest claimant', 'a detection's heaviest claim decides', the positional fallback over tracks not taken and the voting type; TLC asserts on every generated step that the outcome satisfies the declarative C12 conditions (a visual attachment is a claim of maximal weight, a loser starts a new track, no positional attachment to a visually taken track, no track twice). Exhaustive short histories (look-alike and overlapping objects on one slot told apart only by feature symbols, all qualities around the use / collect thresholds) and 7..40-step simulations over several option sets are replayed into the real VisualSort / BatchVisualSort; ids, lengths, epochs, voting types, galleries and collected counts are compared.",
    note="R1 slot world: appearance matches across slots are excluded (they move the Kalman estimate off the lattice). Steps with tied claim weights or tied positional optima are not generated. Own-area shares are exact in the slot world (a detection shares its slot with another one of the call, or not); minimal area is exercised with a bound between the areas of the slot boxes; Euclidean and cosine metrics both (feature symbols are points with a constant distance / similarity table in the specification).")
LEVEL = MANIFEST["level"]
RULE = ("behaviours = TLC enumeration (depth 2-3) and seeded simulations of GenVis over several option sets; non-trivial = a step "
        "in which an appearance claim loses (contested track); distinct by construction / by seed")


def plans(quick):
    small = dict(Slots={1}, Confs={900}, Feats={1, 2}, Quals={30, 90})
    p = [("v-d2", dict(depth=2, MaxDets=2, **small), None),
         ("v-d3", dict(depth=3, MaxDets=1, Confs={900}, Feats={1, 2}), None),
         ("v-sim7", dict(depth=7, Sim=6), {"num": 25 if quick else 400, "depth": 8}),
         ("v-sim7-mv2", dict(depth=7, Sim=6, MinVotes=2, MaxObs=3, MinTrackLen=2), {"num": 25 if quick else 300, "depth": 8}),
         ("v-sim9-full-gallery", dict(depth=9, Sim=6, MinTrackLen=2, MaxObs=2, Slots={1}), {"num": 25 if quick else 300, "depth": 10}),
         # positional fallback weighs with the DETECTION's confidence: a weak detection (below the IoU threshold after
         # scaling) starts a new track whatever confidence the track's last detection had
         ("v-lowconf", dict(depth=4, MaxDets=1, Slots={1}, Confs={900, 200}, Feats={1}, Quals={30, 90}), None),
         ("v-cosine", dict(depth=7, Sim=6, VisKind="cosine", VisThr=5), {"num": 20 if quick else 300, "depth": 8}),
         # similarity thresholds away from 0.5: a vote with similarity s counts iff s >= t, whatever 1 - s is
         ("v-cosine-low", dict(depth=7, Sim=6, VisKind="cosine", VisThr=7), {"num": 15 if quick else 300, "depth": 8}),
         ("v-cosine-high", dict(depth=7, Sim=6, VisKind="cosine", VisThr=3), {"num": 15 if quick else 300, "depth": 8}),
         ("v-min-area", dict(depth=7, Sim=6, MinArea=3000), {"num": 20 if quick else 300, "depth": 8}),
         ("v-own", dict(depth=7, Sim=6, OwnUse=50, OwnCollect=50), {"num": 25 if quick else 300, "depth": 8}),
         ("v-own-batch", dict(depth=5, Sim=12, OwnUse=50, OwnCollect=50, Kind="batch", Scenes={1, 2}, Slots={1, 2}, Confs={900, 800},
                              Feats={1}, Quals={90}, MaxDets=2), {"num": 12 if quick else 150, "depth": 6}),
         ("v-sim7-maha", dict(depth=7, Sim=6, Metric="maha", Thr=1000, VisThr=45), {"num": 25 if quick else 300, "depth": 8})]
    if not quick:
        p += [("v-d3-2dets", dict(depth=3, MaxDets=2, **small), None),
              ("v-d2-wide", dict(depth=2, MaxDets=2, Slots={1}, Confs={900, 800}, Feats={1, 2}), None),
              ("v-d3-wide", dict(depth=3, MaxDets=1, Feats={1, 2}), None),
              ("v-sim40", dict(depth=40, Sim=6, MaxObs=3, LifecycleOps=True, MaxIdle=1), {"num": 20, "depth": 41}),
              ("v-batch-sim", dict(depth=7, Sim=6, Kind="batch", Scenes={1, 2}), {"num": 100, "depth": 8})]
    return p


def cascade_engine(chk, quick):
    """Engine level: TLC-enumerated result streams -> the real VisualVoting::winners, every permutation."""
    from vlib import SPEC
    V = SPEC / "voting"
    for name, consts in ([("vv-2", {"NT": 2, "MinVs": {1}, "Thr": 3})] if quick else
                         [("vv-2", {"NT": 2, "MinVs": {1, 2}, "Thr": 3}), ("vv-2-thr1", {"NT": 2, "MinVs": {1, 2}, "Thr": 1})]):
        cfg = vlib.write_cfg(chk.workdir / f"{name}.cfg", consts, invariants=["Emit"])
        r = vlib.tlc(V / "GenVV.tla", cfg, name, chk.workdir, workers=8, timeout=1800)
        vlib.tlc_must_pass(r, name)
        chk.add_tlc(name, r)
        args = ["replay", "visvote"]
        rep = vlib.run_vh(args, [r.out])
        chk.add_report(name, rep)
        chk.classify("visvote", args, rep)
        # comparisons are live: a perturbed positional threshold must produce mismatches
        if name == "vv-2":
            rp = vlib.run_vh(args + ["--perturb-thr", "1.5"], [r.out], stride=4)
            chk.witness("cascade_replay_detects_perturbed_threshold", rp["mismatches"] > 0)
    cfg = vlib.write_cfg(chk.workdir / "vv-w.cfg", {"NT": 2, "MinVs": {1}, "Thr": 3}, invariants=["W_NeverContested"])
    rw = vlib.tlc(V / "GenVV.tla", cfg, "vv-w", chk.workdir, workers=4, timeout=300)
    chk.witness("W_NeverContested", vlib.expect_violation(rw, "W_NeverContested"))


def run(chk):
    quick = chk.tier == "quick"
    cascade_engine(chk, quick)
    for name, kw, sim in plans(quick):
        r, c = tc.generate_visual(chk, name, simulate=sim, **kw)
        kinds = ("visual", "batchvisual") if (not quick or name in ("v-sim7", "v-d3")) else ("visual",)
        if kw.get("Kind") == "batch":
            kinds = ("batchvisual",)
        for kind in kinds:
            tc.replay_visual(chk, name, r, c, kind, 2, "C12", "nt_C12")
    chk.finish(RULE, exhaustive=False)


def replay(payload):
    if payload.get("engine") == "visvote":
        rep = vlib.replay_single(payload["vh"], payload["case"], vlib.WORK / "C12")
        if rep["mismatches"]:
            print(f"VIOLATION property=C12 replay=  # reproduced: {list(rep['by_sig'])}")
            return 1
        print("replay: no mismatch")
        return 0
    return tc.replay_payload("C12", payload)
