"""C12 - VisualSORT: appearance votes first, positional fallback, truthful voting type."""
import vlib
from checks import tracker_common as tc
MANIFEST = dict(level="model_checking", design="4 (C12)",
    technique="TLA+ specs (Visual.tla, VisualTrace.tla): operational cascade checked by TLC to lie inside the declarative C12 outcome on every generated step; TLC-enumerated / simulated VisualSORT histories replayed into VisualSort and BatchVisualSort; recorded free-world runs of the real trackers validated by TLC against the trace specification",
    text="Visual.tla models the use gates (feature present, quality), the minimal number of collected features, votes within the visual threshold, claim weights, 'a track goes to its heaviest claimant', 'a detection's heaviest claim decides', the positional fallback over tracks not taken and the voting type; TLC asserts on every generated step that the outcome satisfies the declarative C12 conditions (a visual attachment is a claim of maximal weight, a loser starts a new track, no positional attachment to a visually taken track, no track twice). Exhaustive short histories (look-alike and overlapping objects on one slot told apart only by feature symbols, all qualities around the use / collect thresholds) and 7..40-step simulations over several option sets are replayed into the real VisualSort / BatchVisualSort; ids, lengths, epochs, voting types, galleries and collected counts are compared. Free world (R2): random crossing look-alike objects (feature symbols of three appearance families; Euclidean and cosine metrics, IoU and Mahalanobis, min votes 1..3, minimal track length 1..3, own-area and minimal-area gates) run through the real VisualSort / BatchVisualSort; every call is recorded with the galleries of the scene's stored tracks, the detections' symbols / qualities / areas / own shares and the measured positional weights, and TLC re-derives claims, claim weights, winners, losers, the positional fallback among the tracks not taken and the voting types (spec/tracker/VisualTrace.tla); calls in which a logged quantity lies within its tolerance of a threshold, or two competing claim weights within a margin, are checked structurally only (counted).",
    note="R1 slot world: appearance matches across slots are excluded (they move the Kalman estimate off the lattice). Steps with tied claim weights or tied positional optima are not generated. Own-area shares are exact in the slot world (a detection shares its slot with another one of the call, or not); minimal area is exercised with a bound between the areas of the slot boxes; Euclidean and cosine metrics both (feature symbols are points with a constant distance / similarity table in the specification).")
LEVEL = MANIFEST["level"]
RULE = ("behaviours = TLC enumeration (depth 2-3) and seeded simulations of GenVis over several option sets; non-trivial = a step "
        "in which an appearance claim loses (contested track); distinct by construction / by seed")


def plans(quick):
    small = dict(Slots={1}, Confs={900}, Feats={1, 2}, Quals={30, 90})
    p = [("v-d2", dict(depth=2, MaxDets=2, **small), None),
         ("v-d3", dict(depth=3, MaxDets=1, Confs={900}, Feats={1, 2}), None),
         ("v-sim7", dict(depth=7, Sim=6), {"num": 25 if quick else 400, "depth": 8}),
         ("v-sim7-mv2", dict(depth=7, Sim=6, MinVotes=2, MaxObs=3, MinTrackLen=2), {"num": 25 if quick else 300, "depth": 8}),
         ("v-sim9-full-gallery", dict(depth=9, Sim=6, MinTrackLen=2, MaxObs=2, Slots={1}), {"num": 25 if quick else 300, "depth": 10}),
         # positional fallback weighs with the DETECTION's confidence: a weak detection (below the IoU threshold after
         # scaling) starts a new track whatever confidence the track's last detection had
         ("v-lowconf", dict(depth=4, MaxDets=1, Slots={1}, Confs={900, 200}, Feats={1}, Quals={30, 90}), None),
         ("v-cosine", dict(depth=7, Sim=6, VisKind="cosine", VisThr=5), {"num": 20 if quick else 300, "depth": 8}),
         # similarity thresholds away from 0.5: a vote with similarity s counts iff s >= t, whatever 1 - s is
         ("v-cosine-low", dict(depth=7, Sim=6, VisKind="cosine", VisThr=7), {"num": 15 if quick else 300, "depth": 8}),
         ("v-cosine-high", dict(depth=7, Sim=6, VisKind="cosine", VisThr=3), {"num": 15 if quick else 300, "depth": 8}),
         ("v-min-area", dict(depth=7, Sim=6, MinArea=3000), {"num": 20 if quick else 300, "depth": 8}),
         ("v-own", dict(depth=7, Sim=6, OwnUse=50, OwnCollect=50), {"num": 25 if quick else 300, "depth": 8}),
         # only one of the two own-area thresholds set: the share is computed and the set one binds
         ("v-own-use-only", dict(depth=7, Sim=6, OwnUse=50, OwnCollect=0), {"num": 25 if quick else 300, "depth": 8}),
         ("v-own-batch", dict(depth=5, Sim=12, OwnUse=50, OwnCollect=50, Kind="batch", Scenes={1, 2}, Slots={1, 2}, Confs={900, 800},
                              Feats={1}, Quals={90}, MaxDets=2), {"num": 12 if quick else 150, "depth": 6}),
         ("v-sim7-maha", dict(depth=7, Sim=6, Metric="maha", Thr=1000, VisThr=45), {"num": 25 if quick else 300, "depth": 8})]
    if not quick:
        p += [("v-d3-2dets", dict(depth=3, MaxDets=2, **small), None),
              ("v-d2-wide", dict(depth=2, MaxDets=2, Slots={1}, Confs={900, 800}, Feats={1, 2}), None),
              ("v-d3-wide", dict(depth=3, MaxDets=1, Feats={1, 2}), None),
              ("v-sim40", dict(depth=40, Sim=6, MaxObs=3, LifecycleOps=True, MaxIdle=1), {"num": 20, "depth": 41}),
              # (a batch operation names a detection list for every scene: small alphabets keep the set of operations enumerable)
              ("v-batch-sim", dict(depth=7, Sim=6, Kind="batch", Scenes={1, 2}, Feats={1, 2}, Quals={30, 90}, Confs={900}, MaxDets=1),
               {"num": 100, "depth": 8})]
    return p


def cascade_engine(chk, quick):
    """Engine level: TLC-enumerated result streams -> the real VisualVoting::winners, every permutation."""
    from vlib import SPEC
    V = SPEC / "voting"
    for name, consts in ([("vv-2", {"NT": 2, "MinVs": {1}, "Thr": 3})] if quick else
                         [("vv-2", {"NT": 2, "MinVs": {1, 2}, "Thr": 3}), ("vv-2-thr1", {"NT": 2, "MinVs": {1, 2}, "Thr": 1})]):
        cfg = vlib.write_cfg(chk.workdir / f"{name}.cfg", consts, invariants=["Emit"])
        r = vlib.tlc(V / "GenVV.tla", cfg, name, chk.workdir, workers=8, timeout=1800)
        vlib.tlc_must_pass(r, name)
        chk.add_tlc(name, r)
        args = ["replay", "visvote"]
        rep = vlib.run_vh(args, [r.out])
        chk.add_report(name, rep)
        chk.classify("visvote", args, rep)
        # comparisons are live: a perturbed positional threshold must produce mismatches
        if name == "vv-2":
            rp = vlib.run_vh(args + ["--perturb-thr", "1.5"], [r.out], stride=4)
            chk.witness("cascade_replay_detects_perturbed_threshold", rp["mismatches"] > 0)
    cfg = vlib.write_cfg(chk.workdir / "vv-w.cfg", {"NT": 2, "MinVs": {1}, "Thr": 3}, invariants=["W_NeverContested"])
    rw = vlib.tlc(V / "GenVV.tla", cfg, "vv-w", chk.workdir, workers=4, timeout=300)
    chk.witness("W_NeverContested", vlib.expect_violation(rw, "W_NeverContested"))


def free_world(chk, quick):
    """R2: random crossing look-alike objects through the real VisualSort / BatchVisualSort; every call is re-derived by
    TLC from the logged galleries, gates and measured positional weights (spec/tracker/VisualTrace.tla)."""
    import json
    from checks import r2_common as r2
    # (kind, visual metric, positional metric, min votes, minimal track length, max observations, own-area share, minimal area)
    combos = [("visual", "euclid", "iou", 1, 2, 3, 0.0, 0), ("batchvisual", "cosine", "maha", 2, 1, 2, 0.6, 2600),
              ("visual", "cosine", "iou", 1, 1, 5, 0.0, 2600), ("batchvisual", "euclid", "iou", 2, 3, 4, 0.0, 0),
              ("visual", "euclid", "maha", 1, 2, 2, 0.5, 0), ("visual", "euclid", "iou", 3, 3, 5, 0.0, 0)]
    n = len(combos) if quick else 120
    traces, predicts = [], 0
    for i in range(n):
        kind, vk, metric, mv, mtl, mo, own, ma = combos[i % len(combos)]
        t = r2.record_visual(chk, f"r2v-{i}", kind, chk.seed * 1000 + 500 + i, vis_kind=vk, min_votes=mv, min_track_len=mtl, max_obs=mo, own=own,
                             min_area=ma, metric=metric, shards=1 + i % 3, objects=4 + i % 3, spread=(70, 90, 120)[i % 3],
                             steps=150 if quick else 300, extra=(["--jump", "1"] if i % 4 == 3 else []))
        traces.append(t)
        predicts += sum(1 for l in open(t) if '"ev":"predict"' in l)
    tot = r2.validate_visual(chk, traces, "C12")
    chk.cov["evaluations"] += predicts
    chk.cov["distinct_nontrivial"] += tot[2]
    chk.cov["free_world_calls"] = {"predict_calls": predicts, "checked_structurally_only": tot[0], "with_appearance_claims": tot[1],
                                   "with_a_claim_that_lost": tot[2], "positional_fallback_next_to_appearance": tot[3]}
    chk.witness("free_world_traces_contain_lost_claims", tot[2] > 0)
    chk.witness("free_world_traces_contain_fallback_next_to_appearance", tot[3] > 0)
    # binding demonstration: a positional record relabelled "visual" in a call that is checked in full -> rejected
    ev = [json.loads(l) for l in open(traces[0])]
    rejected = False
    tried = 0
    for k, e in enumerate(ev):
        if e["ev"] == "predict" and k > 30 and 0 in e["vt"] and 1 in e["vt"] and tried < 6:
            tried += 1
            bad = json.loads(json.dumps(ev[:k + 1]))
            bad[k]["vt"][bad[k]["vt"].index(0)] = 1
            bt = chk.workdir / "r2v-relabelled.ndjson"
            bt.write_text("".join(json.dumps(x) + "\n" for x in bad))
            ok, _, _ = vlib.validate_trace(r2.T / "VisualTrace.tla", r2.T / "vtrace.cfg", bt, "vt-relabelled", chk.workdir)
            if not ok:
                rejected = True
                break
    chk.witness("relabelled_voting_type_is_rejected", rejected)


def run(chk):
    quick = chk.tier == "quick"
    cascade_engine(chk, quick)
    free_world(chk, quick)
    for name, kw, sim in plans(quick):
        r, c = tc.generate_visual(chk, name, simulate=sim, **kw)
        kinds = ("visual", "batchvisual") if (not quick or name in ("v-sim7", "v-d3")) else ("visual",)
        if kw.get("Kind") == "batch":
            kinds = ("batchvisual",)
        for kind in kinds:
            tc.replay_visual(chk, name, r, c, kind, 2, "C12", "nt_C12")
    chk.finish(RULE, exhaustive=False)


def replay(payload):
    if payload.get("engine") == "r2v-trace":
        from checks import r2_common as r2
        return r2.replay_visual_trace("C12", payload)
    if payload.get("engine") == "visvote":
        rep = vlib.replay_single(payload["vh"], payload["case"], vlib.WORK / "C12")
        if rep["mismatches"]:
            print(f"VIOLATION property=C12 replay=  # reproduced: {list(rep['by_sig'])}")
            return 1
        print("replay: no mismatch")
        return 0
    return tc.replay_payload("C12", payload)
