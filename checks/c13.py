"""C13 - bounded galleries and histories: newest kept, lowest quality evicted."""
import vlib
from checks import tracker_common as tc
MANIFEST = dict(level="model_checking", design="4 (C13)",
    technique="TLA+ specs (Visual.tla gallery + Tracker.tla history rings; VisualTrace.tla for recorded runs): coded gallery update checked by TLC to lie inside the declarative C13 relation on every generated step, bounds as invariants; exhaustive quality/feature sequences replayed into the real trackers",
    text="Visual.tla keeps per track the gallery (newest first), the collected count and the feature / box history rings; TLC checks on every state of the generation instances that collected <= max observations, only features are stored behind the newest entry, ring lengths = min(track length, history length), and on every update that the coded gallery transition is inside the declarative C13 relation (newest kept and gated by the collect thresholds, nothing invented, lowest quality evicted first, no more evictions than needed). Exhaustive sequences of continuations over quality {below, between, above the thresholds} x feature present / absent for max observations 1..3 and history lengths 1..3 (lifetimes 5; thorough 6 and 300-update simulations with max observations to 8, history to 10) are replayed into VisualSort / BatchVisualSort and the stored galleries (symbol, quality, order), collected counts, box / feature histories and the wasted-track conversions are compared; the box histories of Sort / BatchSort come from the R1 lifecycle behaviours. Free world (R2): recorded runs of the real VisualSort / BatchVisualSort over random look-alike objects with long lives (max observations 1..8, qualities that differ by less than a hundredth included) are validated by TLC against spec/tracker/VisualTrace.tla: the gallery after every call is an admissible successor of the gallery before it (same declarative relation), the reported count equals the stored count, and nothing touches a gallery between two calls of its scene.",
    note="Qualities are distinct between different feature symbols (ties in quality would make the evicted entry arbitrary).")
LEVEL = MANIFEST["level"]
RULE = ("behaviours = all sequences of single-detection predict calls of the stated length over (feature symbol or none) x quality, "
        "per (max observations, history length), plus lifecycle behaviours for the box rings; non-trivial = an update that evicts "
        "or whose feature is refused by the collect gate (galleries) / a track longer than its ring (histories); distinct by construction")


def run(chk):
    quick = chk.tier == "quick"
    one = dict(Slots={1}, Confs={900}, Feats={1}, Quals={30, 70, 90}, MaxDets=1, MaxIdle=8)
    combos = [(2, 2, 5), (1, 1, 4), (3, 3, 5)] if quick else [(m, h, 6) for m in (1, 2, 3) for h in (1, 2, 3)]
    for m, h, d in combos:
        name = f"gal-m{m}-h{h}-d{d}"
        r, c = tc.generate_visual(chk, name, depth=d, MaxObs=m, H=h, MinTrackLen=1, **one)
        tc.replay_visual(chk, name, r, c, "visual", 2, "C13", "nt_C13g")
    # two feature symbols: eviction order among different symbols, voting on
    r, c = tc.generate_visual(chk, "gal-2feat", depth=4 if quick else 5, MaxObs=2, H=2, Slots={1}, Confs={900}, Feats={1, 2},
                              Quals={30, 70, 90}, MaxDets=1, MaxIdle=8)
    for kind in ("visual", "batchvisual"):
        tc.replay_visual(chk, "gal-2feat", r, c, kind, 2, "C13", "nt_C13g")
    # own-area share as a collect gate only (use threshold 0), both tracker kinds
    r, c = tc.generate_visual(chk, "gal-own-collect", depth=5, Sim=8, OwnUse=0, OwnCollect=50, MaxObs=2, H=2, Slots={1, 2}, Confs={900, 800},
                              Feats={1}, Quals={90}, MaxDets=3, MaxIdle=8, simulate={"num": 20 if quick else 150, "depth": 6})
    # (three detections per call: a detection alone on its slot next to two that cover each other - the shares within one
    # call differ, and each detection is gated with its own)
    for kind in ("visual", "batchvisual"):
        tc.replay_visual(chk, "gal-own-collect", r, c, kind, 2, "C13", "nt_C13g")
    # an object whose apparent size crosses the minimal-area threshold (slot 5 = slot 1 seen smaller): the area gate
    # concerns the box of the detection, whatever the smoothed box of the track is at that moment
    r, c = tc.generate_visual(chk, "gal-resize", depth=5 if quick else 6, MinArea=3000, MaxObs=3, H=2, Slots={1, 5}, Confs={900}, Feats={1},
                              Quals={90}, MaxDets=1, MaxIdle=8)
    for kind in ("visual", "batchvisual"):
        tc.replay_visual(chk, "gal-resize", r, c, kind, 2, "C13", "nt_C13g")
    if not quick:
        for m, h in ((8, 10), (5, 4)):
            name = f"gal-sim-m{m}-h{h}"
            r, c = tc.generate_visual(chk, name, depth=300, MaxObs=m, H=h, Sim=6, MinTrackLen=2, Slots={1}, Confs={900},
                                      Feats={1, 2}, Quals={30, 70, 90}, MaxDets=1, MaxIdle=8, simulate={"num": 3, "depth": 301})
            tc.replay_visual(chk, name, r, c, "visual", 2, "C13", "nt_C13g")
    # box histories of the positional trackers (and the wasted-track conversion)
    plans = [("hist-d3", dict(depth=3, MaxIdle=1, H=1, Metric="maha", Thr=1000, MaxDets=1)),
             ("hist-sim", dict(depth=60, MaxIdle=1, H=3, sim=6, simulate={"num": 6 if quick else 40, "depth": 61}))]
    # the same through the batch API (its own alphabet: a batch cannot express a scene without detections)
    plans.append(("hist-batch-sim", dict(depth=30, kind="batch", MaxIdle=1, H=3, MaxDets=1, sim=6, simulate={"num": 4 if quick else 30, "depth": 31})))
    for name, kw in plans:
        r, c = tc.generate(chk, name, **kw)
        if kw.get("kind") == "batch":
            for kind in (("batchsort",) if quick else ("batchsort", "batchvisual")):
                tc.replay(chk, name, r, c, kind, 2, "C13", "nt_C13")
            continue
        for kind in (("sort",) if quick else ("sort", "visual")):
            tc.replay(chk, name, r, c, kind, 2, "C13", "nt_C13")
    # free world (R2): random look-alike objects with long lives; TLC re-derives the admissible galleries of every call from
    # the logged ones (spec/tracker/VisualTrace.tla: GalleryAllowed, reported count = stored count, nothing touches a
    # gallery between two calls)
    from checks import r2_common as r2
    combos = [("visual", 1, 1), ("batchvisual", 2, 1), ("visual", 3, 2), ("visual", 5, 3), ("batchvisual", 4, 2), ("visual", 8, 2)]
    traces = []
    for i in range(len(combos) if quick else 60):
        kind, mo, mtl = combos[i % len(combos)]
        traces.append(r2.record_visual(chk, f"r2v-gal-{i}", kind, chk.seed * 1000 + 900 + i, vis_kind=("euclid", "cosine")[i % 2], min_votes=1,
                                       min_track_len=mtl, max_obs=mo, own=(0.0, 0.0, 0.5)[i % 3], metric=("iou", "maha")[(i // 2) % 2],
                                       max_idle=4, objects=4, spread=(120, 160)[i % 2], steps=200 if quick else 400, shards=1 + i % 3,
                                       extra=["--no-lifecycle", "1"]))
    tot = r2.validate_visual(chk, traces, "C13")
    chk.cov["distinct_nontrivial"] += tot[4] + tot[5]
    chk.cov["free_world_galleries"] = {"continuations_of_a_full_gallery": tot[4], "features_refused_by_the_collect_gate": tot[5]}
    chk.witness("free_world_traces_contain_evictions", tot[4] > 0)
    chk.witness("free_world_traces_contain_refused_features", tot[5] > 0)
    chk.finish(RULE, exhaustive=True)


def replay(payload):
    if payload.get("engine") == "r2v-trace":
        from checks import r2_common as r2
        return r2.replay_visual_trace("C13", payload)
    return tc.replay_payload("C13", payload)
