"""C13 - bounded galleries and histories: newest kept, lowest quality evicted."""
import vlib
from checks import tracker_common as tc
MANIFEST = dict(level="model_checking", design="4 (C13)",
    technique="TLA+ spec (Visual.tla gallery + Tracker.tla history rings): coded gallery update checked by TLC to lie inside the declarative C13 relation on every generated step, bounds as invariants; exhaustive quality/feature sequences replayed into the real trackers",
    text="Visual.tla keeps per track the gallery (newest first), the collected count and the feature / box history rings; TLC checks on every state of the generation instances that collected <= max observations, only features are stored behind the newest entry, ring lengths = min(track length, history length), and on every update that the coded gallery transition is inside the declarative C13 relation (newest kept and gated by the collect thresholds, nothing invented, lowest quality evicted first, no more evictions than needed). Exhaustive sequences of continuations over quality {below, between, above the thresholds} x feature present / absent for max observations 1..3 and history lengths 1..3 (lifetimes 5; thorough 6 and 300-update simulations with max observations to 8, history to 10) are replayed into VisualSort / BatchVisualSort and the stored galleries (symbol, quality, order), collected counts, box / feature histories and the wasted-track conversions are compared; the box histories of Sort / BatchSort come from the R1 lifecycle behaviours.",
    note="Qualities are distinct between different feature symbols (ties in quality would make the evicted entry arbitrary).")
LEVEL = MANIFEST["level"]
RULE = ("behaviours = all sequences of single-detection predict calls of the stated length over (feature symbol or none) x quality, "
        "per (max observations, history length), plus lifecycle behaviours for the box rings; non-trivial = an update that evicts "
        "or whose feature is refused by the collect gate (galleries) / a track longer than its ring (histories); distinct by construction")


def run(chk):
    quick = chk.tier == "quick"
    one = dict(Slots={1}, Confs={900}, Feats={1}, Quals={30, 70, 90}, MaxDets=1, MaxIdle=8)
    combos = [(2, 2, 5), (1, 1, 4), (3, 3, 5)] if quick else [(m, h, 6) for m in (1, 2, 3) for h in (1, 2, 3)]
    for m, h, d in combos:
        name = f"gal-m{m}-h{h}-d{d}"
        r, c = tc.generate_visual(chk, name, depth=d, MaxObs=m, H=h, MinTrackLen=1, **one)
        tc.replay_visual(chk, name, r, c, "visual", 2, "C13", "nt_C13g")
    # two feature symbols: eviction order among different symbols, voting on
    r, c = tc.generate_visual(chk, "gal-2feat", depth=4 if quick else 5, MaxObs=2, H=2, Slots={1}, Confs={900}, Feats={1, 2},
                              Quals={30, 70, 90}, MaxDets=1, MaxIdle=8)
    for kind in ("visual", "batchvisual"):
        tc.replay_visual(chk, "gal-2feat", r, c, kind, 2, "C13", "nt_C13g")
    # own-area share as a collect gate only (use threshold 0), both tracker kinds
    r, c = tc.generate_visual(chk, "gal-own-collect", depth=5, Sim=8, OwnUse=0, OwnCollect=50, MaxObs=2, H=2, Slots={1, 2}, Confs={900, 800},
                              Feats={1}, Quals={90}, MaxDets=2, MaxIdle=8, simulate={"num": 15 if quick else 150, "depth": 6})
    for kind in ("visual", "batchvisual"):
        tc.replay_visual(chk, "gal-own-collect", r, c, kind, 2, "C13", "nt_C13g")
    # an object whose apparent size crosses the minimal-area threshold (slot 5 = slot 1 seen smaller): the area gate
    # concerns the box of the detection, whatever the smoothed box of the track is at that moment
    r, c = tc.generate_visual(chk, "gal-resize", depth=5 if quick else 6, MinArea=3000, MaxObs=3, H=2, Slots={1, 5}, Confs={900}, Feats={1},
                              Quals={90}, MaxDets=1, MaxIdle=8)
    for kind in ("visual", "batchvisual"):
        tc.replay_visual(chk, "gal-resize", r, c, kind, 2, "C13", "nt_C13g")
    if not quick:
        for m, h in ((8, 10), (5, 4)):
            name = f"gal-sim-m{m}-h{h}"
            r, c = tc.generate_visual(chk, name, depth=300, MaxObs=m, H=h, Sim=6, MinTrackLen=2, Slots={1}, Confs={900},
                                      Feats={1, 2}, Quals={30, 70, 90}, MaxDets=1, MaxIdle=8, simulate={"num": 3, "depth": 301})
            tc.replay_visual(chk, name, r, c, "visual", 2, "C13", "nt_C13g")
    # box histories of the positional trackers (and the wasted-track conversion)
    plans = [("hist-d3", dict(depth=3, MaxIdle=1, H=1, Metric="maha", Thr=1000, MaxDets=1)),
             ("hist-sim", dict(depth=60, MaxIdle=1, H=3, sim=6, simulate={"num": 6 if quick else 40, "depth": 61}))]
    for name, kw in plans:
        r, c = tc.generate(chk, name, **kw)
        for kind in (("sort",) if quick else ("sort", "batchsort", "visual")):
            tc.replay(chk, name, r, c, kind, 2, "C13", "nt_C13")
    chk.finish(RULE, exhaustive=True)


def replay(payload):
    return tc.replay_payload("C13", payload)
