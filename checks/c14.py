"""C14 - non-maximum suppression keeps a maximal independent set in rank order.

TLC: (1) spec/geom/MCN.tla: over every list of 0..3 detections of an alphabet (thorough: also 4 over a
smaller one), every threshold pair and every way of breaking rank ties, the greedy definition of
spec/geom/Nms.tla is the UNIQUE set satisfying the declarative definition of the property, the list is
rank-ordered and nms(nms(x)) = nms(x); (2) reachability witnesses; (3) spec/geom/GenN.tla enumerates every
list over the box alphabet x score patterns x score thresholds x nms thresholds with the lists the
specification admits, and draws random lists of 6..40 boxes by simulation; `vh replay nms` feeds each case
in several input orders to the real `similari::utils::nms::nms`, identifies the result by index into the
input slice, requires membership in the admitted lists, and applies nms to its own output (idempotence).
"""
import vlib
from vlib import SPEC

MANIFEST = {
    'level': 'model_checking',
    'design': '5 (C14)',
    'technique': 'TLA+ spec (Nms.tla over the exact Lattice.tla geometry) model-checked with TLC: greedy = the unique '
                 'declaratively defined result, idempotence; every TLC-enumerated list replayed into the real nms()',
    'text': 'TLC checks over every list of 0..3 detections of a 10-box x 2-score alphabet (thorough: 3 scores, and lists '
            'of 4 over a 6-box alphabet), every threshold pair and every tie-break that the greedy definition yields the '
            'unique set satisfying the declarative definition of C14, that the list is rank-descending and that the '
            'operation is idempotent, with reachability witnesses; it then enumerates every list of 0..3 boxes over a '
            '16-box alphabet and of 4 over an 8-box alphabet (thorough: 0..3 over 30 boxes, 4 over 16; nested, shifted, '
            'quarter-turn rotated, duplicated, far and invalid-size boxes) x 6 score patterns (zero and negative scores included) x score thresholds none / '
            'below / on / inside / above x the nms threshold grid, plus random lists of 6, 12, 24 and 40 boxes by '
            'simulation; each case is replayed into the real nms() in up to 4 input orders and the returned references, '
            'identified by position in the input slice, must form a list the specification admits; nms of its own '
            'output must return it unchanged. Box OBJECTS with a history (vertices generated, then turned / moved / resized / '
            'cloned: GenObj.tla) are handed to nms() as well: the result is that of the current geometry. A separate alphabet of '
            'long thin boxes in a row (the higher-ranked box is the shorter one and its circumscribed circle stops short of the centre of '
            'the long box it covers by 0.325; also turned by a quarter turn) is enumerated over the full threshold grid.',
    'note': 'Trusted: TLC; Lattice.tla geometry (boxes on a half-unit lattice, angles in quarter turns - decided exactly; '
            'arbitrary angles are the business of C08); cases whose cover ratio equals the nms threshold exactly are '
            'skipped (float tie); rank ties are replayed with every list admissible under some tie-break.',
}
LEVEL = MANIFEST["level"]
S = SPEC / "geom"
RULE = ("cases = every list of MinLen..MaxLen detections over the GenN box alphabet x score pattern x score threshold x "
        "nms threshold (one TLC state each, so distinct by construction; the enumeration runs use disjoint lengths), plus "
        "simulated lists of 6/12/24/40 random boxes; skipped: exact threshold ties of a cover ratio; a case is "
        "non-trivial when the specification's result suppresses some box that passed the filter while a box other than "
        "the top-ranked one survives (flag computed by TLC: Nms!Interesting)")
WITNESSES = ("W_NeverInteresting", "W_FilterNeverDrops", "W_TieNeverMatters", "W_NoInvalidMixed")


def mc(chk, name, maxlen, grid, timeout):
    cfg = vlib.write_cfg(chk.workdir / f"{name}.cfg", {"MaxLen": maxlen, "Grid": grid}, spec="MCSpec", invariants=["Inv"])
    r = vlib.tlc(S / "MCN.tla", cfg, name, chk.workdir, workers=8, timeout=timeout)
    vlib.tlc_must_pass(r, name)
    chk.add_tlc(name, r)


def gen_and_replay(chk, name, consts, simulate=None, timeout=900, perms=4):
    cfg = vlib.write_cfg(chk.workdir / f"{name}.cfg", consts, spec="Spec", invariants=["Emit"])
    r = vlib.tlc(S / "GenN.tla", cfg, name, chk.workdir, workers=8, timeout=timeout, simulate=simulate,
                 seed=chk.seed if simulate else None)
    vlib.tlc_must_pass(r, name)
    chk.add_tlc(name, r)
    args = ["replay", "nms", "--perms", str(perms), "--seed", str(chk.seed)]
    rep = vlib.run_vh(args, [r.out])
    chk.add_report(name, rep)
    chk.classify("nms", args, rep)
    return r, rep


def enum_consts(alpha, lo, hi, grid, ties=True):
    return {"Mode": "enum", "Alpha": alpha, "MinLen": lo, "MaxLen": hi, "Grid": grid, "Ties": ties}


def run(chk):
    quick = chk.tier == "quick"
    # 1. model checking of the definition: greedy = the unique declarative result, ordered, idempotent
    if quick:
        mc(chk, "mcn-3", 3, "quick", 240)
    else:
        mc(chk, "mcn-3", 3, "full", 600)
        mc(chk, "mcn-4", 4, "small", 900)
    # 2. reachability witnesses (TLC must violate them)
    for w in WITNESSES:
        cfg = vlib.write_cfg(chk.workdir / f"w-{w}.cfg", {"MaxLen": 3, "Grid": "quick"}, spec="MCSpec", invariants=[w])
        rw = vlib.tlc(S / "MCN.tla", cfg, f"w-{w}", chk.workdir, workers=4, timeout=120)
        chk.witness(w, vlib.expect_violation(rw, w))
    # 3. exhaustive lists, replayed into nms()
    if quick:
        _, first = gen_and_replay(chk, "gen-small-0to3", enum_consts("small", 0, 3, "quick"))
        gen_and_replay(chk, "gen-tiny-4", enum_consts("tiny", 4, 4, "quick"))
    else:
        _, first = gen_and_replay(chk, "gen-full-0to3", enum_consts("full", 0, 3, "full"), timeout=1200)
        gen_and_replay(chk, "gen-small-4", enum_consts("small", 4, 4, "quick"), timeout=1200)
    # 3b. long thin boxes in a row (the higher-ranked one is the shorter one), every threshold of the full grid
    gen_and_replay(chk, "gen-elong-0to3", enum_consts("elong", 0, 3, "full"))
    # 4. random lists of 6..40 boxes (TLC -simulate; num is per worker)
    sim = {"Mode": "sim", "Alpha": "full", "MinLen": 0, "MaxLen": 0, "Grid": "full", "Ties": False}
    gen_and_replay(chk, "sim-40", sim, simulate={"num": 25 if quick else 500, "depth": 260}, timeout=600)
    # 4b. box OBJECTS with a history (vertices generated, then turned / moved / resized / cloned) handed to nms(): the result
    #     is a function of the current geometry
    from checks import geomcommon
    geomcommon.box_objects(chk, "c14", 3 if quick else 4)
    # 5. the comparison is live: the first generated file replayed with the nms threshold handed to the
    #    implementation scaled by 1.5 must produce mismatches
    name = "gen-small-0to3" if quick else "gen-full-0to3"
    live = vlib.run_vh(["replay", "nms", "--perms", "1", "--perturb-thr", "1.5", "--limit", "200000"],
                       [chk.workdir / f"{name}.out"])
    chk.witness("replay_detects_perturbed_threshold", live["mismatches"] > 0)
    if not all(chk.cov["witnesses"].values()):
        vlib.tool_error(f"vacuity guard failed: {chk.cov['witnesses']}")
    chk.assumptions += [
        "geometry is decided exactly on the half-unit lattice with quarter-turn angles (Lattice.tla); other angles: C08",
        "scores and the score threshold are hundredths (s/100 as f32); a box without score ranks by height h/2",
        "cases where a cover ratio equals the nms threshold exactly are not generated (float tie)",
        "rank ties: any list admissible under some tie-break is accepted; the second application must be the identity",
    ]
    chk.finish(RULE, extra={"perturbed_threshold_mismatches": live["mismatches"]}, exhaustive=True)


def replay(payload):
    rep = vlib.replay_single(payload["vh"], payload["case"], vlib.WORK / "C14")
    if rep["mismatches"]:
        print(f"VIOLATION property=C14 replay={payload.get('path', '')}  # reproduced: {list(rep['by_sig'])}")
        return 1
    print("replay: no mismatch")
    return 0
