"""C15 - the exclusively-owned area share equals the uncovered fraction of the box.

spec/geom/Lattice.tla: share(b) = cells of b not in any other box / cells of b, by cell counting on the quarter-unit
grid (boxes with quarter-turn angles).
  1. TLC checks on every list of 1..3 boxes of an alphabet (MCO.tla): share in [0,1]; 1 iff the box overlaps nothing;
     0 when covered; independence of the order of the list; agreement with the interval formula; witnesses.
  2. GenL.tla emits every list of 1..3 boxes (Mode "own": axis-aligned, + quarter turn, + minus half turn; shared
     edges, identical and nested boxes included) and random lists of 4..8 axis-aligned boxes (Mode "ownsim",
     TLC -simulate) with the exact own cell counts; `vh replay geom` calls exclusively_owned_areas +
     exclusively_owned_areas_normalized_shares for every order of the list (4 orders for the long lists), angle None /
     Some, and a far exact translation, and compares shares and polygon areas.  A panic is a reported result.
"""
import vlib
from checks import geomcommon as gc
MANIFEST = {
    'level': 'exploration', 'design': '6 (C15)',
    'technique': 'TLA+ spec of own-area by cell counting (Lattice.tla) model-checked with TLC; every TLC-enumerated box '
                 'list replayed into the real exclusively_owned_areas / normalized shares in every input order',
    'text': 'TLC checks the facts the property states (share in [0,1], 1 iff overlapping nothing, 0 when covered, order '
            'independence) on every list of 1..3 lattice boxes, then emits every list of 1..3 boxes (axis-aligned, quarter '
            'turn, half turn; identical, nested, edge-sharing) and random lists of 4..8 axis-aligned boxes with the exact '
            'owned cell counts; the real functions are called for every order of each list and the shares / polygon areas '
            'compared; panics are caught and reported. Every box of every list is also evaluated alone under similarities with non-round '
            'factors and offsets (the f32 area in the denominator is then inexact): the share must be within [0,1] exactly and 1 up to '
            'tolerance. Tracker level: own-area gates of VisualSORT (batches of two scenes; the simple API with detections with and '
            'without a feature sharing a slot) replayed from TLC-simulated histories of Visual.tla.',
    'note': 'Exact lattice sub-domain (half-unit coordinates, right-angle rotations); general rotations are not decided. '
            'Known finding F10: the geo crate panics on some lists mixing an axis-aligned box with boxes rotated by pi/2 and '
            '-pi (angles inexact in f32): those inputs are listed by name in known_findings.json. Share tolerance 1e-4 + '
            '(EPS + area tolerance) / box area.'}
LEVEL = MANIFEST["level"]
RULE = ("cases = every list <<a>>, <<a,b>>, <<a,b,d>> over the own-area alphabet (a without angle, b angle 0 or a quarter "
        "turn, d angle 0 or minus a half turn; multisets of angle-free boxes enumerated once) plus TLC-simulated lists of "
        "4..8 axis-aligned boxes; each evaluated for every input order (4 orders for long lists) x {angle None, Some, far "
        "translation}; non-trivial = the list has at least one partially covered box (0 < own < area); enumerated lists are "
        "distinct by construction, simulated lists that repeat an earlier line are subtracted")
WITNESSES = ["W_NoPartial", "W_NoCoveredByUnion", "W_NoFullyOwned", "W_NoIdenticalPair"]


def duplicates(path):
    seen, dup = set(), 0
    with open(path, errors="replace") as f:
        for line in f:
            if line.startswith("<<\"REPLAY\""):
                if line in seen:
                    dup += 1
                seen.add(line)
    return dup


def run(chk):
    quick = chk.tier == "quick"
    t = "q" if quick else "t"
    gc.model_check(chk, "MCO", "MCO.tla", f"MCO_{t}.cfg", 300 if quick else 1500)
    gc.witnesses(chk, "MCO.tla", WITNESSES, {"Tier": "tiny"})
    gc.generate_and_replay(chk, "own-lists", "GenL.tla", f"GenL_own_{t}.cfg", timeout=300 if quick else 1200)
    r, rep = gc.generate_and_replay(chk, "own-simulated", "GenL.tla", "GenL_ownsim.cfg", timeout=600,
                                    simulate={"num": 250 if quick else 5000, "depth": 12})
    dup = duplicates(r.out)
    chk.cov["distinct_nontrivial"] = max(0, chk.cov["distinct_nontrivial"] - dup)
    gc.box_objects(chk, "c15", 3 if quick else 5)
    # the share a tracker hands to its metric is the share of the box within ITS call (scene): VisualSORT batches with
    # own-area gates, several scenes in one batch (in the slot world a detection owns all of its box or - with a second
    # detection on its slot - nothing); disagreements that one-scene batches show as well are not judged here
    from checks import tracker_common as tc
    vkw = dict(depth=5, Sim=12, OwnUse=50, OwnCollect=50, Kind="batch", Slots={1, 2}, Confs={900, 800}, Feats={1}, Quals={90}, MaxDets=2)
    r1, c1 = tc.generate_visual(chk, "v-own-one-scene", simulate={"num": 8 if quick else 100, "depth": 6}, Scenes={1}, **vkw)
    base = vlib.run_vh(tc.visual_args(c1, "batchvisual", 2, "all"), [r1.out])
    r2_, c2 = tc.generate_visual(chk, "v-own-two-scenes", simulate={"num": 10 if quick else 150, "depth": 6}, Scenes={1, 2}, **vkw)
    args = tc.visual_args(c2, "batchvisual", 2, "all")
    rep = vlib.run_vh(args, [r2_.out])
    rep["nontrivial"] = rep["counters"].get("nt_C06", 0)
    chk.add_report("v-own-two-scenes:batchvisual", rep)
    rep["by_sig"] = {s_: v for s_, v in rep["by_sig"].items() if s_ not in base["by_sig"]}
    chk.classify("tracker", args, rep)
    # the same gates through the simple API, detections with and without a feature mixed: a detection without a feature
    # still covers the box it shares a slot with (both kinds; one scene, so nothing is subtracted)
    r3, c3 = tc.generate_visual(chk, "v-own-simple", depth=7, simulate={"num": 80 if quick else 400, "depth": 8}, Sim=6, OwnUse=50, OwnCollect=50)
    for kind in ("visual", "batchvisual"):
        tc.replay_visual(chk, "v-own-simple", r3, c3, kind, 2, "all", "nt_C12")
    chk.assumptions += [
        "angles k*pi/2 are rounded to f32 by construction of the input (the boxes are then almost, not exactly, "
        "axis-aligned): the area tolerance is widened by the measured rounding x perimeter",
        "simulated lists contain boxes without angle only, so that every input of the known finding F10 is an enumerated one"]
    chk.finish(RULE, extra={"simulated_duplicates": dup}, exhaustive=False)


def replay(payload):
    return gc.replay("C15", payload)
