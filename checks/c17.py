"""C17 - voting engines: vote counting, weights, top-N order, one winner per track.

(a) top-N / best-fit: spec/voting/Voting.tla defines both as functions of the BAG of (query, track, distance)
results (operators quantify over the index set, never over positions: order independence by construction) and
states the declarative facts of the property, which TLC asserts on every generated stream.  spec/voting/GenV.tla
enumerates every weight-tie-free stream over a small alphabet with the single answer the specification gives, for
every N; `vh replay voting` feeds each stream in every permutation (<= 5 entries; otherwise identity, reverse and
seeded shuffles) to the real TopNVoting / BestFitVoting and requires that answer every time.
(b) Hungarian (SortVoting), also the engine half of C02: spec/voting/GenA.tla enumerates every weight matrix over a
grid straddling the threshold with Assignment!Best(W) = the set of ALL optimal gated assignments; the real engine's
outcome must be a member, with exactly one winner per query of the stream and no track twice; 8 x 8 matrices by
simulation against the optimum computed by spec/voting/DP.tla.
"""
import vlib
from vlib import SPEC

MANIFEST = {
    'level': 'model_checking',
    'design': '5 (C17)',
    'technique': 'TLA+ specs (Voting.tla over bags, Assignment.tla, DP.tla) evaluated by TLC over exhaustive small '
                 'alphabets and by simulation; every case replayed into the real TopNVoting / BestFitVoting / SortVoting '
                 'in many stream orders',
    'text': 'TLC enumerates every weight-tie-free result stream over 2 queries x 2 tracks x 0..2 distances per pair and '
            '2 x 3 x 0..1 (with no-distance entries) over a 3-value distance grid (thorough: 2 x 3 x 0..2 up to track '
            'renaming), every max_distance of a 5-value grid around the distances, every min_votes and every N, asserts '
            'the declarative statements of C17 on the specification\'s answer, and draws streams up to 6 x 6 x 5 by '
            'simulation; every stream is fed to the real TopNVoting (each N) and BestFitVoting in all permutations '
            '(<= 5 entries) or 8 orders, and each order must give the specification\'s answer (tracks, order, weights). '
            'For the Hungarian engine TLC enumerates all 2x3 / 3x2 matrices over a 5-value grid containing the threshold '
            'and all 3x3 over a 3-value grid (thorough: all 262,144 3x3 over 4 values) with the complete set of optimal '
            'assignments, plus random 8x8 matrices with the DP optimum; SortVoting\'s outcome must be a member of that '
            'set / reach that value, name one winner per query of the stream and no track twice.',
    'note': 'Trusted: TLC. Streams with equal weights among claims sharing a query or a track are not generated (the '
            'property accepts ties either way). Distances and weights are dyadic rationals, exact in f32. VisualVoting '
            '(the cascade) is decided by C12. min_votes >= 1.',
}
LEVEL = MANIFEST["level"]
S = SPEC / "voting"
RULE = ("vote cases = every weight-tie-free stream of the GenV alphabets x max_distance x min_votes (expected answer for "
        "every N in the case; enumeration runs are made disjoint by the Only constant), plus simulated streams of "
        "8..110 entries over 6 x 6 pairs; non-trivial = some track is claimed by >= 2 queries or some query has more "
        "eligible tracks than N (flags computed by TLC). assignment cases = every weight matrix of the GenA grids "
        "(disjoint shapes per run) plus simulated 8 x 8 matrices; non-trivial = the row-by-row greedy choice is worse "
        "than the optimum (flag computed by TLC). One TLC state per case: distinct by construction. Each case is "
        "replayed in many stream orders (steps).")


def _gen(chk, module, name, consts, simulate=None, timeout=900):
    cfg = vlib.write_cfg(chk.workdir / f"{name}.cfg", consts, spec="Spec", invariants=["Emit"])
    r = vlib.tlc(S / module, cfg, name, chk.workdir, workers=8, timeout=timeout, simulate=simulate,
                 seed=chk.seed if simulate else None)
    vlib.tlc_must_pass(r, name)
    chk.add_tlc(name, r)
    return r


def _replay(chk, name, out):
    args = ["replay", "voting", "--shuffles", "6", "--seed", str(chk.seed)]
    rep = vlib.run_vh(args, [out])
    chk.add_report(name, rep)
    chk.classify("voting", args, rep)
    return rep


def _witness(chk, module, w, consts):
    cfg = vlib.write_cfg(chk.workdir / f"w-{w}.cfg", consts, spec="Spec", invariants=[w])
    rw = vlib.tlc(S / module, cfg, f"w-{w}", chk.workdir, workers=4, timeout=120)
    chk.witness(w, vlib.expect_violation(rw, w))


def _live(chk, name, out):
    """the comparison is live: with the threshold handed to the implementation scaled by 1.5 mismatches must appear"""
    live = vlib.run_vh(["replay", "voting", "--shuffles", "0", "--perturb-thr", "1.5", "--limit", "100000"], [out])
    chk.witness(f"replay_detects_perturbed_threshold_{name}", live["mismatches"] > 0)
    return live["mismatches"]


def vote_consts(nq, nt, per, none, sym=False, only="all", qbase=100):
    return {"Mode": "enum", "NQ": nq, "NT": nt, "PerPair": per, "WithNone": none, "Sym": sym, "Only": only, "QBase": qbase}


def asg_consts(nr, nc, grid, dp):
    return {"Mode": "enum", "NR": nr, "NC": nc, "GridName": grid, "CheckDP": dp}


def voting_engines(chk, quick):
    """top-N and best-fit: generation + replay"""
    if quick:
        runs = [("vote-2x2x2", vote_consts(2, 2, 2, False)),
                ("vote-2x3x1", vote_consts(2, 3, 1, True, only="none_or_last")),
                # query ids and track ids from one id space (query 2 and track 2 are different things)
                ("vote-3x2x1-overlap", vote_consts(3, 2, 1, False, qbase=0))]
    else:
        runs = [("vote-2x3x2", vote_consts(2, 3, 2, False, sym=True)),
                ("vote-2x3x1-none", vote_consts(2, 3, 1, True, only="none")),
                ("vote-3x3x1-overlap", vote_consts(3, 3, 1, False, qbase=0))]
    first = None
    for name, consts in runs:
        r = _gen(chk, "GenV.tla", name, consts, timeout=1500)
        _replay(chk, name, r.out)
        first = first or r.out
    for w in ("W_NeverContested", "W_NeverCut"):
        _witness(chk, "GenV.tla", w, vote_consts(2, 2, 1, False))
    sim = {"Mode": "sim", "NQ": 6, "NT": 6, "PerPair": 5, "WithNone": True, "Sym": False, "Only": "all", "QBase": 100}
    r = _gen(chk, "GenV.tla", "vote-sim-6x6x5", sim, simulate={"num": 10 if quick else 400, "depth": 340}, timeout=900)
    _replay(chk, "vote-sim-6x6x5", r.out)
    return _live(chk, "vote", first)


def assignment_engine(chk, quick):
    """Hungarian engine (SortVoting): generation of weight matrices with every optimal assignment + replay.
    Also the engine half of property C02 (C02a): checks/c02.py calls this with its own Check object."""
    if quick:
        runs = [("asg-2x3-tie", asg_consts(2, 3, "tie", True)), ("asg-3x2-tie", asg_consts(3, 2, "tie", True)),
                ("asg-3x3-coarse", asg_consts(3, 3, "coarse", False)), ("asg-2x3-fine", asg_consts(2, 3, "fine", False))]
    else:
        runs = [("asg-2x3-tie", asg_consts(2, 3, "tie", True)), ("asg-3x2-tie", asg_consts(3, 2, "tie", True)),
                ("asg-1x3-tie", asg_consts(1, 3, "tie", True)), ("asg-3x1-tie", asg_consts(3, 1, "tie", True)),
                ("asg-2x2-tie", asg_consts(2, 2, "tie", True)), ("asg-3x3-full", asg_consts(3, 3, "full", False)),
                ("asg-2x3-fine", asg_consts(2, 3, "fine", False)), ("asg-3x2-fine", asg_consts(3, 2, "fine", False))]
    first = None
    for name, consts in runs:
        r = _gen(chk, "GenA.tla", name, consts, timeout=1500)
        _replay(chk, name, r.out)
        first = first or r.out
    for w in ("W_GreedyAlwaysOptimal", "W_OptimumAlwaysUnique", "W_NeverUnmatchedByGate"):
        _witness(chk, "GenA.tla", w, asg_consts(2, 2, "tie", False))
    sim = {"Mode": "sim", "NR": 8, "NC": 8, "GridName": "full", "CheckDP": False}
    r = _gen(chk, "GenA.tla", "asg-sim-8x8", sim, simulate={"num": 5 if quick else 250, "depth": 70}, timeout=900)
    _replay(chk, "asg-sim-8x8", r.out)
    live = _live(chk, "hungarian", first)
    chk.assumptions += [
        "Hungarian engine: weights w/16 (8x8: w/64) and the threshold are exact in f32 and after the engine's scaling by 1e6; "
        "SortVoting is built with (rows, columns) of the matrix as the tracker does; absent pairs are not in the stream",
        "8 x 8: the outcome's value (sum of the case's integer weights, threshold for an unmatched row) must equal the "
        "DP optimum; DP!BestValue = value of Assignment!Best is asserted by TLC on every 2x3 / 3x2 matrix",
    ]
    return live


def run(chk):
    quick = chk.tier == "quick"
    live_v = voting_engines(chk, quick)
    live_a = assignment_engine(chk, quick)
    if not all(chk.cov["witnesses"].values()):
        vlib.tool_error(f"vacuity guard failed: {chk.cov['witnesses']}")
    chk.assumptions += [
        "distances fd/8 (simulation fd/1024) are exact in f32; weights compared within 1e-6",
        "only weight-tie-free streams are generated; min_votes >= 1; a query without eligible track may be absent "
        "from the result or map to an empty list",
    ]
    chk.finish(RULE, extra={"perturbed_threshold_mismatches": {"vote": live_v, "hungarian": live_a}}, exhaustive=True)


def replay(payload):
    rep = vlib.replay_single(payload["vh"], payload["case"], vlib.WORK / "C17")
    if rep["mismatches"]:
        print(f"VIOLATION property=C17 replay={payload.get('path', '')}  # reproduced: {list(rep['by_sig'])}")
        return 1
    print("replay: no mismatch")
    return 0
