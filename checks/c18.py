"""C18 - the Python bindings are a faithful projection of the Rust API (translation validation).

Scripts = the behaviours / cases TLC generates from the specifications of the other properties (the generation
instances are reused through the helpers of their check modules; the one new instance, spec/py/GenPyOpt.tla,
emits option-builder scripts and carries the documented defaults as constants):

  tracker    spec/tracker/GenTR.tla, GenVis.tla  call sequences over predict / batch / skip / idle / epoch / wasted /
             clear / stats x scenes {0, 1} for Sort, BatchSort, VisualSort, BatchVisualSort, plus instances whose
             constants are the documented defaults (Python constructs without arguments)
  cons       spec/calc/GenC.tla                  constraint tables: add_constraints / validate
  nms        spec/geom/GenN.tla                  nms()
  geom       spec/geom/GenL.tla, GenE.tla        pairs -> sutherland_hodgman_clip / intersection_area / Polygon;
                                                 conversions and polygons -> BoundingBox / Universal2DBox
  kalman     spec/kalman/GenGate, GenKP, GenK    calculate_cost; initiate / predict / update / distance, state getters
  opts       spec/py/GenPyOpt.tla                VisualSortOptions builder sequences, PositionalMetricType,
                                                 VisualSortMetricType, SpatioTemporalConstraints

Every script is executed once by pydrv/run.py through the extension module built from the current tree of the
repository (cargo build --lib, default features, own target directory) and once by `vh dump` through the Rust API;
the two dumps are compared value by value (floats: relative 1e-6 / absolute 1e-9), and the Python dump (and the
Rust dump) against every value the specification mandates.
"""
import hashlib
import json
import math
import os
import re
import shutil
import subprocess
import sys
import threading
import time
from concurrent.futures import ThreadPoolExecutor
from pathlib import Path

import vlib
from vlib import SPEC
from checks import tracker_common as tc

MANIFEST = dict(
    level="translation_validation", design="7 (C18)",
    technique="TLC-generated API scripts (behaviours / cases of the existing TLA+ generation instances + one instance for "
              "option objects and documented defaults) executed through the Python extension module built from the current "
              "tree and through the Rust API; outputs compared getter by getter and against the values the specifications mandate",
    text="The cdylib is rebuilt from the repository's current tree on every run and imported as `similari` by the interpreter "
         "PyO3 was configured with. TLC generates the scripts: tracker call sequences (predict / predict_with_scene, batch "
         "requests and results incl. batch_size / ready / get, skip_epochs(_for_scene), current_epoch(_with_scene), "
         "idle_tracks(_with_scene), wasted, clear_wasted, shard_stats; every script ends with an epilogue that reads the live count and everything wasted() hands out) for Sort, BatchSort, VisualSort and BatchVisualSort, "
         "also for trackers constructed with the documented defaults (Python passes no or only some keyword arguments, the "
         "Rust side passes every documented default explicitly); constraint tables; NMS lists; lattice box pairs (clipping, "
         "intersection area, Polygon), conversions and polygons (BoundingBox / Universal2DBox constructors, getters, setters, "
         "as_xyaah / as_ltwh, area, get_radius, get_vertices, gen_vertices, rotate); Kalman gate grids, operation sequences "
         "and exact runs for the three filters; every sequence of <= 2 (thorough 3) VisualSortOptions builder calls. "
         "Each script runs once through Python and once through `vh dump`; every getter of every returned object is "
         "compared between the two, and ids (modulo renaming for the batch trackers), epochs, lengths, voting types, echoed "
         "boxes, idle / wasted sets, histories, statistics, constraint verdicts, NMS result indexes, intersection areas, "
         "conversions, vertices, gate costs, stationary / exact Kalman states and the option fields (defaults included) "
         "are compared with the specification's value.",
    note="Not exposed to Python and therefore not exercised: set_auto_waste, wasted-store statistics, box equality, "
         "normalize_angle, exclusively owned areas. VisualSortOptions has no getters: its fields are read from repr() "
         "(the Debug text of the wrapped object). PredictionBatchResult.ready() is read only after the result was drained "
         "(before that it is scheduling dependent). Kalman states expose position / box only. Trusted: TLC, the two "
         "drivers' identical case -> call mapping (inputs computed in f64, rounded to f32 at the API).")
LEVEL = MANIFEST["level"]
RULE = ("programs = TLC-generated scripts (one REPLAY line each: tracker call sequences, constraint tables, NMS lists, box pairs, "
        "conversions / polygons, Kalman cases, option-builder sequences), each executed through Python and through Rust; a "
        "script is non-trivial when: tracker - it contains a wasted() or idle call returning tracks, or a batch with >= 2 "
        "scenes; constraints - a gap configured twice or a probe between two gaps; nms - TLC's Interesting flag; pair - "
        "positive intersection; conv / poly - every case (poly: counted when rotated); kalman - gate within 1.0 of a "
        "chi-square gate, proto with predict and update, exact with a moving object; opts - >= 2 calls; distinct by "
        "construction (TLC enumerates each script once; simulated ones are de-duplicated by content)")
PYDRV = vlib.VERIF / "pydrv" / "run.py"
ABS_TOL, REL_TOL = 1e-9, 1e-6


# ------------------------------------------------------------------------------------------------ build of the module
def build_pymodule(chk):
    """cargo build --lib of the repository (default features = python) into its own target directory; returns
    (module dir, interpreter, build seconds)."""
    t0 = time.time()
    repo = vlib.REPO.resolve()
    tdir = vlib.WORK / ("pytarget" if str(repo) == "/repo" else "pytarget-" + hashlib.sha1(str(repo).encode()).hexdigest()[:8])
    env = dict(os.environ, CARGO_TARGET_DIR=str(tdir), CARGO_NET_OFFLINE="true", CARGO_TERM_COLOR="never")
    env.pop("RUSTFLAGS", None)
    # PyO3's build script re-runs when PATH changes: a pyenv shim prepends its version directory when bin/check is started
    # through it; without those entries the build sees the same PATH however the check was started
    env["PATH"] = os.pathsep.join(q for q in env.get("PATH", "").split(os.pathsep) if "/.pyenv/versions/" not in q)
    lock = open(vlib.WORK / ".pybuild.lock", "w")
    import fcntl
    fcntl.flock(lock, fcntl.LOCK_EX)
    try:
        p = subprocess.run(["cargo", "build", "--lib", "--offline", "--manifest-path", str(repo / "Cargo.toml"),
                            "--message-format", "json-render-diagnostics"], cwd=str(vlib.WORK), env=env,
                           stdout=subprocess.PIPE, stderr=subprocess.PIPE, text=True, timeout=3000)
        if p.returncode != 0:
            vlib.tool_error("build of the Python extension module failed:\n" + p.stderr[-4000:])
        lib = None
        for line in p.stdout.splitlines():
            if not line.startswith("{"):
                continue
            m = json.loads(line)
            if m.get("reason") == "compiler-artifact" and "cdylib" in m.get("target", {}).get("kind", []) \
                    and m["target"].get("name") == "similari":
                for f in m.get("filenames", []):
                    if f.endswith(".so"):
                        lib = f
        if not lib or not Path(lib).exists():
            vlib.tool_error("cargo did not report the cdylib of the repository (libsimilari.so)")
        moddir = chk.workdir / "pymod"
        shutil.rmtree(moddir, ignore_errors=True)
        moddir.mkdir(parents=True)
        shutil.copy2(lib, moddir / "similari.so")
    finally:
        fcntl.flock(lock, fcntl.LOCK_UN)
    # the interpreter PyO3 was configured with
    cands = []
    cfgs = sorted(tdir.glob("debug/build/pyo3-build-config-*/out/pyo3-build-config.txt"), key=lambda q: q.stat().st_mtime, reverse=True)
    for c in cfgs:
        for line in c.read_text().splitlines():
            if line.startswith("executable="):
                cands.append(line.split("=", 1)[1])
    cands += [sys.executable, "python3"]
    for exe in cands:
        try:
            q = subprocess.run([exe, str(PYDRV), "--module-dir", str(moddir), "--print-module-file", "1"],
                               stdout=subprocess.PIPE, stderr=subprocess.PIPE, text=True, timeout=120)
        except (OSError, subprocess.TimeoutExpired):
            continue
        if q.returncode == 0 and q.stdout.strip().startswith("{"):
            info = json.loads(q.stdout.strip())
            if Path(info["module"]).resolve() == (moddir / "similari.so").resolve():
                vlib.log(f"python module built in {time.time()-t0:.1f}s, imported by {exe} (similari {info['version']})")
                return moddir, exe, time.time() - t0, info["version"]
    vlib.tool_error(f"no interpreter imports the freshly built module (tried {cands})")


# ------------------------------------------------------------------------------------------------ running the two drivers
def run_sliced(prefix, args, files, out, procs, stride=1, env=None):
    """runs `<prefix> <args> --slice i/(n*stride) <files>` for i < n (stride > 1: every stride-th block of the
    enumeration); returns the n output files (one JSON line per executed case, in case order)"""
    ps = []
    e = dict(os.environ)
    e.update(env or {})
    for i in range(procs):
        f = open(f"{out}.{i}", "w")
        cmd = list(prefix) + list(args) + ["--slice", f"{i}/{procs * stride}"] + [str(x) for x in files]
        ps.append((subprocess.Popen(cmd, stdout=f, stderr=subprocess.PIPE, text=True, env=e), f))
    for i, (p, f) in enumerate(ps):
        try:
            _, err = p.communicate(timeout=6000)
        except subprocess.TimeoutExpired:
            for q, _ in ps:
                q.kill()
            vlib.tool_error(f"{prefix[0]} {' '.join(args)} timed out")
        f.close()
        if p.returncode != 0:
            vlib.tool_error(f"{' '.join(map(str, prefix))} {' '.join(args)} exited {p.returncode}: {err[-2000:]}")
    return [f"{out}.{i}" for i in range(procs)]


def both(ctx, name, area, args, files, py_extra=(), stride=1):
    """executes the scripts of `files` through Python and through Rust; returns the two lists of dump files"""
    procs = ctx["procs"]
    env = {"RAYON_NUM_THREADS": "2"}
    r = {}

    def py():
        r["py"] = run_sliced([ctx["exe"], str(PYDRV), "--module-dir", str(ctx["moddir"]), "--area", area], list(args) + list(py_extra),
                             files, ctx["work"] / f"{name}.py", procs, stride, env)

    def rs():
        r["rs"] = run_sliced([str(vlib.VH), "dump", area], args, files, ctx["work"] / f"{name}.rs", procs, stride, env)
    ts = [threading.Thread(target=py), threading.Thread(target=rs)]
    for t in ts:
        t.start()
    for t in ts:
        t.join()
    if "py" not in r or "rs" not in r:
        vlib.tool_error(f"driver run '{name}' failed")
    return r["py"], r["rs"]


def read_dump(paths):
    out = {}
    for p in paths:
        with open(p) as fh:
            for line in fh:
                d = json.loads(line)
                out[d["i"]] = d["o"]
    return out


def iter_cases(files, part=None):
    """(index, case) over the case files; part = (s, m): only indexes with index % m == s are parsed"""
    k = 0
    for f in files:
        with open(f, errors="replace") as fh:
            for line in fh:
                if line.startswith('<<"REPLAY"'):
                    tlc = True
                elif line.startswith("{") or line.startswith("["):
                    tlc = False
                else:
                    continue
                idx = k
                k += 1
                if part and idx % part[1] != part[0]:
                    continue
                yield idx, (vlib.parse_replay_line(line) if tlc else json.loads(line))


def load_cases(files):
    return [c for _, c in iter_cases(files)]


# ------------------------------------------------------------------------------------------------ comparison
def close(a, b, rel=REL_TOL, ab=ABS_TOL):
    return abs(a - b) <= ab + rel * max(abs(a), abs(b))


class Cnt:
    fields = 0


def diff(a, b, path=""):
    """value-by-value comparison of two dumps; keys starting with py_ are diagnostics of the Python driver"""
    if isinstance(a, bool) or isinstance(b, bool) or a is None or b is None or isinstance(a, str) or isinstance(b, str):
        Cnt.fields += 1
        return [] if (a == b and type(a) == type(b)) else [(path, a, b)]
    if isinstance(a, (int, float)) and isinstance(b, (int, float)):
        Cnt.fields += 1
        return [] if close(a, b) else [(path, a, b)]
    if isinstance(a, list) and isinstance(b, list):
        if len(a) != len(b):
            return [(path + ".length", len(a), len(b))]
        out = []
        for i, (x, y) in enumerate(zip(a, b)):
            out += diff(x, y, f"{path}[{i}]")
        return out
    if isinstance(a, dict) and isinstance(b, dict):
        out = []
        for k in sorted(set(a) | set(b)):
            if k.startswith("py_"):
                continue
            if k not in a or k not in b:
                out.append((f"{path}.{k}", a.get(k, "<absent>"), b.get(k, "<absent>")))
            else:
                out += diff(a[k], b[k], f"{path}.{k}")
        return out
    return [(path, a, b)]


def sig_of(path):
    return re.sub(r"\[\d+\]", "[]", path)


# ---- what the specifications mandate ---------------------------------------------------------------------------
SLOTS = {1: (100.0, 100.0, None, 0.5, 80.0), 2: (600.0, 400.0, 0.7, 1.5, 40.0),
         3: (1200.0, 900.0, None, 1.0, 50.0), 4: (300.0, 1500.0, 2.0, 0.8, 60.0)}
FEATS = {1: [0.0, 0.0], 2: [3.0, 0.0], 3: [0.0, 4.0]}


def f32(x):
    import struct
    return struct.unpack("f", struct.pack("f", x))[0]


def slot_of(b):
    for s, v in SLOTS.items():
        if abs(b[0] - v[0]) < 5 and abs(b[1] - v[1]) < 5:
            return s
    return 0


def symbol_of(f):
    if f is None:
        return 0
    for s, v in FEATS.items():
        if abs(f[0] - v[0]) < 1e-3 and abs(f[1] - v[1]) < 1e-3:
            return s
    return -1


def same_num(got, exp, rel=1e-6, ab=1e-9):
    if exp is None or got is None or isinstance(got, str):
        return got == exp
    return close(got, exp, rel, ab)


def want(out, what, got, exp):
    """records a disagreement with the specification"""
    Cnt.fields += 1
    if got != exp:
        out.append((what, got, exp))


def want_num(out, what, got, exp, rel=1e-6, ab=1e-9):
    Cnt.fields += 1
    if not same_num(got, exp, rel, ab):
        out.append((what, got, exp))


def expect_recs(out, where, recs, spec, dets, cfg):
    spec = spec if isinstance(spec, list) else []
    want(out, f"{where}.count", len(recs), len(spec))
    if len(recs) != len(spec):
        return
    for i, (r, s) in enumerate(zip(recs, spec)):
        w = f"{where}[{i}]"
        want(out, w + ".id", r["id"], s["id"])
        if cfg["literal"]:
            want(out, w + ".rid", r.get("rid"), s["id"])
        want(out, w + ".scene_id", r["scene"], s["scene"])
        want(out, w + ".epoch", r["ep"], s["ep"])
        want(out, w + ".length", r["len"], s["len"])
        want(out, w + ".voting_type", r["vt"], "vis" if s.get("vt") == "vis" else "pos")
        d = dets[i]
        want(out, w + ".custom_object_id", r["cid"], None if d["cid"] == 0 else d["cid"])
        sb = SLOTS[d["slot"]]
        exp = [sb[0], sb[1], None if sb[2] is None else f32(sb[2]), sb[3], sb[4], f32(d["conf"] / 1000.0)]
        for j, nm in enumerate(("xc", "yc", "angle", "aspect", "height", "confidence")):
            want_num(out, f"{w}.observed_bbox.{nm}", r["obs"][j], exp[j])
        # the predicted box of a stationary object stays on its slot (C07 decides the numbers)
        Cnt.fields += 1
        if not (abs(r["pred"][0] - sb[0]) <= 0.05 and abs(r["pred"][1] - sb[1]) <= 0.05 and abs(r["pred"][4] - sb[4]) <= 0.05):
            out.append((w + ".predicted_bbox", r["pred"], list(sb)))


def expect_tracker(case, o, cfg):
    out = []
    if "skip" in o:
        return out
    if "panic" in o:
        return [("panic", o.get("py_message", True), None)]
    steps = o["steps"]
    want(out, "steps", len(steps), len(case))
    for k, (s, r) in enumerate(zip(case, steps)):
        op, ret = s["o"], s.get("ret")
        name = op["op"]
        w = f"step[{k}]:{name}"
        if name == "predict" and not cfg["batch"]:
            expect_recs(out, w, r["recs"], ret, op["dets"], cfg)
        elif name in ("predict", "batch"):
            b = [{"scene": op["scene"], "dets": op["dets"]}] if name == "predict" else op["b"]
            sret = {op["scene"]: ret} if name == "predict" else {e["scene"]: e["recs"] for e in (ret or [])}
            want(out, w + ".batch_size", r["bs"], len(b))
            want(out, w + ".ready_after_drain", r["ready_after"], False)
            if cfg["visual"]:
                want(out, w + ".request.prediction().batch_size", r.get("req_prediction_bs"), len(b))
                want(out, w + ".request.prediction() twice", r.get("req_prediction_twice_none"), True)
            want(out, w + ".scenes", [x["scene"] for x in r["scenes"]], sorted(e["scene"] for e in b))
            for x in r["scenes"]:
                e = [y for y in b if y["scene"] == x["scene"]]
                if e:
                    expect_recs(out, f"{w}.scene{x['scene']}", x["recs"], sret.get(x["scene"]), e[0]["dets"], cfg)
        elif name == "idle":
            want(out, w + ".ids", sorted(x["id"] for x in r["idle"]), sorted(ret))
            for x in r["idle"]:
                want(out, w + ".scene_id", x["scene"], op["scene"])
        elif name == "epoch":
            want(out, w, r["epoch"], ret)
        elif name == "stats":
            want(out, w + ".sum", r["active"], ret["active"])
            want(out, w + ".shards", r["nshards"], cfg["shards"])
            if cfg["literal"] and len(ret["active_shards"]) == cfg["shards"]:
                want(out, w + ".per_shard", r["shards"], [ret["active_shards"][str(i)] for i in range(cfg["shards"])])
        elif name == "wasted":
            sw = sorted(ret, key=lambda x: x["id"])
            want(out, w + ".ids", [x["id"] for x in r["wasted"]], [x["id"] for x in sw])
            if [x["id"] for x in r["wasted"]] == [x["id"] for x in sw]:
                for x, e in zip(r["wasted"], sw):
                    ww = f"{w}.track"
                    if cfg["literal"]:
                        want(out, ww + ".rid", x.get("rid"), e["id"])
                    want(out, ww + ".scene_id", x["scene"], e["scene"])
                    want(out, ww + ".epoch", x["ep"], e["ep"])
                    want(out, ww + ".length", x["len"], e["len"])
                    want(out, ww + ".observed_boxes", [[slot_of(b), int(round(b[5] * 1000))] for b in x["obs_boxes"]], e["ring"])
                    want(out, ww + ".predicted_boxes.length", len(x["pred_boxes"]), len(e["ring"]))
                    if x["obs_boxes"]:
                        want(out, ww + ".observed_bbox = newest of the history", x["obs"], x["obs_boxes"][-1])
                    if "fh" in e:
                        want(out, ww + ".observed_features", [symbol_of(f) for f in x.get("feats", [])], e["fh"])
        want(out, w + ".epochs", r["epochs"], s["proj"]["epochs"])
    return out


def expect_cons(case, o, cfg):
    out = []
    want(out, "validate", o.get("adm"), case["adm"])
    return out


def expect_nms(case, o, cfg):
    out = []
    Cnt.fields += 1
    if o.get("idx") not in case["outs"]:
        out.append(("result indexes", o.get("idx"), case["outs"]))
    return out


def rat(v):
    return v[0] / v[1]


def same_ring(got, exp, tol):
    """closed ring `got` has exactly the vertices `exp` (as a set)"""
    if len(got) != len(exp) + 1 or got[0] != got[-1]:
        return False
    used = [False] * len(exp)
    for p in got[:-1]:
        hit = [j for j, e in enumerate(exp) if not used[j] and math.hypot(p[0] - e[0], p[1] - e[1]) <= tol]
        if not hit:
            return False
        used[hit[0]] = True
    return True


def expect_geom(case, o, cfg):
    out = []
    kind = case["kind"]
    if "skip" in o:
        return out
    if "panic" in o:
        return [("panic", o.get("py_message", True), None)]
    if kind == "pair":
        exp = case["inter16"] / 16.0
        for k in ("area_ab", "area_ba"):
            want_num(out, "intersection_area", o[k], exp, rel=1e-5, ab=2e-3)
    elif kind == "conv":
        r, lb, bk = case["ltwh"], case["box"], case["back"]
        l, t, w, h = r["l"] / 4.0, r["t"] / 4.0, r["w"] / 4.0, r["h"] / 4.0
        asp = rat(case["aspect"])
        for nm, conf in (("bbox", 1.0), ("bbox_conf", 0.75), ("bbox_set", 0.75)):
            for j, (g, e) in enumerate(zip(o[nm], [l, t, w, h, conf])):
                want_num(out, f"BoundingBox.{nm}.{('left', 'top', 'width', 'height', 'confidence')[j]}", g, e, rel=1e-5)
        for nm, conf in (("as_xyaah", 0.75), ("ltwh", 1.0), ("ltwh_conf", 0.75), ("set", 0.75)):
            exp = [lb["x"] / 2.0, lb["y"] / 2.0, None, asp, lb["h"] / 2.0, conf]
            for j, (g, e) in enumerate(zip(o[nm], exp)):
                want_num(out, f"{nm}.{('xc', 'yc', 'angle', 'aspect', 'height', 'confidence')[j]}", g, e, rel=1e-5)
            expb = [(2 * bk["x"] - bk["w"]) / 4.0, (2 * bk["y"] - bk["h"]) / 4.0, bk["w"] / 2.0, bk["h"] / 2.0, conf]
            if isinstance(o[nm + ".back"], list):
                for j, (g, e) in enumerate(zip(o[nm + ".back"], expb)):
                    want_num(out, f"{nm}.as_ltwh.{('left', 'top', 'width', 'height', 'confidence')[j]}", g, e, rel=1e-5, ab=1e-6)
            else:
                out.append((nm + ".as_ltwh", o[nm + ".back"], expb))
    elif kind == "poly":
        want_num(out, "area", o["area"], case["area16"] / 16.0, rel=1e-5)
        want_num(out, "get_radius", o["radius"], math.sqrt(case["r16"]) / 4.0, rel=1e-5)
        ev = [(v[0] / 4.0, v[1] / 4.0) for v in case["vertices"]]
        for k in ("vertices", "vertices_cached", "rotated_vertices"):
            Cnt.fields += 1
            if not same_ring(o[k], ev, 1e-4):
                out.append((k, o[k], ev))
        want_num(out, "confidence setter", o["conf_box"][5], 0.5)
    elif kind == "boxobj":
        want(out, "steps", len(o["steps"]), len(case["ops"]))
        if o["steps"]:
            last = o["steps"][-1]
            ev = [(v[0] / 4.0, v[1] / 4.0) for v in case["verts"]]
            Cnt.fields += 1
            got = [tuple(p) for p in last["vertices"]]
            if not (all(any(abs(g[0] - e[0]) < 1e-3 and abs(g[1] - e[1]) < 1e-3 for g in got) for e in ev)
                    and all(any(abs(g[0] - e[0]) < 1e-3 and abs(g[1] - e[1]) < 1e-3 for e in ev) for g in got)):
                out.append(("boxobj.vertices", last["vertices"], ev))
            want_num(out, "boxobj.area", last["area"], case["area16"] / 16.0, rel=1e-5)
        for k in ("area_up", "area_pu"):
            want_num(out, "boxobj.intersection_area", o[k], case["inter16"] / 16.0, rel=1e-5, ab=2e-3)
    return out


def near(got, exp, ab):
    return isinstance(got, (int, float)) and abs(got - exp) <= 1e-3 * abs(exp) + ab


def expect_kalman(case, o, cfg):
    out = []
    kind = case["kind"]
    if "panic" in o:
        return [("panic", o.get("py_message", True), None)]
    if kind == "gate":
        for key in ("direct", "inverted"):
            want(out, key + ".length", len(o[key]), len(case[key]))
            for g, e in zip(o[key], case[key]):
                want_num(out, f"calculate_cost({key})", g, e / 1e4, rel=0, ab=1e-4)
    elif kind == "proto":
        i0 = case["i0"] - 1
        steps = o["steps"]
        want(out, "steps", len(steps), len(case["ops"]) + 1)
        if len(steps) != len(case["ops"]) + 1:
            return out
        for k, st in enumerate(steps):
            stat = True if k == 0 else case["stat"][k - 1] == 1
            dz = False if k == 0 else case["dzero"][k - 1] == 1
            if case["filter"] == "box":
                m = [x / 1000.0 for x in case["meas"][i0]]
                if stat:
                    Cnt.fields += 1
                    u = st["u"]
                    if not (near(u[0], m[0], 1e-6) and near(u[1], m[1], 1e-6) and near(u[3], m[3], 1e-6) and near(u[4], m[4], 1e-6)):
                        out.append((f"step[{k}].universal_bbox (stationary)", u, m))
                if dz:
                    want_num(out, f"step[{k}].distance (stationary)", st.get("d"), 0.0, rel=0, ab=1e-4)
            else:
                pts = [[p[0] / 1000.0, p[1] / 1000.0] for p in case["meas"][i0]]
                want(out, f"step[{k}].states", len(st["vec"]), len(pts))
                if stat and len(st["vec"]) == len(pts):
                    for g, e in zip(st["vec"] + [st["point"]], pts + [pts[0]]):
                        Cnt.fields += 1
                        if not (near(g[0], e[0], 1e-6) and near(g[1], e[1], 1e-6)):
                            out.append((f"step[{k}].state (stationary)", g, e))
                if dz:
                    for g in st.get("d", []) + [st.get("dp")]:
                        want_num(out, f"step[{k}].distance (stationary)", g, 0.0, rel=0, ab=1e-4)
    elif kind == "exact":
        dexp = rat(case["d"])
        for axis, ax in enumerate("xy"):
            for flt in ("box", "point"):
                r = o[f"{flt}-{ax}"]
                for k, st in enumerate(case["st"]):
                    Cnt.fields += 1
                    if not near(r["steps"][k][axis], rat(st[0]), 1e-4):
                        out.append((f"{flt}-{ax}.step[{k}].position", r["steps"][k][axis], rat(st[0])))
                Cnt.fields += 1
                if not near(r["d"], dexp, 1e-4):
                    out.append((f"{flt}-{ax}.distance", r["d"], dexp))
    return out


OPT_INT = ("max_idle_epochs", "kept_history_length", "visual_min_votes", "visual_max_observations", "visual_minimal_track_length")
OPT_PCT = ("visual_minimal_area", "visual_minimal_quality_use", "visual_minimal_quality_collect",
           "visual_minimal_own_area_percentage_use", "visual_minimal_own_area_percentage_collect", "positional_min_confidence")
OPT_W = ("kalman_position_weight", "kalman_velocity_weight")
NUM = r"([-+0-9.eE]+|inf|NaN)"


def parse_opts(text):
    """fields of the Debug text of VisualSortOptions (what repr() shows in Python)"""
    d = {}
    for k in OPT_INT:
        m = re.search(rf"\b{k}: (\d+)", text)
        d[k] = int(m.group(1)) if m else None
    for k in OPT_PCT + OPT_W:
        m = re.search(rf"\b{k}: {NUM}", text)
        d[k] = float(m.group(1)) if m else None
    m = re.search(rf"visual_kind: (Euclidean|Cosine)\({NUM}\)", text)
    d["visual_metric"] = (m.group(1), float(m.group(2))) if m else None
    m = re.search(rf"positional_kind: (Mahalanobis|IoU\({NUM}\))", text)
    d["positional_metric"] = None if not m else ("Mahalanobis",) if m.group(1) == "Mahalanobis" else ("IoU", float(m.group(2)))
    m = re.search(r"constraints: \[(.*?)\] \}", text)
    d["spatio_temporal_constraints"] = None if not m else [(int(a), float(b)) for a, b in re.findall(rf"\((\d+), {NUM}\)", m.group(1))]
    return d


def expect_opts(case, o, cfg):
    out = []
    if case["kind"] != "opts":
        return out
    if "panic" in o:
        return [("panic", o.get("py_message", True), None)]
    got, exp = parse_opts(o["repr"]), case["exp"]
    for k in OPT_INT:
        want(out, k, got[k], exp[k][0])
    for k in OPT_PCT:
        want_num(out, k, got[k], f32(exp[k][0] / 100.0))
    for k in OPT_W:
        want_num(out, k, got[k], f32(1.0 / exp[k][0]))
    v = exp["visual_metric"]
    g = got["visual_metric"]
    Cnt.fields += 1
    ok = g is not None and g[0] == ("Euclidean" if v[0] == 0 else "Cosine") and \
        ((v[1] == -1 and g[1] >= 3.4e38) or (v[1] != -1 and same_num(g[1], f32(v[1] / 100.0))))
    if not ok:
        out.append(("visual_metric", g, v))
    v = exp["positional_metric"]
    g = got["positional_metric"]
    Cnt.fields += 1
    ok = g is not None and ((v[0] == 0 and g == ("Mahalanobis",)) or (v[0] == 1 and g[0] == "IoU" and same_num(g[1], f32(v[1] / 100.0))))
    if not ok:
        out.append(("positional_metric", g, v))
    v = exp["spatio_temporal_constraints"]
    want(out, "spatio_temporal_constraints", got["spatio_temporal_constraints"], [(v[i], v[i + 1] / 2.0) for i in range(0, len(v), 2)])
    return out


EXPECT = {"tracker": expect_tracker, "cons": expect_cons, "nms": expect_nms, "geom": expect_geom, "kalman": expect_kalman,
          "opts": expect_opts}


# ---- non-triviality ---------------------------------------------------------------------------------------------
def nontrivial(area, case):
    if area == "tracker":
        for s in case:
            op = s["o"]["op"]
            if op in ("wasted", "idle") and s.get("ret"):
                return True
            if op == "batch" and len(s["o"]["b"]) >= 2:
                return True
        return False
    if area == "cons":
        gaps = [p[0] for c in case["calls"] for p in c]
        return len(set(gaps)) < len(gaps) or any(any(a < g for a in gaps) and any(b > g for b in gaps) for g in range(len(case["adm"])))
    if area == "nms":
        return case.get("nt") == 1
    if area == "geom":
        if case["kind"] == "boxobj":
            ops = case["ops"]
            return "gen" in ops and any(o in ("turn", "move", "resize") for o in ops[ops.index("gen") + 1:])
        return {"pair": case.get("inter16", 0) > 0, "conv": True, "poly": case.get("box", {}).get("k", 0) != 0}.get(case["kind"], False)
    if area == "kalman":
        if case["kind"] == "gate":
            return any(abs(d - g) <= 10000 for d in case["d"] for g in (59915, 110700))
        if case["kind"] == "proto":
            names = {o[0] for o in case["ops"]}
            return "p" in names and "u" in names
        return any(z != case["z"][0] for z in case["z"])
    if area == "opts":
        return case["kind"] == "opts" and len(case["calls"]) >= 2
    return False


# ------------------------------------------------------------------------------------------------ one batch of scripts
def compare_slice(job):
    """worker: the cases of one slice against the two dump files of that slice (same order: the drivers slice alike)"""
    area, cfg, files, pyf, rsf, s, m = job
    Cnt.fields = 0
    expect = EXPECT[area]
    st = {"executed": 0, "skipped": 0, "keys": [], "problems": {}, "sample": None, "error": None}
    with open(pyf) as fp, open(rsf) as fr:
        for idx, case in iter_cases(files, (s, m)):
            lp, lr = fp.readline(), fr.readline()
            if not lp or not lr:
                st["error"] = f"dump of slice {s} ends before case {idx}"
                return st
            dp, dr = json.loads(lp), json.loads(lr)
            if dp["i"] != idx or dr["i"] != idx:
                st["error"] = f"slice {s}: case {idx} but dumps carry {dp['i']} / {dr['i']}"
                return st
            p, r = dp["o"], dr["o"]
            if isinstance(p, dict) and "skip" in p and isinstance(r, dict) and "skip" in r:
                st["skipped"] += 1
                continue
            st["executed"] += 1
            nt = nontrivial(area, case)
            st["keys"].append((hashlib.sha1(json.dumps(case, sort_keys=True).encode()).digest()[:10], nt))
            if st["sample"] is None and (nt or area == "cons"):
                st["sample"] = {"area": area, "script": case, "python": p}
            problems = []
            for path, a, b in diff(p, r):
                problems.append((f"python-vs-rust:{sig_of(path)}", {"path": path, "python": a, "rust": b}))
            for side, obs in (("python", p), ("rust", r)):
                try:
                    ex = expect(case, obs, cfg)
                except (KeyError, IndexError, TypeError, AttributeError) as e:   # a dump of unexpected shape is a disagreement
                    ex = [("shape", f"{type(e).__name__}: {e}", None)]
                for what, got, exp in ex:
                    problems.append((f"{side}-vs-spec:{sig_of(what)}", {"what": what, side: got, "spec": exp}))
            if problems:
                st["disagreeing"] = st.get("disagreeing", 0) + 1
                for sig, detail in problems:
                    e = st["problems"].setdefault(sig, {"count": 0})
                    e["count"] += 1
                    if e["count"] == 1:
                        e["first"] = {"index": idx, "case": case, "detail": detail, "python": p, "rust": r}
        if fp.readline() or fr.readline():
            st["error"] = f"dump of slice {s} has more lines than cases"
    st["fields"] = Cnt.fields
    return st


def compare(ctx, chk, name, area, args, files, cfg=None, py_extra=(), stride=1):
    """runs the scripts of `files` through both front ends and compares slice by slice (in parallel)"""
    cfg = cfg or {}
    t0 = time.time()
    pyf, rsf = both(ctx, name, area, args, files, py_extra, stride)
    n = ctx["procs"]
    jobs = [(area, cfg, [str(f) for f in files], pyf[s], rsf[s], s, n * stride) for s in range(n)]
    res = list(ctx["pool"].map(compare_slice, jobs))
    for p in pyf + rsf:
        os.unlink(p)
    st = {"name": name, "area": area, "executed": 0, "scripts": 0, "skipped": 0, "nontrivial": 0, "disagreements": 0}
    seen = ctx["seen"].setdefault(area + json.dumps(cfg, sort_keys=True), set())
    kindname = cfg.get("kind", "")
    for r in res:
        if r["error"]:
            vlib.tool_error(f"{name}: {r['error']}")
        st["executed"] += r["executed"]
        st["skipped"] += r["skipped"]
        st["disagreements"] += r.get("disagreeing", 0)
        Cnt.fields += r["fields"]
        for key, nt in r["keys"]:
            if key not in seen:
                seen.add(key)
                st["scripts"] += 1
                st["nontrivial"] += 1 if nt else 0
        if r["sample"] and not ctx["samples"].get(area):
            ctx["samples"][area] = [dict(r["sample"], run=name)]
    ctx["disagreements"] += st["disagreements"]
    merged = {}
    for r in res:
        for sig, e in r["problems"].items():
            m = merged.setdefault(sig, {"count": 0, "first": e["first"]})
            m["count"] += e["count"]
            if e["first"]["index"] < m["first"]["index"]:
                m["first"] = e["first"]
    for sig, e in sorted(merged.items()):
        k = kindname or (e["first"]["case"].get("kind", "") if isinstance(e["first"]["case"], dict) else "")
        full = f"{area}:{k}:{sig}"
        g = ctx["by_sig"].setdefault(full, {"count": 0})
        if g["count"] == 0:
            chk.violation(full, dict(e["first"], engine="c18", area=area, args=list(args), py_extra=list(py_extra), cfg=cfg, count=e["count"]))
        g["count"] += e["count"]
    st["wall_s"] = round(time.time() - t0, 1)
    ctx["runs"].append(st)
    a = ctx["areas"].setdefault(area, {"scripts": 0, "nontrivial": 0, "executions": 0})
    a["scripts"] += st["scripts"]
    a["nontrivial"] += st["nontrivial"]
    a["executions"] += st["executed"]
    vlib.log(f"{name}: {st['executed']} executed, {st['scripts']} distinct new scripts ({st['nontrivial']} non-trivial, {st['skipped']} "
             f"inexpressible), {st['disagreements']} disagreements, {st['wall_s']}s")
    return st


# ------------------------------------------------------------------------------------------------ generation
def tracker_args(c, kind, shards, voters=2):
    a = ["--kind", kind, "--shards", str(shards), "--voters", str(voters), "--history", str(c["H"]), "--max-idle", str(c["MaxIdle"]),
         "--metric", c["Metric"], "--thr", repr(c["Thr"] / 1000.0 if c["Metric"] == "iou" else 1.0),
         "--min-conf", repr(c["MinConf"] / 1000.0)]
    if kind in ("visual", "batchvisual"):
        a += ["--max-obs", str(c["MaxObs"]), "--min-track-len", str(c["MinTrackLen"]), "--min-votes", str(c["MinVotes"]),
              "--q-use", repr(c["QUse"] / 100.0), "--q-collect", repr(c["QCollect"] / 100.0),
              "--vis-thr", repr(c["VisThr"] / 10.0) if c["VisThr"] < 10 ** 6 else repr(3.4028234663852886e38)]
    return a


class Quiet:
    """collects TLC results of concurrent generation runs (Check.add_tlc is not thread safe)"""
    def __init__(self, chk):
        self.workdir, self.seed, self.tier = chk.workdir, chk.seed, chk.tier
        self.tlc = []

    def add_tlc(self, name, r):
        self.tlc.append((name, r))


def gen_plain(q, name, module, consts=None, cfgfile=None, simulate=None, invariants=("Emit",), spec="Spec", timeout=900, workers=4):
    cfg = cfgfile or vlib.write_cfg(q.workdir / f"{name}.cfg", consts, spec=spec, invariants=list(invariants))
    r = vlib.tlc(module, cfg, name, q.workdir, workers=workers, timeout=timeout, simulate=simulate, seed=q.seed if simulate else None)
    vlib.tlc_must_pass(r, name)
    q.add_tlc(name, r)
    return r


def select(chk, name, src, stride):
    """keeps the non-trivial scripts of a large enumeration plus every stride-th of the others (ndjson file)"""
    dst = chk.workdir / f"{name}.selected.ndjson"
    n = kept = 0
    with open(src, errors="replace") as fh, open(dst, "w") as out:
        for line in fh:
            if not line.startswith('<<"REPLAY"'):
                continue
            case = vlib.parse_replay_line(line)
            if nontrivial("tracker", case) or n % stride == 0:
                out.write(json.dumps(case, separators=(",", ":")) + "\n")
                kept += 1
            n += 1
    return dst, n, kept


def sort_consts(o, shards_key, **kw):
    """GenTR constants = the documented constructor defaults"""
    maha = o["method"] == [0]
    c = dict(Scenes={0, 1}, Slots={1, 2}, Confs={900, 500}, Cids={0, 7}, MaxDets=2, Periods=set(), NShards=o[shards_key],
             H=o["bbox_history"], MaxIdle=o["max_idle_epochs"], Metric="maha" if maha else "iou",
             Thr=1000 if maha else o["method"][1] * 10, MinConf=o["min_confidence"] * 10)
    c.update(kw)
    return c


def plan(quick, dflt):
    """tracker runs: dicts {name, kind, gen (Quiet -> (TlcResult, constants)), shards, voters, defaults, stride};
    other areas: (name, gen)"""
    so, bo, vo = dflt["ctor"]["Sort"], dflt["ctor"]["BatchSort"], dflt["opts"]
    if so["kalman_position_weight"] != 20 or so["kalman_velocity_weight"] != 160 or bo["kalman_position_weight"] != 20 \
            or bo["kalman_velocity_weight"] != 160 or vo["kalman_position_weight"] != [20] or vo["kalman_velocity_weight"] != [160] \
            or so["spatio_temporal_constraints"] or bo["spatio_temporal_constraints"] or vo["spatio_temporal_constraints"]:
        vlib.tool_error("the drivers construct with Kalman weights 1/20, 1/160 and no constraints; GenPyOpt.tla documents other defaults")
    if vo["visual_metric"] != [0, -1] or vo["positional_metric"][0] != 1:
        vlib.tool_error("GenVis cannot express the documented default metrics of VisualSortOptions any more: extend plan()")
    n = 1 if quick else 6
    tiny = dict(Scenes={0, 1}, Slots={1}, Confs={900}, Cids={7}, MaxDets=1, Periods=set(), MaxIdle=0, NShards=2)
    rich = dict(Scenes={0, 1}, Slots={1, 2}, Confs={900, 500}, Cids={0, 7}, MaxDets=2, Periods=set(), MaxIdle=1, H=2, NShards=2)
    vis = dict(Scenes={0, 1}, LifecycleOps=True, NShards=2, Feats={1, 2}, Quals={30, 90}, Confs={900}, MaxDets=1)
    one = dict(Scenes={0}, Slots={1}, Confs={900}, Cids={7}, MaxDets=1)     # single object: expiry after exactly max_idle_epochs
    vdf = dict(vis, MaxIdle=vo["max_idle_epochs"][0], H=vo["kept_history_length"][0], MaxObs=vo["visual_max_observations"][0],
               MinTrackLen=vo["visual_minimal_track_length"][0], MinVotes=vo["visual_min_votes"][0],
               QUse=vo["visual_minimal_quality_use"][0], QCollect=vo["visual_minimal_quality_collect"][0], VisThr=10 ** 6,
               Metric="iou", Thr=vo["positional_metric"][1] * 10, MinConf=vo["positional_min_confidence"][0] * 10)
    T = []

    def tr(name, kind, gen, shards=(2,), voters=2, defaults=False, stride=1):
        T.append(dict(name=name, kind=kind, gen=gen, shards=shards, voters=voters, defaults=defaults, stride=stride))

    def sim(num, depth):
        return {"num": num * n, "depth": depth + 1}
    d = 3 if quick else 4
    sh = (2,) if quick else (1, 2, 3)
    # ---- explicit constructor arguments / explicit builder calls
    tr("tr-simple", "sort", lambda q: tc.generate(q, "tr-simple", d, kind="simple", **tiny), sh)
    tr("tr-batch", "batchsort", lambda q: tc.generate(q, "tr-batch", d, kind="batch", **tiny), sh)
    tr("tr-simple-sim", "sort", lambda q: tc.generate(q, "tr-simple-sim", 10, kind="simple", sim=6, simulate=sim(10, 10), **rich), sh)
    tr("tr-batch-sim", "batchsort", lambda q: tc.generate(q, "tr-batch-sim", 8, kind="batch", sim=6, simulate=sim(10, 8), **dict(rich, MaxDets=1)), sh)
    tr("vis-simple", "visual", lambda q: tc.generate_visual(q, "vis-simple", 2 if quick else 3, Kind="simple", **vis))
    tr("vis-simple-sim", "visual", lambda q: tc.generate_visual(q, "vis-simple-sim", 8, Kind="simple", Sim=5, simulate=sim(6, 8), **vis))
    tr("vis-batch-sim", "batchvisual", lambda q: tc.generate_visual(q, "vis-batch-sim", 6, Kind="batch", Sim=5, simulate=sim(6, 6), **vis))
    if not quick:
        tr("vis-batch", "batchvisual", lambda q: tc.generate_visual(q, "vis-batch", 2, Kind="batch", **vis))
    # ---- documented defaults: Python constructs without / with some keyword arguments, untouched VisualSortOptions
    dd = 5 if quick else 6
    tr("dflt-sort", "sort", lambda q: tc.generate(q, "dflt-sort", dd, kind="simple", **sort_consts(so, "shards", **one)),
       (so["shards"],), defaults=True, stride=16 if quick else 64)
    tr("dflt-batchsort", "batchsort", lambda q: tc.generate(q, "dflt-batchsort", dd, kind="batch", **sort_consts(bo, "distance_shards", **one)),
       (bo["distance_shards"],), bo["voting_shards"], defaults=True, stride=16 if quick else 64)
    tr("dflt-sort-sim", "sort", lambda q: tc.generate(q, "dflt-sort-sim", 12, kind="simple", sim=6, simulate=sim(15, 12),
                                                   **sort_consts(so, "shards")), (so["shards"],), defaults=True)
    tr("dflt-batchsort-sim", "batchsort", lambda q: tc.generate(q, "dflt-batchsort-sim", 10, kind="batch", sim=6, simulate=sim(15, 10),
                                                             **sort_consts(bo, "distance_shards", MaxDets=1)),
       (bo["distance_shards"],), bo["voting_shards"], defaults=True)
    tr("dflt-visual-sim", "visual", lambda q: tc.generate_visual(q, "dflt-visual-sim", 8, Kind="simple", Sim=5, simulate=sim(6, 8), **vdf), defaults=True)
    tr("dflt-batchvisual-sim", "batchvisual", lambda q: tc.generate_visual(q, "dflt-batchvisual-sim", 6, Kind="batch", Sim=5, simulate=sim(6, 6), **vdf),
       defaults=True)
    # ---- the other areas
    S = SPEC
    t = "q" if quick else "t"
    P = [("cons", lambda q: gen_plain(q, "cons", S / "calc" / "GenC.tla", {"MaxGap": 4, "Limits": {2, 4}, "MaxEntries": 2} if quick else
                                      {"MaxGap": 8, "Limits": {2, 4, 8}, "MaxEntries": 3})),
         ("nms", lambda q: gen_plain(q, "nms", S / "geom" / "GenN.tla", {"Mode": "enum", "Alpha": "tiny" if quick else "small", "MinLen": 0,
                                                                     "MaxLen": 3, "Grid": "quick", "Ties": True}, workers=8)),
         ("nms-sim", lambda q: gen_plain(q, "nms-sim", S / "geom" / "GenN.tla", {"Mode": "sim", "Alpha": "full", "MinLen": 0, "MaxLen": 0,
                                                                             "Grid": "full", "Ties": False}, simulate={"num": 6 * n, "depth": 260})),
         ("pairs", lambda q: gen_plain(q, "pairs", S / "geom" / "GenL.tla", cfgfile=S / "geom" / f"GenL_pair_{t}.cfg", workers=8)),
         ("boxes", lambda q: gen_plain(q, "boxes", S / "geom" / "GenE.tla", cfgfile=S / "geom" / f"GenE_{t}.cfg")),
         ("boxobj", lambda q: gen_plain(q, "boxobj", S / "geom" / "GenObj.tla", {"D": 3 if quick else 4})),
         ("gate", lambda q: gen_plain(q, "gate", S / "kalman" / "GenGate.tla", cfgfile=S / "kalman" / "GenGate.cfg"))]
    for m, k in ([(2, 4)] if quick else [(2, 5), (3, 4)]):
        P.append((f"proto-{m}-{k}", lambda q, m=m, k=k: gen_plain(q, f"proto-{m}-{k}", S / "kalman" / "GenKP.tla", {"M": m, "D": k})))
    lo, hi = (98, 102) if quick else (96, 104)
    P.append(("exact", lambda q: gen_plain(q, "exact", S / "kalman" / "GenK.tla", {"Lo": lo, "Hi": hi, "Mirror": 0})))
    return T, P


def generate_all(chk, items, par):
    """runs the generation instances `par` at a time; returns {name: result of the generation function}"""
    q = Quiet(chk)
    out = {}
    with ThreadPoolExecutor(max_workers=par) as ex:
        futs = [(name, ex.submit(fn, q)) for name, fn in items]
        for name, f in futs:
            out[name] = f.result()
    for name, r in q.tlc:
        chk.add_tlc(name, r)
    return out


# ------------------------------------------------------------------------------------------------ liveness of the comparison
def self_test(ctx, files, args, cfg):
    """the comparison is live: with two getters exchanged (epoch <-> length) in a copy of a dump the same machinery
    must object (nothing is reported; only the count is recorded)"""
    cases = load_cases(files)
    pyf, rsf = both(ctx, "selftest", "tracker", args, files)
    rs = read_dump(rsf)
    for q in pyf + rsf:
        os.unlink(q)
    flagged = total = 0
    for i, case in enumerate(cases):
        p = json.loads(json.dumps(rs[i]))
        touched = False
        for s in p.get("steps", []):
            for r in s.get("recs", []) + [x for sc in s.get("scenes", []) for x in sc["recs"]]:
                if r["ep"] != r["len"]:
                    r["ep"], r["len"] = r["len"], r["ep"]
                    touched = True
        if touched:
            total += 1
            if diff(p, rs[i]) and expect_tracker(case, p, cfg):
                flagged += 1
    return {"what": "SortTrack.epoch and SortTrack.length exchanged in a copy of the Rust dump (compared with the dump and the specification)",
            "scripts": total, "rejected": flagged}


# ------------------------------------------------------------------------------------------------ run
def run(chk):
    quick = chk.tier == "quick"
    t_start = time.time()
    from concurrent.futures import ProcessPoolExecutor
    ctx = {"procs": vlib.NPROC, "work": chk.workdir, "seen": {}, "samples": {}, "by_sig": {}, "disagreements": 0, "runs": [], "areas": {},
           "pool": ProcessPoolExecutor(max_workers=vlib.NPROC)}
    # the module is built while TLC generates the option scripts
    built = {}
    bt = threading.Thread(target=lambda: built.update(zip(("moddir", "exe", "secs", "version"), build_pymodule(chk))))
    bt.start()
    # option scripts + the documented defaults (constants of GenPyOpt.tla), then everything that depends on them
    q0 = Quiet(chk)
    opts = gen_plain(q0, "opts", SPEC / "py" / "GenPyOpt.tla", {"MaxCalls": 2 if quick else 3}, invariants=("Facts", "Emit"), workers=8)
    chk.add_tlc("opts", opts)
    dflt = [c for c in load_cases([opts.out]) if isinstance(c, dict) and c.get("kind") == "ctor_defaults"]
    if len(dflt) != 1:
        vlib.tool_error("GenPyOpt did not print its ctor_defaults record")
    dflt = dflt[0]
    T, P = plan(quick, dflt)
    bt.join()       # cargo and several TLC runs at once starve each other: the big generation pool starts after the build
    if "moddir" not in built:
        vlib.tool_error("build of the Python module failed")
    items = [(t["name"], t["gen"]) for t in T] + P
    items.sort(key=lambda x: 0 if ("vis" in x[0] or x[0].startswith("dflt")) else 1)     # the long ones first
    gens = generate_all(chk, items, par=5)
    ctx.update(moddir=built["moddir"], exe=built["exe"])
    # version(): the package version of the tree the module was built from
    m = re.search(r'^version\s*=\s*"([^"]+)"', (vlib.REPO / "Cargo.toml").read_text(), re.M)
    Cnt.fields += 1
    if not m or m.group(1) != built["version"]:
        chk.violation("module:version()", {"engine": "c18", "area": "module", "python": built["version"], "cargo_toml": m.group(1) if m else None})
    t_gen = time.time() - t_start

    first = None
    for t in T:
        r, c = gens[t["name"]]
        files = [r.out]
        if t["stride"] > 1:
            f, total, kept = select(chk, t["name"], r.out, t["stride"])
            files = [f]
            ctx.setdefault("selections", {})[t["name"]] = {"generated": total, "executed": kept,
                                                          "rule": f"every non-trivial script + every {t['stride']}-th other"}
        for shards in t["shards"]:
            kind = t["kind"]
            c2 = dict(c, NShards=shards)
            args = tracker_args(c2, kind, shards, t["voters"]) + ["--probe", "1"] + ([] if t["defaults"] else ["--loose-constraints", "1"])
            cfg = {"kind": kind, "shards": shards, "literal": not kind.startswith("batch"), "batch": kind.startswith("batch"),
                   "visual": "visual" in kind, "defaults": t["defaults"]}
            compare(ctx, chk, f"{t['name']}:{kind}:shards={shards}", "tracker", args, files, cfg,
                    py_extra=["--defaults", "1"] if t["defaults"] else [])
            first = first or (files, args, cfg)
    kd = dflt["ctor"]["Kalman"]
    compare(ctx, chk, "opts", "opts", [], [opts.out])
    compare(ctx, chk, "cons", "cons", [], [gens["cons"].out])
    compare(ctx, chk, "nms", "nms", [], [gens["nms"].out, gens["nms-sim"].out])
    compare(ctx, chk, "pairs", "geom", [], [gens["pairs"].out])
    compare(ctx, chk, "boxes", "geom", [], [gens["boxes"].out])
    compare(ctx, chk, "boxobj", "geom", [], [gens["boxobj"].out])
    kal = [gens[k].out for k, _ in P if k == "gate" or k.startswith("proto-") or k == "exact"]
    compare(ctx, chk, "kalman", "kalman", [], kal, py_extra=["--kalman-default", f"{kd['position_weight']},{kd['velocity_weight']}"])
    # ---- the comparison itself is live
    demo = self_test(ctx, *first)
    ok = demo["scripts"] > 0 and demo["rejected"] == demo["scripts"]
    chk.witness("comparison_rejects_exchanged_getters", ok)
    if not ok and not chk.violations:
        vlib.tool_error(f"the comparison does not react to exchanged getters: {demo}")
    programs = sum(a["scripts"] for a in ctx["areas"].values())
    nt = sum(a["nontrivial"] for a in ctx["areas"].values())
    chk.cov["evaluations"] = programs
    chk.cov["distinct_nontrivial"] = nt
    chk.cov["traces_validated_against_impl"] = ctx["areas"].get("tracker", {}).get("scripts", 0)
    chk.cov["samples"] = [s for a in ("tracker", "opts", "nms", "kalman", "cons") for s in ctx["samples"].get(a, [])][:4]
    chk.assumptions += [
        "both drivers map a case to API calls the same way: inputs computed in f64 from the integers of the case and rounded to f32 at the API",
        "floats compared relative 1e-6 / absolute 1e-9 between Python and Rust; against the specification with the tolerances of the "
        "engines that own the value (intersection area abs 2e-3 on the lattice, gate costs 1e-4, stationary / exact Kalman 1e-3 relative)",
        "track ids of the batch trackers are compared modulo renaming (named through the specification's ids at the call that creates them)",
        "VisualSortOptions is observed through repr() (Debug text of the wrapped Rust object): it has no getters",
        "intersection_area on the Rust side is the shoelace area of the clipped polygon (the binding calls geo's unsigned_area on the same polygon)",
        "documented defaults = constants of spec/py/GenPyOpt.tla (pyo3 signatures of Sort / BatchSort / the Kalman filters, "
        "VisualSortOptions::default / VisualMetricBuilder::default)",
        "the appended probe (moving boxes in scene 9; sensitive to metric, Kalman weights, min_confidence) is compared between Python and Rust only"]
    extra = {"programs": programs, "disagreements_checked": ctx["disagreements"], "fields_compared": Cnt.fields,
             "scripts_per_area": ctx["areas"], "runs": ctx["runs"], "selections": ctx.get("selections", {}), "binding_demonstration": demo,
             "module": {"repository": str(vlib.REPO), "interpreter": built["exe"], "build_s": round(built["secs"], 1)},
             "generation_s": round(t_gen, 1), "documented_defaults": dflt,
             "mismatch_signatures": {k: v["count"] for k, v in sorted(ctx["by_sig"].items())}}
    ctx["pool"].shutdown()
    chk.finish(RULE, extra=extra, exhaustive=False)


# ------------------------------------------------------------------------------------------------ replay of one stored script
def replay(payload):
    chk = vlib.Check("C18", LEVEL)
    chk.workdir = vlib.WORK / "C18-replay"
    chk.workdir.mkdir(parents=True, exist_ok=True)
    moddir, exe, _, _ = build_pymodule(chk)
    ctx = {"procs": 1, "work": chk.workdir, "moddir": moddir, "exe": exe}
    if payload.get("area") == "module":
        m = re.search(r'^version\s*=\s*"([^"]+)"', (vlib.REPO / "Cargo.toml").read_text(), re.M)
        q = subprocess.run([exe, str(PYDRV), "--module-dir", str(moddir), "--print-module-file", "1"], stdout=subprocess.PIPE, text=True)
        v = json.loads(q.stdout)["version"]
        if not m or m.group(1) != v:
            print(f"VIOLATION property=C18 replay=  # reproduced: version() = {v}, Cargo.toml = {m.group(1) if m else None}")
            return 1
        print("replay: no disagreement")
        return 0
    f = chk.workdir / "replay-case.ndjson"
    f.write_text(json.dumps(payload["case"]) + "\n")
    # the drivers vary the spelling of equivalent calls with the case index: replay under the original index
    idx = payload.get("index", 0)
    area, cfg = payload["area"], payload.get("cfg") or {}
    pyf, rsf = both(ctx, "replay", area, list(payload["args"]) + ["--index-offset", str(idx)], [f], payload.get("py_extra", []))
    py, rs = read_dump(pyf), read_dump(rsf)
    p, r = py[idx], rs[idx]
    problems = [f"python-vs-rust:{path}: python={a!r} rust={b!r}" for path, a, b in diff(p, r)]
    for side, obs in (("python", p), ("rust", r)):
        problems += [f"{side}-vs-spec:{w}: {side}={g!r} spec={e!r}" for w, g, e in EXPECT[area](payload["case"], obs, cfg)]
    if problems:
        for q in problems[:10]:
            print("# " + q)
        path = sys.argv[sys.argv.index("--replay") + 1] if "--replay" in sys.argv[:-1] else ""
        print(f"VIOLATION property=C18 replay={path}  # reproduced: {len(problems)} differing values")
        return 1
    print("replay: no disagreement")
    return 0
