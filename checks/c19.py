"""C19 - box representations agree; box equality is a symmetric tolerance relation; angle normalisation.

spec/geom/Lattice.tla (ltwh <-> centre/aspect/height, polygon = rectangle rotated by k quarter turns, area, centre,
radius^2, angle normal form) and spec/geom/BoxEq.tla (tolerance equality in units of EPS / 10).
  1. TLC checks (MCE.tla): equality reflexive, symmetric, equal below / unequal above EPS on vectors around the
     epsilon boundary; round trip ltwh -> xyaah -> ltwh; rotation form of the polygon = extent form, shoelace area,
     centroid, vertex radius; normal form of k*pi/8 in 0..15, equivalent, idempotent, periodic; witnesses.
  2. GenE.tla emits conversion, polygon, equality (one coordinate changed by delta in {0, +-0.5, +-0.9, +-1.1, +-2,
     +-100} EPS on every coordinate of both box types, in both orders; pairs of coordinates) and normalisation cases;
     `vh replay geom` evaluates From / TryFrom / as_xyaah / ltwh, get_vertices / area / get_radius (lattice and under
     rigid motions), PartialEq of BoundingBox and Universal2DBox, normalize_angle.
"""
from checks import geomcommon as gc
MANIFEST = {
    'level': 'exploration', 'design': '6 (C19)',
    'technique': 'TLA+ specs (Lattice.tla, BoxEq.tla) model-checked with TLC; TLC-generated conversion / polygon / equality / '
                 'normalisation cases replayed into the real conversions, get_vertices, area, get_radius, PartialEq, normalize_angle',
    'text': 'TLC checks the round trip, the polygon facts (rotated rectangle with the area, centre and radius of the box), the '
            'tolerance-equality facts (reflexive, symmetric, verdict below / above EPS) and the angle normal form on small '
            'alphabets, then emits cases with the exact expected values: every box of an alphabet for conversions and polygons '
            '(replayed at scales 1/32..1024 - also per axis: thin-and-tall and wide-and-flat boxes with aspect ratios below 1e-5 and above 1e4 - '
            'offsets to 8192 and under rigid motions, among them rotations by angles below EPS), every one-coordinate change by a delta '
            'across EPS for both box types in both argument orders (also a box without angle against a box with one: symmetry '
            'and inequality beyond EPS required), and every multiple of pi/8 over +-8 turns.',
    'note': 'Equality verdicts are required outside a band of +-10 % around EPS and only where the f32 inputs still carry the '
            'delta (large magnitudes: deltas of 100 EPS only); whether angle None EQUALS an angle within EPS of 0 and the confidence of Universal2DBox are '
            'left open; a normalised angle may equal 2*pi after rounding.'}
LEVEL = MANIFEST["level"]
RULE = ("cases = every box of the alphabet for 'conv' (5 scale/offset variants) and 'poly' (3-4 variants), every (type, base "
        "vector, coordinate, delta) and (type, base, two coordinates, two deltas) for 'eq', every k in -128..128 for 'norm'; "
        "distinct by construction; non-trivial = conv cases, poly cases with an angle, eq cases whose largest delta is 0.9 or "
        "1.1 EPS or that change two coordinates, norm cases outside [0, 2 pi)")
WITNESSES = ["W_NoOpenVerdict", "W_NoEqualVerdict", "W_NoUnequalVerdict", "W_NoNegativeWrap"]


def run(chk):
    quick = chk.tier == "quick"
    t = "q" if quick else "t"
    gc.model_check(chk, "MCE", "MCE.tla", "MCE.cfg", 300)
    gc.witnesses(chk, "MCE.tla", WITNESSES, {})
    gc.generate_and_replay(chk, "cases", "GenE.tla", f"GenE_{t}.cfg", timeout=600)
    gc.box_objects(chk, "c19", 3 if quick else 5)
    chk.assumptions += [
        "coordinates are built as f32(base + delta) from integers in units of 1e-6; a verdict is compared only when the "
        "difference of the two f32 values is still on the same side of EPS (band 0.95..1.05 EPS)",
        "vertices are compared as a set (the order of the polygon ring is not mandated); the polygon area excludes self-crossing orders"]
    chk.finish(RULE, exhaustive=True)


def replay(payload):
    return gc.replay("C19", payload)
