"""C20 - spatio-temporal constraints are a pure, monotone filter on candidate pairs.

Calculator half (table_engine): spec/calc/Constraints.tla defines the table declaratively (gap -> first
configured limit; Validate = limit of the smallest configured gap >= the probe gap, none -> admitted)
and operationally (append, stable sort, drop later duplicates, first entry with gap >= probe).  TLC
(MCC.tla) checks over every table of the alphabet that the two agree, that admission is monotone in the
distance and that the first limit of a repeated gap wins; GenC.tla emits every table (as two add calls,
cut at every position) with the verdict of every probe, and `vh replay constraints` puts each one into
the real SpatioTemporalConstraints.

The tracker-level half (constrained vs unconstrained runs) is a separate engine added to run().
"""
import vlib
from vlib import SPEC

MANIFEST = {
    'level': 'model_checking', 'design': '4 (C20)',
    'technique': 'TLA+ spec (Constraints.tla) model-checked with TLC over every small table; every table x probe replayed into the real SpatioTemporalConstraints',
    'text': 'TLC enumerates every constraint table of at most 3 entries over gaps 0..8 x limits {1,2,4} given in at most two add calls (every cut position, duplicated gaps included), checks on the specification that admission is monotone in the distance, that a gap configured twice keeps its first limit, that the applicable limit is the one of the smallest configured gap not below the probe gap, and that an implementation-shaped definition (append, stable sort, dedup, linear scan) agrees with the declarative one; every table is then built in the real SpatioTemporalConstraints and validate(gap, d) is compared with the specification for every gap 0..9 and every distance in {limit-1/2, limit, limit+1/2}.',
    'note': 'Trusted: TLC. Limits and distances are multiples of 1/2 (exact in f32); tables have at most 3 (thorough: limits up to 8) entries; the internal table is private, only validate() is observed.'}
LEVEL = MANIFEST["level"]
S = SPEC / "calc"
RULE = ("tables = every sequence of <= 3 <<gap, limit>> entries over gaps 0..8 x the limit grid, cut into two add calls at "
        "every position (TLC enumerates each once: distinct by construction); each table is probed at every gap 0..9 x "
        "every distance in {limit-1/2, limit, limit+1/2}; a table is non-trivial when a gap is configured twice or some "
        "probe gap lies strictly between two configured gaps (counted by the harness)")


def table_engine(chk, quick):
    """Calculator half of C20: model checking of Constraints.tla + exhaustive replay into the real table."""
    consts = {"MaxGap": 8, "Limits": {2, 4, 8} if quick else {2, 4, 8, 16}, "MaxEntries": 3}
    # 1. model checking of the specification (declarative vs operational, monotone, first wins)
    cfg = vlib.write_cfg(chk.workdir / "mcc.cfg", consts, invariants=["Inv"])
    r = vlib.tlc(S / "MCC.tla", cfg, "mcc", chk.workdir, workers=8, timeout=300 if quick else 900)
    vlib.tlc_must_pass(r, "MCC")
    chk.add_tlc("MCC", r)
    # 2. reachability witnesses (TLC must violate them)
    small = {"MaxGap": 4, "Limits": {2, 4}, "MaxEntries": 2}
    for w in ("W_NoDup", "W_NoBetween", "W_NoReject"):
        cfgw = vlib.write_cfg(chk.workdir / f"w-{w}.cfg", small, invariants=[w])
        rw = vlib.tlc(S / "MCC.tla", cfgw, f"w-{w}", chk.workdir, workers=2, timeout=120)
        chk.witness(w, vlib.expect_violation(rw, w))
    # 3. every table x every probe, replayed
    cfg = vlib.write_cfg(chk.workdir / "genc.cfg", consts, invariants=["Emit"])
    g = vlib.tlc(S / "GenC.tla", cfg, "genc", chk.workdir, workers=8, timeout=300 if quick else 900)
    vlib.tlc_must_pass(g, "GenC")
    chk.add_tlc("GenC", g)
    args = ["replay", "constraints"]
    rep = vlib.run_vh(args, [g.out])
    chk.add_report("constraints-table", rep)
    chk.classify("constraints", args, rep)
    # 4. the binding is live: with every expected verdict inverted the same replay must reject
    demo = vlib.run_vh(args + ["--perturb", "1", "--limit", "2000"], [g.out])
    chk.cov["binding_demonstration"] = {"what": "expected verdicts inverted for the first 2000 tables",
                                        "cases": demo["cases"], "rejected": demo["mismatches"]}
    if demo["mismatches"] != demo["cases"] or demo["cases"] == 0:
        vlib.tool_error("constraints replay does not react to corrupted expectations")
    chk.assumptions += ["limits and distances are multiples of 1/2, exactly representable in f32",
                        "the table itself is private: only validate(gap, distance) is observed"]
    return rep


def run(chk):
    quick = chk.tier == "quick"
    table_engine(chk, quick)
    # (tracker-level engine goes here, before finish)
    chk.finish(RULE, exhaustive=True)


def _replay_path():
    import sys
    return sys.argv[sys.argv.index('--replay') + 1] if '--replay' in sys.argv[:-1] else ''


def replay(payload):
    rep = vlib.replay_single(payload["vh"], payload["case"], vlib.WORK / "C20")
    if rep["mismatches"]:
        print(f"VIOLATION property=C20 replay={_replay_path()}  # reproduced: {list(rep['by_sig'])}")
        return 1
    print("replay: no mismatch")
    return 0
