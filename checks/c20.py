"""C20 - spatio-temporal constraints are a pure, monotone filter on candidate pairs.

Calculator half (table_engine): spec/calc/Constraints.tla defines the table declaratively (gap -> first
configured limit; Validate = limit of the smallest configured gap >= the probe gap, none -> admitted)
and operationally (append, stable sort, drop later duplicates, first entry with gap >= probe).  TLC
(MCC.tla) checks over every table of the alphabet that the two agree, that admission is monotone in the
distance and that the first limit of a repeated gap wins; GenC.tla emits every table (as two add calls,
cut at every position) with the verdict of every probe, and `vh replay constraints` puts each one into
the real SpatioTemporalConstraints.

The tracker-level half (constrained vs unconstrained runs) is a separate engine added to run().
"""
import vlib
from vlib import SPEC

MANIFEST = {
    'level': 'model_checking', 'design': '4 (C20)',
    'technique': 'TLA+ spec (Constraints.tla) model-checked with TLC over every small table; every table x probe replayed into the real SpatioTemporalConstraints',
    'text': 'TLC enumerates every constraint table of at most 3 entries over gaps 0..8 x limits {1,2,4} given in at most two add calls (every cut position, duplicated gaps included), checks on the specification that admission is monotone in the distance, that a gap configured twice keeps its first limit, that the applicable limit is the one of the smallest configured gap not below the probe gap, and that an implementation-shaped definition (append, stable sort, dedup, linear scan) agrees with the declarative one; every table is then built in the real SpatioTemporalConstraints and validate(gap, d) is compared with the specification for every gap 0..9 and every distance in {limit-1/2, limit, limit+1/2}. Tracker level (R2): random histories with fast and re-appearing objects under random tables of 1..3 entries over gaps 1..6 (idle limits 1..3, so entries above the idle limit occur and apply to every smaller gap without a closer entry) are recorded and validated by TLC against TrackerTrace / VisualTrace: no continuation beyond the limit for its gap, the continuation set optimal over the admitted pairs; a table that no pair violates gives the records of the run without a table.',
    'note': 'Trusted: TLC. Limits and distances are multiples of 1/2 (exact in f32); tables have at most 3 (thorough: limits up to 8) entries; the internal table is private, only validate() is observed.'}
LEVEL = MANIFEST["level"]
S = SPEC / "calc"
RULE = ("tables = every sequence of <= 3 <<gap, limit>> entries over gaps 0..8 x the limit grid, cut into two add calls at "
        "every position (TLC enumerates each once: distinct by construction); each table is probed at every gap 0..9 x "
        "every distance in {limit-1/2, limit, limit+1/2}; a table is non-trivial when a gap is configured twice or some "
        "probe gap lies strictly between two configured gaps (counted by the harness)")


def table_engine(chk, quick):
    """Calculator half of C20: model checking of Constraints.tla + exhaustive replay into the real table."""
    consts = {"MaxGap": 8, "Limits": {2, 4, 8} if quick else {2, 4, 8, 16}, "MaxEntries": 3}
    # 1. model checking of the specification (declarative vs operational, monotone, first wins)
    cfg = vlib.write_cfg(chk.workdir / "mcc.cfg", consts, invariants=["Inv"])
    r = vlib.tlc(S / "MCC.tla", cfg, "mcc", chk.workdir, workers=8, timeout=300 if quick else 900)
    vlib.tlc_must_pass(r, "MCC")
    chk.add_tlc("MCC", r)
    # 2. reachability witnesses (TLC must violate them)
    small = {"MaxGap": 4, "Limits": {2, 4}, "MaxEntries": 2}
    for w in ("W_NoDup", "W_NoBetween", "W_NoReject"):
        cfgw = vlib.write_cfg(chk.workdir / f"w-{w}.cfg", small, invariants=[w])
        rw = vlib.tlc(S / "MCC.tla", cfgw, f"w-{w}", chk.workdir, workers=2, timeout=120)
        chk.witness(w, vlib.expect_violation(rw, w))
    # 3. every table x every probe, replayed
    cfg = vlib.write_cfg(chk.workdir / "genc.cfg", consts, invariants=["Emit"])
    g = vlib.tlc(S / "GenC.tla", cfg, "genc", chk.workdir, workers=8, timeout=300 if quick else 900)
    vlib.tlc_must_pass(g, "GenC")
    chk.add_tlc("GenC", g)
    args = ["replay", "constraints"]
    rep = vlib.run_vh(args, [g.out])
    chk.add_report("constraints-table", rep)
    chk.classify("constraints", args, rep)
    # 4. the binding is live: with every expected verdict inverted the same replay must reject
    demo = vlib.run_vh(args + ["--perturb", "1", "--limit", "2000"], [g.out])
    chk.cov["binding_demonstration"] = {"what": "expected verdicts inverted for the first 2000 tables",
                                        "cases": demo["cases"], "rejected": demo["mismatches"]}
    if demo["mismatches"] != demo["cases"] or demo["cases"] == 0:
        vlib.tool_error("constraints replay does not react to corrupted expectations")
    chk.assumptions += ["limits and distances are multiples of 1/2, exactly representable in f32",
                        "the table itself is private: only validate(gap, distance) is observed"]
    return rep


def big_tables(chk, quick):
    """Tables of 20..100 entries in one add call, every gap configured several times (first limit must win for any size)."""
    cfg = vlib.write_cfg(chk.workdir / "gencb.cfg", {"MaxGap": 8, "Limits": {2, 4, 8}, "MaxEntries": 3,
                                                      "Ns": {20, 33, 40, 64, 100}, "K": 12 if quick else 60}, invariants=["Emit"])
    r = vlib.tlc(vlib.SPEC / "calc" / "GenCB.tla", cfg, "gencb", chk.workdir, workers=4, timeout=600)
    vlib.tlc_must_pass(r, "GenCB")
    chk.add_tlc("GenCB (large tables)", r)
    args = ["replay", "constraints"]
    rep = vlib.run_vh(args, [r.out], procs=4)
    chk.add_report("large-tables", rep)
    chk.classify("constraints", args, rep)


def tracker_engine(chk, quick):
    """Tracker level (R2): random histories with fast-moving and re-appearing objects under random constraint
    tables; TLC validates every trace (no continuation beyond the limit for its epoch gap; the recorded assignment is
    optimal over the pairs the table admits), and relates a run whose table no pair violates to the unconstrained run."""
    import random
    from checks import r2_common as r2
    rnd = random.Random(chk.seed)
    n = 6 if quick else 100
    traces, binding, gap_sensitive, R2KW = [], 0, 0, {}
    for i in range(n):
        # 1..3 entries with pairwise different limits inside the range of distances at which pairs are still gated
        # (a low IoU threshold keeps re-appearing objects gated): the limit that applies depends on the exact gap
        # entries for gaps above the idle limit are kept in: such an entry is still the applicable one for every smaller
        # gap that has no closer entry
        gaps = sorted(rnd.sample(range(1, 7), rnd.choice((1, 2, 3))))
        table = ",".join(f"{g}:{l}" for g, l in zip(gaps, rnd.sample((0.1, 0.2, 0.3, 0.5, 0.8), len(gaps))))
        kind = ("sort", "visual", "batchsort")[i % 3]
        R2KW[i] = dict(steps=150 if quick else 300, shards=1 + i % 3, metric="iou" if i % 2 == 0 else "maha", max_idle=(3, 2, 1, 2)[i % 4], objects=4,
                       spread=(60, 120)[i % 2], extra=["--jump", "1", "--thr", "0.1"])
        t = r2.record(chk, f"c20-r2-{i}", kind, chk.seed * 1000 + 500 + i, constraints=table, **R2KW[i])
        st = r2.trace_stats(t)
        chk.cov["evaluations"] += st["predicts"]
        import json as _j
        ev = [_j.loads(l) for l in open(t)]
        cons = ev[0]["cons"]
        def lim(gap):
            a = [l for g, l in cons if g >= gap]
            return a[0] if a else 0
        gated = [(gap, d) for e in ev if e["ev"] == "predict" for i2, row in enumerate(e["c"]) for k, gap, d in row
                 if any(k == kk for kk, _ in e["w"][i2])]
        binding += sum(1 for gap, d in gated if lim(gap) and d > lim(gap))
        # gated pairs whose admission would differ if the table were read at the neighbouring gap
        adm = lambda g, d: (not lim(g)) or d <= lim(g)
        gap_sensitive += sum(1 for gap, d in gated if gap >= 1 and (adm(gap, d) != adm(gap - 1, d) or adm(gap, d) != adm(gap + 1, d)))
        traces.append(t)
    chk.cov["distinct_nontrivial"] += binding
    chk.cov["gated_pairs_excluded_by_a_binding_constraint"] = binding
    chk.cov["gated_pairs_whose_admission_depends_on_the_exact_gap"] = gap_sensitive
    res = r2.validate_all(chk, traces, "C20")
    # "admitted exactly when ...": a constrained run rejected because an admissible gated pair was not used (the recorded
    # assignment is not optimal over the admitted pairs) is C20's business if the same history without any table is fine
    for i, (ok, why, rej) in enumerate(res):
        if ok or "constraint" in why or not (why & {"optimal", "gate"}):
            continue
        kind = ("sort", "visual", "batchsort")[i % 3]
        t0 = r2.record(chk, f"c20-r2-{i}-free", kind, chk.seed * 1000 + 500 + i, **R2KW[i])
        if r2.validate_all(chk, [t0], "none")[0][0]:
            chk.violation("c20:admissible-pair-not-used", {"engine": "r2-trace", "trace": str(traces[i]), "rejected": rej[:3000]})
    # non-binding table vs no table: identical records and ids
    for i in range(2 if quick else 20):
        seed = chk.seed * 1000 + 900 + i
        kind = ("sort", "visual")[i % 2]
        a = r2.record(chk, f"c20-free-{i}", kind, seed, steps=150, shards=2, max_idle=2, objects=4, spread=90, extra=["--no-lifecycle", "1"])
        b = r2.record(chk, f"c20-loose-{i}", kind, seed, steps=150, shards=2, max_idle=2, objects=4, spread=90,
                      constraints="1:1000.0,3:1000.0", extra=["--no-lifecycle", "1"])
        ok, rej = r2.pairing(chk, f"c20-pair-{i}", a, b, "equal")
        chk.cov["evaluations"] += 1
        if not ok:
            chk.violation("c20:non-binding-table-changes-results", {"engine": "pairing", "a": str(a), "b": str(b), "rejected": rej[:2000]})


    # ... and with appearance features: a look-alike object re-identified after a jump farther than the sum of the radii is
    # still a pair a non-binding table admits (the distance is measured in units of r1 + r2 however far the boxes are
    # apart).  Feature weights are discrete, so ties occur: the runs are not compared with one another but each is
    # validated by TLC (VisualTrace.tla, tie-aware); a constrained run that is rejected on appearance / fallback /
    # constraint grounds while the same history without a table is accepted belongs to C20.
    free, loose = [], []
    for i in range(2 if quick else 20):
        seed = chk.seed * 1000 + 950 + i
        kind = ("visual", "batchvisual")[i % 2]
        kw = dict(vis_kind=("euclid", "cosine")[i % 2], min_votes=1, min_track_len=1, max_obs=3, steps=150, shards=2, max_idle=3, objects=4,
                  spread=120, extra=["--no-lifecycle", "1", "--jump", "2"])
        free.append(r2.record_visual(chk, f"c20-vfree-{i}", kind, seed, **kw))
        kw["extra"] = kw["extra"] + ["--constraints", "1:1000.0,3:1000.0"]
        loose.append(r2.record_visual(chk, f"c20-vloose-{i}", kind, seed, **kw))
    rf, rl = r2.validate_visual_each(chk, free), r2.validate_visual_each(chk, loose)
    for i, ((okf, _, _, _), (okl, why, rej, _)) in enumerate(zip(rf, rl)):
        chk.cov["evaluations"] += 1
        if okf and not okl and (why & {"appearance", "fallback", "constraint"}):
            chk.violation("c20:non-binding-table-changes-appearance", {"engine": "r2v-trace", "trace": str(loose[i]), "rejected": rej[:3000]})


def run(chk):
    quick = chk.tier == "quick"
    table_engine(chk, quick)
    big_tables(chk, quick)
    tracker_engine(chk, quick)
    chk.finish(RULE, exhaustive=True)


def _replay_path():
    import sys
    return sys.argv[sys.argv.index('--replay') + 1] if '--replay' in sys.argv[:-1] else ''


def replay_v(payload):
    from checks import r2_common as r2
    return r2.replay_visual_trace("C20", payload)


def replay(payload):
    if payload.get("engine") == "r2v-trace":
        return replay_v(payload)
    rep = vlib.replay_single(payload["vh"], payload["case"], vlib.WORK / "C20")
    if rep["mismatches"]:
        print(f"VIOLATION property=C20 replay={_replay_path()}  # reproduced: {list(rep['by_sig'])}")
        return 1
    print("replay: no mismatch")
    return 0
