"""Shared steps of the exact-lattice geometry checks C08, C15, C19 (spec/geom, `vh replay geom`)."""
import vlib
from vlib import SPEC

G = SPEC / "geom"


def model_check(chk, name, module, cfg, timeout):
    r = vlib.tlc(G / module, G / cfg, name, chk.workdir, workers=8, timeout=timeout)
    vlib.tlc_must_pass(r, name)
    chk.add_tlc(name, r)
    return r


def witnesses(chk, module, names, constants):
    """Reachability witnesses: each named invariant must be VIOLATED on a small alphabet."""
    for w in names:
        cfg = vlib.write_cfg(chk.workdir / f"w-{w}.cfg", constants, spec="Spec", invariants=[w])
        rw = vlib.tlc(G / module, cfg, f"w-{w}", chk.workdir, workers=4, timeout=120)
        reached = vlib.expect_violation(rw, w)
        chk.witness(w, reached)
        if not reached:
            vlib.tool_error(f"reachability witness {w} of {module} was not reached: the model-checking instance is vacuous")


def vh_args(chk):
    return ["replay", "geom", "--seed", str(chk.seed)]


def generate_and_replay(chk, name, module, cfg, timeout=900, simulate=None):
    r = vlib.tlc(G / module, G / cfg, name, chk.workdir, workers=8, timeout=timeout, simulate=simulate,
                 seed=chk.seed if simulate else None)
    vlib.tlc_must_pass(r, name)
    chk.add_tlc(name, r)
    args = vh_args(chk)
    # the own-area code is rayon-parallel inside every call: one thread per replay process is faster
    rep = vlib.run_vh(args, [r.out], env={"RAYON_NUM_THREADS": "1"})
    chk.add_report(name, rep)
    chk.classify("geom", args, rep)
    return r, rep


def replay(pid, payload):
    rep = vlib.replay_single(payload["vh"], payload["case"], vlib.WORK / pid)
    if rep["mismatches"]:
        print(f"VIOLATION property={pid} replay={payload.get('path', '')}  # reproduced: {sorted(rep['by_sig'])}")
        return 1
    print("replay: no mismatch")
    return 0



def box_objects(chk, focus, depth):
    """Operation histories on one box object (gen_vertices / turn / move / resize / clone): results must depend on the
    current geometry only (spec/geom/GenObj.tla, `vh replay boxobj`)."""
    cfg = vlib.write_cfg(chk.workdir / "genobj.cfg", {"D": depth}, invariants=["Emit"])
    r = vlib.tlc(vlib.SPEC / "geom" / "GenObj.tla", cfg, "genobj", chk.workdir, workers=6, timeout=900)
    vlib.tlc_must_pass(r, "GenObj")
    chk.add_tlc("GenObj", r)
    args = ["replay", "boxobj", "--focus", focus]
    rep = vlib.run_vh(args, [r.out])
    chk.add_report("box-objects", rep)
    chk.classify("boxobj", args, rep)
    return rep
