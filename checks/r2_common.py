"""impl -> spec, regime R2: random free-world histories through the real trackers, validated by TLC against
spec/tracker/TrackerTrace.tla (one TLC run per recorded trace, in parallel)."""
import json, re, concurrent.futures as cf
import vlib
from vlib import SPEC
T = SPEC / "tracker"

# which properties a failed conjunct of the trace specification concerns
WHY_PROPS = {
    "count": {"C01"}, "distinct": {"C01"}, "fresh": {"C01"}, "echo": {"C01"}, "epoch": {"C01", "C03"}, "len": {"C01", "C03"},
    "foreign-scene": {"C04"}, "expired": {"C03"}, "gate": {"C02"}, "optimal": {"C02"}, "constraint": {"C20"},
    "places": {"C03"}, "panic": {"C01", "C02", "C03", "C04", "C05", "C06", "C20"}, "idle": {"C03"}, "wasted": {"C03"}, "stats": {"C03"}, "event": {"C03"},
    # VisualTrace.tla
    "appearance": {"C12"}, "fallback": {"C12", "C02"}, "gallery": {"C13"}, "collected": {"C13"}, "gallery-continuity": {"C13", "C04"},
}


def record(chk, name, kind, seed, steps=150, shards=2, metric="iou", max_idle=2, objects=4, spread=90, crafted=True,
           constraints=None, scenes="0,7", rotated=True, extra=(), history=2):
    out = chk.workdir / f"{name}.ndjson"
    cmd = [str(vlib.VH), "record", "r2", "--kind", kind, "--shards", str(shards), "--max-idle", str(max_idle), "--metric", metric,
           "--seed", str(seed), "--steps", str(steps), "--objects", str(objects), "--spread", str(spread), "--scenes", scenes,
           "--history", str(history), "--out", str(out)] + list(extra)
    # options the trace specifications do not care about (they read thresholds and limits from the configuration line, the
    # weights are measured with the configured filter) vary with the seed unless the caller fixed them: history length,
    # IoU threshold, confidence floor, Kalman weights, number of voting threads
    given = set(x for x in map(str, extra) if x.startswith("--"))
    pick = lambda salt, choices: choices[(seed * 2654435761 + salt * 40503) % 4294967296 % len(choices)]
    if history == 2 and "--history" not in given:
        cmd[cmd.index("--history") + 1] = str(pick(1, (1, 2, 2, 3, 4)))
    if metric == "iou" and "--thr" not in given:
        cmd += ["--thr", str(pick(2, (0.3, 0.3, 0.2, 0.45)))]
    if "--min-conf" not in given:
        cmd += ["--min-conf", str(pick(3, (0.05, 0.05, 0.3)))]
    if "--pos-w" not in given and pick(4, (0, 0, 1)) == 1:
        cmd += ["--pos-w", "0.1", "--vel-w", "0.0125"]
    if "--voters" not in given:
        cmd += ["--voters", str(pick(5, (1, 2, 2, 3)))]
    if crafted:
        cmd += ["--crafted", "1"]
    if rotated:
        cmd += ["--rotated", "1"]
    if constraints:
        cmd += ["--constraints", constraints]
    if not vlib.run_recorder(chk, cmd, "r2:record", timeout=600):
        # the process died: leave an empty trace with a PANIC event so that callers can go on
        out.write_text(json.dumps({"ev": "config", "max_idle": max_idle, "thr": 0, "margin": 0, "cons": [], "eps": 0}) + "\n"
                       + json.dumps({"ev": "PANIC", "call": "process", "index": 0}) + "\n")
    return out


def greedy_differs(e, thr):
    pairs = sorted([(w, i, k) for i, r in enumerate(e["w"]) for k, w in r], reverse=True)
    ui, uk, val = set(), set(), 0
    for w, i, k in pairs:
        if i in ui or k in uk:
            continue
        ui.add(i); uk.add(k); val += w
    val += thr * (len(e["w"]) - len(ui))
    W = [dict((k, w) for k, w in r) for r in e["w"]]
    if len(e["ids"]) != len(W):
        return False
    rec = sum(W[i].get(a, thr) for i, a in enumerate(e["ids"]))
    return val < rec


def trace_stats(path):
    ev = [json.loads(l) for l in open(path)]
    thr = ev[0]["thr"]
    p = [e for e in ev if e["ev"] == "predict"]
    return {"events": len(ev) - 1, "predicts": len(p),
            "greedy_not_optimal": sum(1 for e in p if greedy_differs(e, thr)),
            "near_threshold": sum(1 for e in p for r in e["w"] for k, w in r if w < 1.1 * thr),
            "multi_candidate_rows": sum(1 for e in p for r in e["w"] if len(r) > 1),
            "binding_constraints": sum(1 for e in p for i, r in enumerate(e.get("c", [])) for x in r
                                        if any(g >= x[1] and x[2] > lim for g, lim in ev[0]["cons"][:1] or [])),
            "sample": p[len(p) // 2] if p else None}


def _validate(args):
    i, trace, workdir = args
    ok, r, rej = vlib.validate_trace(T / "TrackerTrace.tla", T / "ttrace.cfg", trace, f"tt-{i}", workdir, timeout=600)
    return i, ok, r.generated, r.distinct, rej


def validate_all(chk, traces, focus):
    """Validates every trace; a rejection is reported for `focus` only if a failed conjunct concerns that property."""
    jobs = [(i, t, chk.workdir) for i, t in enumerate(traces)]
    out = []
    with cf.ThreadPoolExecutor(max_workers=6) as ex:
        for i, ok, gen, dist, rej in ex.map(_validate, jobs):
            chk.cov["states"] += dist
            chk.cov["transitions"] += gen
            chk.cov["traces_validated_against_impl"] += 1
            if not ok:
                m = re.search(r'\\"why\\", \{([^}]*)\}', rej)
                why = set(re.findall(r'\\"([a-z-]+)\\"', m.group(1))) if m else set()
                props = set().union(*[WHY_PROPS.get(w, set()) for w in why]) if why else {"C01", "C02", "C03", "C04", "C20"}
                if focus in props or not why:
                    chk.violation(f"r2:rejected:{'+'.join(sorted(why)) or 'unknown'}",
                                  {"engine": "r2-trace", "trace": str(traces[i]), "rejected": rej[:3000]})
                else:
                    chk.cov.setdefault("rejections_outside_focus", 0)
                    chk.cov["rejections_outside_focus"] += 1
                out.append((False, why, rej))
            else:
                out.append((True, set(), ""))
    return out


def replay_trace(pid, payload):
    ok, r, rej = vlib.validate_trace(T / "TrackerTrace.tla", T / "ttrace.cfg", payload["trace"], "replay", vlib.WORK / pid)
    print("accepted" if ok else f"VIOLATION property={pid} replay=  # {rej[:300]}")
    return 0 if ok else 1


def pairing(chk, name, trace_a, trace_b, mode, scene=0):
    """Two recorded runs related by TLC (spec/tracker/Pairing.tla): mode "equal" (same history, other shard count /
    schedule / non-binding constraints: records and ids literally equal) or "renaming" (multi-scene run filtered to
    `scene` vs the single-scene run: equal up to an id bijection)."""
    cfg = vlib.write_cfg(chk.workdir / f"{name}.cfg", {"Mode": mode, "Scene": scene}, spec="Spec",
                         constraints=["Progress"], postcondition="Accepted")
    ok, r, rej = vlib.validate_trace(T / "Pairing.tla", cfg, trace_a, name, chk.workdir,
                                     env={"TRACE_A": str(trace_a), "TRACE_B": str(trace_b)}, timeout=600)
    chk.cov["states"] += r.distinct
    chk.cov["transitions"] += r.generated
    chk.cov["traces_validated_against_impl"] += 2
    return ok, rej


# ---------------------------------------------------------------------------------------------------------------------
# free-world VisualSORT runs with appearance features, validated against spec/tracker/VisualTrace.tla (C12, C13)
def record_visual(chk, name, kind, seed, vis_kind="euclid", vis_thr=None, min_votes=1, min_track_len=2, max_obs=3, own=0.0, min_area=0,
                  steps=150, shards=2, metric="iou", max_idle=2, objects=5, spread=90, scenes="0,7", extra=()):
    thr = vis_thr if vis_thr is not None else (2.8 if vis_kind == "euclid" else 0.85)
    ex = ["--features", "1", "--vis-kind", vis_kind, "--vis-thr", str(thr if vis_kind == "euclid" else round(1.0 - thr, 6)),
          "--min-votes", str(min_votes), "--min-track-len", str(min_track_len), "--max-obs", str(max_obs), "--min-area", str(min_area),
          "--q-use", "0.5", "--q-collect", "0.6"]
    if own > 0:
        ex += ["--own-use", str(own), "--own-collect", str(own)]
    # own-area shares are measured on axis-aligned boxes only (rotated sets can hit the known geo panic F10 of C15)
    return record(chk, name, kind, seed, steps=steps, shards=shards, metric=metric, max_idle=max_idle, objects=objects, spread=spread,
                  crafted=False, scenes=scenes, rotated=(own == 0), extra=ex + list(extra))


def _validate_v(args):
    i, trace, workdir = args
    try:
        head = open(trace).read(4000)
    except OSError:
        head = ""
    if '"ev": "PANIC"' in head and '"v"' not in head.split("\n", 1)[0]:
        # the recorder process died (already reported as r2:record:crash): the placeholder is not a visual trace
        return i, False, 0, 0, "the recorder process died: no trace to validate", [0, 0, 0, 0, 0, 0]
    ok, r, rej = vlib.validate_trace(T / "VisualTrace.tla", T / "vtrace.cfg", trace, f"vt-{i}", workdir, timeout=900)
    stats = [0, 0, 0, 0, 0, 0]
    try:
        m = re.search(r"VSTATS <<(\d+), (\d+), (\d+), (\d+), (\d+), (\d+)>>", open(r.out).read())
        if m:
            stats = [int(x) for x in m.groups()]
    except OSError:
        pass
    return i, ok, r.generated, r.distinct, rej, stats


def validate_visual_each(chk, traces):
    """One TLC run per recorded visual trace; returns [(ok, failed conjuncts, rejection text, counters)] in order."""
    jobs = [(i, t, chk.workdir) for i, t in enumerate(traces)]
    out = []
    with cf.ThreadPoolExecutor(max_workers=6) as ex:
        for i, ok, gen, dist, rej, stats in ex.map(_validate_v, jobs):
            chk.cov["states"] += dist
            chk.cov["transitions"] += gen
            chk.cov["traces_validated_against_impl"] += 1
            why = set()
            if not ok:
                m = re.search(r'\\"why\\", \{([^}]*)\}', rej)
                why = set(re.findall(r'\\"([a-z-]+)\\"', m.group(1))) if m else set()
            out.append((ok, why, rej, stats))
    return out


def validate_visual(chk, traces, focus):
    """A rejection is reported for `focus` only if a failed conjunct concerns it.
    Returns the summed non-vacuity counters [loose, with claims, with a lost claim, fallback next to appearance,
    continuations of a full gallery, features refused by the collect gate]."""
    tot = [0, 0, 0, 0, 0, 0]
    for i, (ok, why, rej, stats) in enumerate(validate_visual_each(chk, traces)):
        tot = [a + b for a, b in zip(tot, stats)]
        if not ok:
            props = set().union(*[WHY_PROPS.get(w, set()) for w in why]) if why else {"C01", "C02", "C03", "C04", "C12", "C13", "C20"}
            if focus in props or not why:
                chk.violation(f"r2v:rejected:{'+'.join(sorted(why)) or 'unknown'}",
                              {"engine": "r2v-trace", "trace": str(traces[i]), "rejected": rej[:3000]})
            else:
                chk.cov.setdefault("rejections_outside_focus", 0)
                chk.cov["rejections_outside_focus"] += 1
    return tot


def replay_visual_trace(pid, payload):
    ok, r, rej = vlib.validate_trace(T / "VisualTrace.tla", T / "vtrace.cfg", payload["trace"], "replay", vlib.WORK / pid)
    print("accepted" if ok else f"VIOLATION property={pid} replay=  # {rej[:300]}")
    return 0 if ok else 1
