"""Shared by the tracker-level checks (C01, C03, C04, C05, C06, C13): TLC model checking of
spec/tracker/MCTracker.tla, generation of R1 behaviours with spec/tracker/GenTR.tla and replay into the
real trackers through `vh replay tracker`."""
import vlib
from vlib import SPEC
T = SPEC / "tracker"

BASE = {"Scenes": {1, 2}, "Slots": {1, 2}, "Confs": {900, 500}, "Cids": {0, 7}, "Metric": "iou", "Thr": 300,
        "MinConf": 50, "MaxIdle": 0, "H": 2, "NShards": 2}


def mc_consts(**kw):
    c = dict(BASE)
    c.update({"Confs": {900}, "Cids": {0}, "H": 1, "MaxIdle": 1, "Periods": {0, 1}, "MaxTracks": 3, "MaxEpoch": 3})
    c.update(kw)
    return c


def model_check(chk, quick, parts=("main", "refine", "witness", "extra"), small=False):
    """Complete state graph of the R1 tracker: lifecycle invariants, predict contract, witnesses, refinement."""
    inv = ["TypeOK", "CollectedAreExpired", "RingBound", "LastLeEpoch", "Conservation", "WastedExact",
           "GcUnobservable", "StatsAccount"]
    if "main" in parts:
        cfg = vlib.write_cfg(chk.workdir / "mc.cfg", mc_consts(**({"MaxEpoch": 2} if small else {})), invariants=inv, constraints=["Bound"])
        r = vlib.tlc(T / "MCTracker.tla", cfg, "mc", chk.workdir, workers=8, timeout=600)
        vlib.tlc_must_pass(r, "MCTracker")
        chk.add_tlc("MCTracker(MaxIdle=1)", r)
    if "refine" not in parts:
        return
    cfg = vlib.write_cfg(chk.workdir / "refine.cfg", mc_consts(MaxIdle=0, MaxEpoch=2), invariants=["TypeOK", "Conservation"],
                         constraints=["Bound"], properties=["Refines"])
    r = vlib.tlc(T / "MCTracker.tla", cfg, "refine", chk.workdir, workers=8, timeout=600)
    vlib.tlc_must_pass(r, "Tracker => AbstractTracker")
    chk.add_tlc("refinement Tracker => AbstractTracker (MaxIdle=0)", r)
    ws = ("W_NoExpiredUncollected", "W_NoCollected", "W_NoLongTrack", "W_NoOut") if "witness" in parts else ()
    def _w(w):
        cfg = vlib.write_cfg(chk.workdir / f"{w}.cfg", mc_consts(), invariants=[w], constraints=["Bound"])
        return w, vlib.tlc(T / "MCTracker.tla", cfg, w, chk.workdir, workers=2, timeout=300)
    import concurrent.futures as cf
    with cf.ThreadPoolExecutor(max_workers=4) as ex:
        for w, rw in ex.map(_w, ws):
            chk.witness(w, vlib.expect_violation(rw, w))
    if not quick and "extra" in parts:
        cfg = vlib.write_cfg(chk.workdir / "mc-commute.cfg", mc_consts(MaxTracks=2, MaxEpoch=2), invariants=["Commute"],
                             constraints=["Bound"])
        r = vlib.tlc(T / "MCTracker.tla", cfg, "commute", chk.workdir, workers=8, timeout=900)
        vlib.tlc_must_pass(r, "Commute")
        chk.add_tlc("scene bodies commute", r)
        cfg = vlib.write_cfg(chk.workdir / "mc-maha.cfg", mc_consts(Metric="maha", Thr=1000, Confs={900, 500}, MaxEpoch=2),
                             invariants=inv, constraints=["Bound"])
        r = vlib.tlc(T / "MCTracker.tla", cfg, "mc-maha", chk.workdir, workers=8, timeout=900)
        vlib.tlc_must_pass(r, "MCTracker maha")
        chk.add_tlc("MCTracker(maha, 2 confidences)", r)


def generate(chk, name, depth, kind="simple", simulate=None, sim=0, timeout=900, **kw):
    c = dict(BASE)
    c.update({"Periods": {0, 1}, "MaxDets": 2, "D": depth, "Kind": kind, "Sim": sim})
    c.update(kw)
    cfg = vlib.write_cfg(chk.workdir / f"{name}.cfg", c, spec="GSpec", invariants=["Emit"])
    r = vlib.tlc(T / "GenTR.tla", cfg, name, chk.workdir, workers=8, timeout=timeout, simulate=simulate,
                 seed=chk.seed if simulate else None)
    vlib.tlc_must_pass(r, name)
    chk.add_tlc(name, r)
    return r, c


def vh_args(c, kind, shards, focus, voters=2):
    a = ["replay", "tracker", "--kind", kind, "--shards", str(shards), "--voters", str(voters),
         "--history", str(c["H"]), "--max-idle", str(c["MaxIdle"]), "--metric", c["Metric"],
         "--thr", str(c["Thr"] / 1000.0 if c["Metric"] == "iou" else 1.0), "--min-conf", str(c["MinConf"] / 1000.0),
         "--focus", focus]
    return a


def replay(chk, name, r, c, kind, shards, focus, nt_key=None, classify=True, voters=2, stride=1):
    args = vh_args(c, kind, shards, focus, voters)
    rep = vlib.run_vh(args, [r.out], stride=stride)
    if nt_key:
        rep["nontrivial"] = rep["counters"].get(nt_key, 0)
    chk.add_report(f"{name}:{kind}:shards={shards}", rep)
    if classify:
        chk.classify("tracker", args, rep)
    return rep


def standard_plan(chk, focus, nt_key, kinds_quick=("sort",), kinds_thorough=("sort", "batchsort", "visual", "batchvisual")):
    """The R1 runs shared by C01 / C03 / C04 / C13: exhaustive short histories with expiry reachable,
    a Mahalanobis variant, and long random histories (reaching the default periodic collection in thorough)."""
    quick = chk.tier == "quick"
    kinds = kinds_quick if quick else kinds_thorough
    plans = []
    if quick:
        plans.append(("d3-idle0", dict(depth=3, MaxIdle=0)))
        plans.append(("d3-idle1-maha", dict(depth=3, MaxIdle=1, Metric="maha", Thr=1000, MaxDets=1)))
        plans.append(("sim60", dict(depth=60, MaxIdle=1, sim=6, simulate={"num": 12, "depth": 61})))
        # scene 0 = the default-scene entry points (predict, skip_epochs, idle_tracks, current_epoch)
        plans.append(("d3-default-scene", dict(depth=3, MaxIdle=0, Scenes={0, 1}, Confs={900}, MaxDets=1)))
    else:
        plans.append(("d3-idle0", dict(depth=3, MaxIdle=0)))
        plans.append(("d3-idle0-maha", dict(depth=3, MaxIdle=0, Metric="maha", Thr=1000)))
        plans.append(("d3-default-scene", dict(depth=3, MaxIdle=0, Scenes={0, 1}, MaxDets=1)))
        plans.append(("d4-idle1", dict(depth=4, MaxIdle=1, Slots={1}, MaxDets=2, Confs={900, 500})))
        plans.append(("d4-idle1-h1", dict(depth=4, MaxIdle=1, H=1, Confs={900}, MaxDets=1)))
        plans.append(("sim250", dict(depth=250, MaxIdle=2, H=3, Slots={1, 2, 3}, sim=6, simulate={"num": 12, "depth": 251})))
        plans.append(("sim250-maha", dict(depth=250, MaxIdle=1, Metric="maha", Thr=1000, sim=6, simulate={"num": 8, "depth": 251})))
    # configuration sweep: long random histories under option values the other plans do not use (history length, idle
    # limit, IoU threshold, confidence floor, confidences below the floor / between floor and threshold, three slots)
    for j in range(3 if quick else 12):
        maha = j % 3 == 2
        plans.append((f"sweep-{j}", dict(depth=40, sim=6, simulate={"num": 1 if quick else 10, "depth": 41},
                                          H=(1, 3, 4, 2)[j % 4], MaxIdle=(2, 1, 3)[j % 3], Slots={1, 2, 3},
                                          Metric="maha" if maha else "iou", Thr=1000 if maha else (100, 450, 300, 200)[j % 4],
                                          MinConf=(50, 300)[(j // 3) % 2], Confs={900, 500, 200})))
    for pi, (name, kw) in enumerate(plans):
        r, c = generate(chk, name, **kw)
        for i, kind in enumerate(kinds):
            # quick: one shard count per plan, another one for every plan (2, 3, 1, 2, ..)
            for shards in (((2, 3, 1)[pi % 3],) if quick else (1, 2, 3)):
                # quick: the first kind replays everything, further kinds every 8th behaviour of the big enumeration
                stride = 8 if (quick and i > 0 and name.startswith("d3-idle0")) else 1
                replay(chk, name, r, c, kind, shards, focus, nt_key, stride=stride)


def replay_payload(pid, payload):
    rep = vlib.replay_single(payload["vh"], payload["case"], vlib.WORK / pid)
    if rep["mismatches"]:
        print(f"VIOLATION property={pid} replay=  # reproduced: {list(rep['by_sig'])}")
        return 1
    print("replay: no mismatch")
    return 0


VBASE = {"Scenes": {1}, "Slots": {1, 2}, "Confs": {900, 800}, "Cids": {0}, "Metric": "iou", "Thr": 300, "MinConf": 50,
         "MaxIdle": 2, "H": 2, "NShards": 2, "Feats": {1, 2, 3}, "Quals": {30, 70, 90}, "MaxObs": 2, "MinTrackLen": 1,
         "MinVotes": 1, "QUse": 50, "QCollect": 60, "VisThr": 35, "OwnUse": 0, "OwnCollect": 0, "MinArea": 0, "VisKind": "euclid", "Periods": {0}, "MaxDets": 2, "Sim": 0,
         "Kind": "simple", "LifecycleOps": False}


def generate_visual(chk, name, depth, simulate=None, timeout=900, **kw):
    c = dict(VBASE)
    c.update({"D": depth})
    c.update(kw)
    cfg = vlib.write_cfg(chk.workdir / f"{name}.cfg", c, spec="GSpec", invariants=["Emit", "VisInv"])
    r = vlib.tlc(T / "GenVis.tla", cfg, name, chk.workdir, workers=8, timeout=timeout, simulate=simulate,
                 seed=chk.seed if simulate else None)
    vlib.tlc_must_pass(r, name)
    chk.add_tlc(name, r)
    return r, c


def visual_args(c, kind, shards, focus, voters=2):
    return vh_args(c, kind, shards, focus, voters) + ["--max-obs", str(c["MaxObs"]), "--min-track-len", str(c["MinTrackLen"]),
            "--min-votes", str(c["MinVotes"]), "--q-use", str(c["QUse"] / 100.0), "--q-collect", str(c["QCollect"] / 100.0),
            "--vis-thr", str(c["VisThr"] / 10.0), "--own-use", str(c["OwnUse"] / 100.0),
            "--own-collect", str(c["OwnCollect"] / 100.0), "--min-area", str(c["MinArea"]), "--vis-kind", c["VisKind"]]


def replay_visual(chk, name, r, c, kind, shards, focus, nt_key, voters=2, stride=1, extra=()):
    args = visual_args(c, kind, shards, focus, voters) + list(extra)
    rep = vlib.run_vh(args, [r.out], stride=stride)
    rep["nontrivial"] = rep["counters"].get(nt_key, 0)
    chk.add_report(f"{name}:{kind}:shards={shards}", rep)
    chk.classify("tracker", args, rep)
    return rep
