//! impl -> spec: hook traces of the real batch trackers under random delays, for BatchTrace.tla
//! (property C06).  One ndjson line per event: {"seq","ev","a","b"}; first line = configuration.
use crate::common::*;
use crate::drv::*;
use crate::gates::*;
use crate::tracker_replay::slot_box;
use rand::rngs::StdRng;
use rand::{Rng, SeedableRng};
use serde_json::json;
use similari::prelude::*;
use similari::trackers::batch::PredictionBatchRequest;
use similari::trackers::sort::batch_api::BatchSort as BSort;
use similari::trackers::tracker_api::TrackerAPI;
use similari::trackers::visual_sort::batch_api::BatchVisualSort;
use std::io::Write;
use std::sync::mpsc;
use std::time::Duration;

enum Tr {
    S(BSort),
    V(BatchVisualSort),
}

fn run_workload(ctl: &std::sync::Arc<Ctl>, kind: &str, ns: usize, nv: usize, batches: &[Vec<u64>], uid_out: &mpsc::Sender<u64>, getter: bool, seed: u64) {
    let mut cfg = Cfg::default();
    cfg.shards = ns;
    cfg.voters = nv;
    cfg.max_idle = 10;
    let mut t = if kind == "batchsort" {
        Tr::S(BSort::new(ns, nv, 2, 10, PositionalMetricType::IoU(0.3), 0.05, None, 1.0 / 20.0, 1.0 / 160.0))
    } else {
        Tr::V(BatchVisualSort::new(ns, nv, &VisualSortOptions::default().max_idle_epochs(10).kept_history_length(2)
            .positional_metric(PositionalMetricType::IoU(0.3))))
    };
    let uid = match &t {
        Tr::S(x) => x.get_main_store().verif_uid(),
        Tr::V(x) => x.get_main_store().verif_uid(),
    };
    let _ = uid_out.send(uid);
    ctl.start_recording();
    // optional second thread that retrieves the results of every batch (slowly), in batch order
    let (htx, hrx) = mpsc::channel::<(u64, similari::trackers::batch::PredictionBatchResult, usize)>();
    let gctl = ctl.clone();
    let gthread = if getter {
        Some(std::thread::spawn(move || {
            let mut rng = StdRng::seed_from_u64(seed ^ 0x9e77);
            while let Ok((b, res, n)) = hrx.recv() {
                for _ in 0..n {
                    std::thread::sleep(Duration::from_micros(rng.gen_range(0..3000)));
                    gctl.log("g.get.before", &[b, 0]);
                    let (scene, recs) = res.get();
                    gctl.log("g.get.after", &[b, scene, recs.len() as u64]);
                }
            }
        }))
    } else {
        None
    };
    for (bi, scenes) in batches.iter().enumerate() {
        let b = bi as u64 + 1;
        ctl.log("c.predict", &[b, 0]);
        let res = match &mut t {
            Tr::S(x) => {
                let (mut req, res) = PredictionBatchRequest::<(Universal2DBox, Option<i64>)>::new();
                for s in scenes {
                    req.add(*s, (slot_box(1 + (*s as i64 % 2), 900), None));
                }
                if getter {
                    htx.send((b, res.clone(), scenes.len())).unwrap();
                }
                x.predict(req);
                res
            }
            Tr::V(x) => {
                let (mut req, res) = PredictionBatchRequest::<VisualSortObservation>::new();
                for s in scenes {
                    req.add(*s, VisualSortObservation::new(None, None, slot_box(1 + (*s as i64 % 2), 900), None));
                }
                if getter {
                    htx.send((b, res.clone(), scenes.len())).unwrap();
                }
                x.predict(req);
                res
            }
        };
        ctl.log("c.predict.ret", &[b, 0]);
        if !getter {
            for _ in 0..scenes.len() {
                ctl.log("c.get.before", &[b, 0]);
                let (scene, recs) = res.get();
                ctl.log("c.get.after", &[b, scene, recs.len() as u64]);
            }
        }
    }
    drop(htx);
    if let Some(g) = gthread {
        let _ = g.join();
    }
    ctl.log("c.drop", &[0, 0]);
    drop(t);
    ctl.log("c.dropped", &[0, 0]);
}

pub fn main(opts: &Opts) {
    let kind = opts.str("kind", "batchsort");
    let seed = opts.u64("seed", 1);
    let mut rng = StdRng::seed_from_u64(seed);
    let ns = if opts.get("ns").is_some() { opts.usize("ns", 2) } else { rng.gen_range(1..=4) };
    let nv = if opts.get("nv").is_some() { opts.usize("nv", 2) } else { rng.gen_range(1..=4) };
    let nb = opts.usize("batches", 2);
    let max_scenes = opts.usize("scenes", 2);
    let mut batches: Vec<Vec<u64>> = vec![];
    for _ in 0..nb {
        let mut sc: Vec<u64> = (1..=max_scenes as u64).filter(|_| rng.gen_bool(0.8)).collect();
        if sc.is_empty() {
            sc.push(1);
        }
        batches.push(sc);
    }
    if opts.get("pattern").map(|p| p == "aba").unwrap_or(false) {
        // consecutive batches over disjoint scene sets, then the first set again (pipelined submission)
        batches = vec![vec![1, 2], vec![3, 4], vec![1, 2], vec![3, 4], vec![1, 2]];
    }
    if opts.get("pattern").map(|p| p == "aaa").unwrap_or(false) {
        // the same scenes in every batch, submitted back to back (pipelined): what a batch sees of the store is what the
        // previous batch left, however early the next one is submitted
        batches = vec![vec![1, 2, 3], vec![1, 2, 3], vec![1, 2, 3], vec![1, 2, 3]];
    }
    let getter = opts.get("getter").is_some();
    let ctl = Ctl::install();
    ctl.set_delays(seed, opts.u64("delay-us", 500));
    if opts.u64("slow-voters-us", 0) > 0 {
        // every voting job starts late: the next batch is submitted long before the jobs of this one touch the store
        ctl.set_slow_site("v.job.start", opts.u64("slow-voters-us", 0));
    }
    let (utx, urx) = mpsc::channel();
    let (dtx, drx) = mpsc::channel();
    let ctl2 = ctl.clone();
    let kind2 = kind.clone();
    let b2 = batches.clone();
    std::thread::spawn(move || {
        run_workload(&ctl2, &kind2, ns, nv, &b2, &utx, getter, seed);
        let _ = dtx.send(());
    });
    let uid = urx.recv_timeout(Duration::from_secs(20)).unwrap_or(0);
    let hang = drx.recv_timeout(Duration::from_secs(opts.u64("watchdog", 60))).is_err();
    let events = ctl.take_events();
    Ctl::uninstall();
    let out = opts.str("out", "/dev/stdout");
    let mut f = std::io::BufWriter::new(std::fs::File::create(&out).expect("create out"));
    writeln!(f, "{}", json!({"seq": 0, "ev": "config", "a": 0, "b": 0, "ns": ns, "nv": nv, "batches": batches, "kind": kind, "getter": if getter { 1 } else { 0 }})).unwrap();
    let mut n = 0;
    for e in events {
        let (a, b) = match e.site {
            "w.cmd.start" => {
                if e.args[0] != uid {
                    continue;
                }
                (e.args[1], e.args[2])
            }
            "w.cmd.end" | "owned.sent" | "w.dist.scan" => continue,
            "c.get.after" | "g.get.after" => (e.args[0], e.args[1]),
            _ => (e.args.first().copied().unwrap_or(0), e.args.get(1).copied().unwrap_or(0)),
        };
        n += 1;
        writeln!(f, "{}", json!({"seq": n, "ev": e.site, "a": a, "b": b})).unwrap();
    }
    if hang {
        writeln!(f, "{}", json!({"seq": n + 1, "ev": "HANG", "a": 0, "b": 0})).unwrap();
    }
    f.flush().unwrap();
    eprintln!("recorded {} events ns={} nv={} batches={:?} hang={}", n, ns, nv, batches, hang);
    if hang {
        std::process::exit(0);
    }
}
