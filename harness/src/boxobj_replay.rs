//! spec -> impl replay of operation histories on ONE Universal2DBox object (spec/geom/GenObj.tla):
//! intersection, IoU and exclusively-owned shares depend on the current geometry only (C08, C15).
use crate::common::*;
use serde_json::{json, Value};
use similari::prelude::Universal2DBox;
use similari::track::ObservationAttributes;
use similari::utils::clipping::bbox_own_areas::{exclusively_owned_areas, exclusively_owned_areas_normalized_shares};

fn mk(b: &Value) -> Universal2DBox {
    let (x, y, w, h, k) = (jint(b, "x"), jint(b, "y"), jint(b, "w"), jint(b, "h"), jint(b, "k"));
    Universal2DBox::new(
        x as f32 / 2.0,
        y as f32 / 2.0,
        Some(k as f32 * std::f32::consts::FRAC_PI_2),
        w as f32 / h as f32,
        h as f32 / 2.0,
    )
}

pub fn main(opts: &Opts) {
    let focus = opts.str("focus", "all");
    let mut rep = Report::new();
    for_each_case(opts, |idx, c| {
        rep.cases += 1;
        rep.sample(&c);
        let ops: Vec<&str> = jarr(&c, "ops").iter().map(|o| o.as_str().unwrap()).collect();
        // non-trivial: the cache was filled and the geometry changed afterwards
        let gen_at = ops.iter().position(|o| *o == "gen");
        if let Some(g) = gen_at {
            if ops[g + 1..].iter().any(|o| ["turn", "move", "resize"].contains(o)) {
                rep.nontrivial += 1;
            }
        }
        // rebuild the start box: undo the operations on the final geometry
        let fin = jget(&c, "final");
        let (mut x, mut hh, mut k) = (jint(fin, "x"), jint(fin, "h"), jint(fin, "k"));
        for o in ops.iter().rev() {
            match *o {
                "turn" => k -= 1,
                "move" => x -= 2,
                "resize" => hh = if hh == 2 { 4 } else { 2 },
                _ => {}
            }
        }
        let w = jint(fin, "w");
        let start = json!({"x": x, "y": jint(fin, "y"), "w": w, "h": hh, "k": k});
        let r = std::panic::catch_unwind(|| {
            let mut b = mk(&start);
            let mut kk = k;
            for o in &ops {
                match *o {
                    "gen" => {
                        b.gen_vertices();
                    }
                    "turn" => {
                        kk += 1;
                        b.rotate_mut(kk as f32 * std::f32::consts::FRAC_PI_2);
                    }
                    "move" => b.xc += 1.0,
                    "resize" => {
                        // keep the width: new height, new aspect
                        let width = b.aspect * b.height;
                        b.height = if (b.height - 1.0).abs() < 1e-6 { 2.0 } else { 1.0 };
                        b.aspect = width / b.height;
                    }
                    "clone" => b = b.clone(),
                    o => panic!("op {}", o),
                }
            }
            let p = mk(jget(&c, "probe"));
            let i1 = Universal2DBox::intersection(&b, &p);
            let i2 = Universal2DBox::intersection(&p, &b);
            let iou = Universal2DBox::calculate_metric_object(&Some(&b), &Some(&p));
            let own = std::panic::catch_unwind(|| {
                let boxes = [&b, &p];
                let areas = exclusively_owned_areas(&boxes);
                exclusively_owned_areas_normalized_shares(&boxes, &areas)
            });
            // C14: nms over the object itself (with whatever it has cached) and the probe, both rank orders
            let mut nms_out: Vec<(i64, i64, i64, Vec<i64>)> = vec![];
            let mut dets = vec![(b, Some(0.0f32)), (p.clone(), Some(0.0f32))];
            for nc in jarr(&c, "nms") {
                let hi = jint(nc, "hi");
                let t = jarr(nc, "thr");
                dets[0].1 = Some(if hi == 1 { 2.0 } else { 1.0 });
                dets[1].1 = Some(if hi == 1 { 1.0 } else { 2.0 });
                let idx: Vec<i64> = similari::utils::nms::nms(&dets, ji(&t[0]) as f32 / ji(&t[1]) as f32, None)
                    .iter()
                    .map(|x| if std::ptr::eq(*x, &dets[0].0) { 1 } else if std::ptr::eq(*x, &dets[1].0) { 2 } else { 0 })
                    .collect();
                nms_out.push((hi, ji(&t[0]), ji(&t[1]), idx));
            }
            let mut b = dets.swap_remove(0).0;
            // the polygon of the object as it is now (both the fresh and the re-generated one)
            let v1: Vec<(f64, f64)> = b.get_vertices().exterior().points().map(|p| (p.x(), p.y())).collect();
            let mut b2 = b.clone();
            b2.xc = b.xc;
            b.gen_vertices();
            let v2: Vec<(f64, f64)> = b.get_cached_vertices().as_ref().map(|p| p.exterior().points().map(|q| (q.x(), q.y())).collect()).unwrap_or_default();
            (i1, i2, iou, own.ok(), b.area(), v1, v2, nms_out)
        });
        let (i1, i2, iou, own, area, v1, v2, nms_out) = match r {
            Ok(x) => x,
            Err(_) => {
                rep.mismatch("boxobj:panic", idx, &c, json!({}));
                return;
            }
        };
        let exp_i = jint(&c, "inter16") as f64 / 16.0;
        let exp_u = jint(&c, "union16") as f64 / 16.0;
        let tol = |e: f64| 1e-4f64.max(e.abs() * 1e-5);
        if focus == "c19" || focus == "all" {
            // vertices in quarter units: every expected corner is a corner of the polygon, and nothing else is
            let exp: Vec<(f64, f64)> = jarr(&c, "verts").iter().map(|p| (ji(&p[0]) as f64 / 4.0, ji(&p[1]) as f64 / 4.0)).collect();
            for (name, v) in [("get_vertices", &v1), ("gen_vertices", &v2)] {
                let ok = exp.iter().all(|e| v.iter().any(|q| (q.0 - e.0).abs() < 1e-3 && (q.1 - e.1).abs() < 1e-3))
                    && v.iter().all(|q| exp.iter().any(|e| (q.0 - e.0).abs() < 1e-3 && (q.1 - e.1).abs() < 1e-3));
                if !ok {
                    rep.mismatch(&format!("boxobj:{}:polygon", name), idx, &c, json!({"spec": exp, "impl": v}));
                    return;
                }
            }
        }
        if focus == "c19" {
            return;
        }
        if focus == "c14" || focus == "all" {
            for (nc, got) in jarr(&c, "nms").iter().zip(nms_out.iter()) {
                let exp: Vec<i64> = jarr(nc, "out").iter().map(ji).collect();
                if exp != got.3 {
                    rep.mismatch("boxobj:nms", idx, &c, json!({"object_ranked_higher": got.0, "thr": [got.1, got.2], "spec": exp, "impl": got.3}));
                    return;
                }
            }
        }
        if focus == "c14" {
            return;
        }
        if focus != "c15" {
            if (area as f64 - jint(&c, "area16") as f64 / 16.0).abs() > tol(area as f64) {
                rep.mismatch("boxobj:area", idx, &c, json!({"impl": area}));
                return;
            }
            if !(i1.is_finite() && i2.is_finite()) || (i1 - exp_i).abs() > tol(exp_i) || (i2 - exp_i).abs() > tol(exp_i) {
                rep.mismatch("boxobj:intersection", idx, &c, json!({"spec": exp_i, "impl": [i1, i2]}));
                return;
            }
            let exp_iou = exp_i / exp_u;
            match iou {
                Some(v) => {
                    if !((v as f64 - exp_iou).abs() <= 1e-4) {
                        rep.mismatch("boxobj:iou", idx, &c, json!({"spec": exp_iou, "impl": v}));
                        return;
                    }
                }
                None => {
                    if exp_iou > 1e-6 {
                        rep.mismatch("boxobj:iou:absent", idx, &c, json!({"spec": exp_iou}));
                        return;
                    }
                }
            }
        }
        if focus != "c08" {
            match own {
                None => {
                    rep.mismatch("boxobj:own:panic", idx, &c, json!({}));
                }
                Some(sh) => {
                    let cells = jarr(&c, "cells");
                    let o = jarr(&c, "own");
                    for j in 0..2 {
                        let e = ji(&o[j]) as f64 / ji(&cells[j]) as f64;
                        if (sh[j] as f64 - e).abs() > 1e-3 {
                            rep.mismatch("boxobj:own:share", idx, &c, json!({"spec": e, "impl": sh, "box": j}));
                            return;
                        }
                    }
                }
            }
        }
    });
    rep.finish();
}
