//! Shared plumbing of the harness: case input (TLC output or ndjson), reports.
use serde_json::{json, Map, Value};
use std::collections::BTreeMap;
use std::io::{BufRead, BufReader};

pub struct Opts {
    pub kv: BTreeMap<String, String>,
    pub files: Vec<String>,
}

impl Opts {
    pub fn parse(args: &[String]) -> Opts {
        let mut kv = BTreeMap::new();
        let mut files = vec![];
        let mut i = 0;
        while i < args.len() {
            let a = &args[i];
            if let Some(k) = a.strip_prefix("--") {
                if let Some((k, v)) = k.split_once('=') {
                    kv.insert(k.to_string(), v.to_string());
                } else if i + 1 < args.len() {
                    kv.insert(k.to_string(), args[i + 1].clone());
                    i += 1;
                } else {
                    kv.insert(k.to_string(), "1".to_string());
                }
            } else {
                files.push(a.clone());
            }
            i += 1;
        }
        Opts { kv, files }
    }
    pub fn get(&self, k: &str) -> Option<&str> {
        self.kv.get(k).map(|s| s.as_str())
    }
    pub fn usize(&self, k: &str, d: usize) -> usize {
        self.get(k).map(|v| v.parse().expect("int option")).unwrap_or(d)
    }
    pub fn u64(&self, k: &str, d: u64) -> u64 {
        self.get(k).map(|v| v.parse().expect("int option")).unwrap_or(d)
    }
    pub fn f64(&self, k: &str, d: f64) -> f64 {
        self.get(k).map(|v| v.parse().expect("float option")).unwrap_or(d)
    }
    pub fn str(&self, k: &str, d: &str) -> String {
        self.get(k).unwrap_or(d).to_string()
    }
}

/// Parses one input line: either a TLC `<<"REPLAY", "<escaped json>">>` line or plain JSON.
pub fn parse_line(line: &str) -> Option<Value> {
    let line = line.trim_end();
    if let Some(rest) = line.strip_prefix("<<\"REPLAY\", ") {
        let lit = rest.strip_suffix(">>")?;
        let s: String = serde_json::from_str(lit).ok()?;
        serde_json::from_str(&s).ok()
    } else if line.starts_with('{') || line.starts_with('[') {
        serde_json::from_str(line).ok()
    } else {
        None
    }
}

/// Iterates over the cases of the input files; `slice = (i, n)` keeps case k iff k % n == i.
pub fn for_each_case<F: FnMut(usize, Value)>(opts: &Opts, mut f: F) {
    let (si, sn) = match opts.get("slice") {
        Some(s) => {
            let (a, b) = s.split_once('/').expect("slice i/n");
            (a.parse::<usize>().unwrap(), b.parse::<usize>().unwrap())
        }
        None => (0, 1),
    };
    let limit = opts.usize("limit", usize::MAX);
    let mut k = 0usize;
    for file in &opts.files {
        let rd = BufReader::with_capacity(1 << 20, std::fs::File::open(file).expect("open input"));
        for line in rd.lines() {
            let line = line.expect("read");
            if !(line.starts_with("<<\"REPLAY\"") || line.starts_with('{') || line.starts_with('[')) {
                continue;
            }
            let idx = k;
            k += 1;
            if idx % sn != si {
                continue;
            }
            if idx >= limit {
                return;
            }
            match parse_line(&line) {
                Some(v) => f(idx, v),
                None => {
                    eprintln!("vh: unparsable case line {}", idx);
                    std::process::exit(2);
                }
            }
        }
    }
}

#[derive(Default)]
pub struct Report {
    pub cases: u64,
    pub steps: u64,
    pub nontrivial: u64,
    pub mismatches: u64,
    pub by_sig: BTreeMap<String, (u64, Vec<Value>)>,
    pub samples: Vec<Value>,
    pub counters: BTreeMap<String, u64>,
    pub keep: usize,
}

impl Report {
    pub fn new() -> Self {
        Report { keep: 3, ..Default::default() }
    }
    pub fn count(&mut self, k: &str, n: u64) {
        *self.counters.entry(k.to_string()).or_insert(0) += n;
    }
    pub fn sample(&mut self, v: &Value) {
        if self.samples.len() < 2 {
            self.samples.push(v.clone());
        }
    }
    /// Records a disagreement between specification and implementation.
    pub fn mismatch(&mut self, sig: &str, idx: usize, case: &Value, detail: Value) {
        self.mismatches += 1;
        let keep = self.keep;
        let e = self.by_sig.entry(sig.to_string()).or_insert((0, vec![]));
        e.0 += 1;
        if e.1.len() < keep {
            e.1.push(json!({"index": idx, "case": case, "detail": detail}));
        }
    }
    pub fn finish(self) {
        let mut m = Map::new();
        m.insert("cases".into(), json!(self.cases));
        m.insert("steps".into(), json!(self.steps));
        m.insert("nontrivial".into(), json!(self.nontrivial));
        m.insert("mismatches".into(), json!(self.mismatches));
        m.insert("counters".into(), json!(self.counters));
        m.insert("samples".into(), json!(self.samples));
        let sigs: Map<String, Value> = self
            .by_sig
            .into_iter()
            .map(|(k, (n, ex))| (k, json!({"count": n, "examples": ex})))
            .collect();
        m.insert("by_sig".into(), Value::Object(sigs));
        println!("{}", Value::Object(m));
    }
}

pub fn jget<'a>(v: &'a Value, k: &str) -> &'a Value {
    v.get(k).unwrap_or(&Value::Null)
}
pub fn ji(v: &Value) -> i64 {
    v.as_i64().unwrap_or_else(|| panic!("expected int, got {}", v))
}
pub fn jint(v: &Value, k: &str) -> i64 {
    ji(jget(v, k))
}
pub fn jstr<'a>(v: &'a Value, k: &str) -> &'a str {
    jget(v, k).as_str().unwrap_or_else(|| panic!("expected string at {} in {}", k, v))
}
pub fn jbool(v: &Value, k: &str) -> bool {
    jget(v, k).as_bool().unwrap_or_else(|| panic!("expected bool at {} in {}", k, v))
}
pub fn jarr<'a>(v: &'a Value, k: &str) -> &'a Vec<Value> {
    static EMPTY: Vec<Value> = Vec::new();
    match jget(v, k) {
        Value::Array(a) => a,
        Value::Null => &EMPTY,
        o => panic!("expected array at {} got {}", k, o),
    }
}
/// Sorted copy of an array (canonical JSON text order) for set / bag comparison.
pub fn sorted(v: &[Value]) -> Vec<Value> {
    let mut x: Vec<(String, Value)> = v.iter().map(|e| (e.to_string(), e.clone())).collect();
    x.sort_by(|a, b| a.0.cmp(&b.0));
    x.into_iter().map(|p| p.1).collect()
}
