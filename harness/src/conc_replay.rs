//! Distance queries of the real sharded store under forced (TLC-chosen) or randomly delayed
//! schedules - property C10 (spec/conc/StoreConc.tla).
use crate::common::*;
use crate::doubles::*;
use crate::gates::*;
use crate::store_replay::{DStore, DTrack};
use rand::rngs::StdRng;
use rand::{Rng, SeedableRng};
use serde_json::{json, Value};
use similari::prelude::{ObservationBuilder, TrackBuilder, TrackStoreBuilder};
use std::sync::atomic::Ordering;
use std::sync::mpsc;
use std::sync::Arc;
use std::time::Duration;

fn obs_of(t: &Value, cls: usize) -> Vec<i64> {
    // obs is {"0": [...], "1": [...]} (TLC function) or [[...],[...]] (recorded scenario)
    match jget(t, "obs") {
        Value::Object(m) => m.get(&cls.to_string()).and_then(|v| v.as_array()).map(|a| a.iter().map(ji).collect()).unwrap_or_default(),
        Value::Array(a) => a.get(cls).and_then(|v| v.as_array()).map(|a| a.iter().map(ji).collect()).unwrap_or_default(),
        _ => vec![],
    }
}

fn build(plan: &Arc<Plan>, t: &Value) -> DTrack {
    let mut attrs = Attrs::new(plan.clone());
    attrs.tag = jint(t, "tag");
    attrs.st = St::parse(jstr(t, "st"));
    let mut b = TrackBuilder::new(jint(t, "id") as u64)
        .attributes(attrs)
        .metric(Metric::new(100, plan.clone()))
        .notifier(CountNotifier::default());
    for cls in 0..2usize {
        for v in obs_of(t, cls) {
            b = b.observation(ObservationBuilder::new(cls as u64).observation_attributes(Val(v)).build());
        }
    }
    b.build().expect("build track")
}

fn owned_flag(sc: &Value) -> bool {
    jbool(sc, "owned")
}

pub struct Outcome {
    pub ok: Vec<Value>,
    pub err: Vec<Value>,
    pub store_ids: Vec<u64>,
    pub hang: bool,
    pub stuck: usize,
}

/// Runs one query on a fresh store; `sched` = tokens ("c" or shard number) to force, or None.
pub fn run_query(ctl: &Arc<Ctl>, sc: &Value, ns: usize, sched: Option<&Vec<Value>>, delays: Option<(u64, u64)>, use_iter: bool, abandon: bool, hold_ms: u64) -> Outcome {
    let plan = Plan::new();
    plan.metric_limit.store(jint(sc, "limit"), Ordering::SeqCst);
    plan.post_best.store(sc.get("post").and_then(|p| p.as_str()) == Some("best"), Ordering::SeqCst);
    let mut store: DStore = TrackStoreBuilder::new(ns)
        .default_attributes(Attrs::new(plan.clone()))
        .metric(Metric::new(100, plan.clone()))
        .notifier(CountNotifier::default())
        .build();
    for t in jarr(sc, "tracks") {
        store.add_track(build(&plan, t)).expect("add");
    }
    // merge histories are no part of a distance query (StoreConc.tla has no such component): in half of the scenarios the
    // first stored track has, before the query, absorbed the HISTORY of an external track (one observation of a class no scenario queries) that carries
    // the id of a candidate of the query (nothing else changes: no observation is merged)
    let stored: Vec<&Value> = jarr(sc, "tracks").iter().collect();
    let cands = jarr(sc, "cands");
    if !stored.is_empty() && !cands.is_empty() && (stored.len() + cands.len() + jint(sc, "limit") as usize) % 2 == 0 {
        let first = jint(stored[0], "id");
        if let Some(cid) = cands.iter().map(|c| jint(c, "id")).find(|c| *c != first) {
            // (a merge that merges nothing leaves the history alone: the helper carries one observation of a class no
            //  scenario queries)
            let mut attrs = Attrs::new(plan.clone());
            attrs.tag = jint(stored[0], "tag");
            attrs.st = St::parse(jstr(stored[0], "st"));
            let helper = TrackBuilder::new(cid as u64)
                .attributes(attrs)
                .metric(Metric::new(100, plan.clone()))
                .notifier(CountNotifier::default())
                .observation(ObservationBuilder::new(7).observation_attributes(Val(1)).build())
                .build()
                .expect("helper track");
            store.merge_external(first as u64, &helper, None, true).expect("history merge");
        }
    }
    let owned = jbool(sc, "owned");
    let cls = jint(sc, "cls") as u64;
    let baked = jbool(sc, "baked");
    let mut cand_ids: Vec<u64> = jarr(sc, "cands").iter().map(|c| jint(c, "id") as u64).collect();
    if let Some(k) = sc.get("absent").map(ji) {
        // an id that is not stored, listed among the owned candidates (before the k-th one): the query is that of the
        // stored ones (the specification's scenario does not change)
        if k > 0 && owned_flag(sc) {
            cand_ids.insert((k as usize - 1).min(cand_ids.len()), 77);
        }
    }
    let ext: Vec<DTrack> = if owned && !abandon { vec![] } else { jarr(sc, "cands").iter().map(|c| build(&plan, c)).collect() };
    ctl.reset();
    if let Some((seed, us)) = delays {
        ctl.set_delays(seed, us);
    }
    let uid = store.verif_uid();
    if sched.is_some() {
        ctl.start_gating(uid);
    }
    let (tx, rx) = mpsc::channel();
    let h = std::thread::spawn(move || {
        if abandon {
            // an earlier query whose response is dropped without being read must not disturb this one
            let (o, e) = store.foreign_track_distances(ext.clone(), cls, baked);
            drop(o);
            drop(e);
        }
        let (ok, err) = if owned {
            store.owned_track_distances(&cand_ids, cls, baked)
        } else {
            store.foreign_track_distances(ext, cls, baked)
        };
        // both consumption modes of a distance response are part of the API: all() and the iterators
        let (ok, err) = if use_iter {
            (ok.into_iter().collect::<Vec<_>>(), err.into_iter().collect::<Vec<_>>())
        } else {
            (ok.all(), err.all())
        };
        let _ = tx.send((ok, err, store));
    });
    let mut stuck = 0;
    if let Some(s) = sched {
        for (ti, tok) in s.iter().enumerate() {
            // a slow worker: the last step of the schedule is granted late (a schedule like any other)
            if hold_ms > 0 && ti + 1 == s.len() {
                std::thread::sleep(Duration::from_millis(hold_ms));
            }
            let key = match tok {
                Value::String(c) if c == "c" => {
                    if !owned {
                        continue;
                    }
                    (CALLER, 0)
                }
                v => (WORKER, ji(v) as u64),
            };
            if !ctl.grant_and_wait(key, Duration::from_secs(3)) {
                stuck += 1;
                break;
            }
        }
        ctl.open_all();
    }
    let res = rx.recv_timeout(Duration::from_secs(20));
    ctl.open_all();
    match res {
        Ok((ok, err, store)) => {
            let _ = h.join();
            let okv: Vec<Value> = ok
                .iter()
                .map(|r| json!({"from": r.from, "to": r.to, "d": r.attribute_metric.as_ref().map(|m| m.d).unwrap_or(-1)}))
                .collect();
            let mut errv = vec![];
            for e in err {
                match e {
                    Err(e) => match e.downcast_ref::<similari::Errors>() {
                        Some(similari::Errors::ObservationForClassNotFound(a, b, _)) => errv.push(json!({"from": a, "to": b})),
                        other => errv.push(json!({"other": format!("{:?}", other)})),
                    },
                    Ok(_) => errv.push(json!({"other": "ok-in-error-stream"})),
                }
            }
            let mut ids = vec![];
            for s in 0..ns {
                for (id, t) in store.get_store(s).iter() {
                    ids.push(*id);
                    if (*id as usize) % ns != s || t.get_track_id() != *id {
                        ids.push(u64::MAX);
                    }
                }
            }
            ids.sort();
            Outcome { ok: sorted(&okv), err: sorted(&errv), store_ids: ids, hang: false, stuck }
        }
        Err(_) => Outcome { ok: vec![], err: vec![], store_ids: vec![], hang: true, stuck },
    }
}

fn strip(v: &[Value], keys: &[&str]) -> Vec<Value> {
    sorted(&v.iter().map(|e| {
        let mut m = serde_json::Map::new();
        for k in keys {
            m.insert(k.to_string(), jget(e, k).clone());
        }
        Value::Object(m)
    }).collect::<Vec<_>>())
}

pub fn main(opts: &Opts) {
    let ctl = Ctl::install();
    let mut rep = Report::new();
    let hold_ms = opts.u64("hold-ms", 0);
    for_each_case(opts, |idx, c| {
        rep.cases += 1;
        rep.steps += jarr(&c, "sched").len() as u64;
        rep.sample(&c);
        let sc = jget(&c, "sc");
        let ns = jint(&c, "ns") as usize;
        let o = run_query(&ctl, sc, ns, Some(jarr(&c, "sched")), None, idx % 2 == 1, false, hold_ms);
        rep.count(if idx % 2 == 1 { "consumed_by_iterator" } else { "consumed_by_all" }, 1);
        let sched = jarr(&c, "sched");
        // non-trivial: >= 2 candidates and an arrival order different from shard order, or a caller step between worker steps
        let toks: Vec<String> = sched.iter().map(|t| t.to_string()).collect();
        let mut srt = toks.clone();
        srt.sort();
        if jarr(sc, "cands").len() >= 2 && toks != srt {
            rep.nontrivial += 1;
        }
        if o.stuck > 0 {
            rep.count("schedule_not_realised", 1);
        }
        if o.hang {
            rep.mismatch("conc:hang", idx, &c, json!({}));
            return;
        }
        let exp_ok = strip(jarr(&c, "ok"), &["d", "from", "to"]);
        let exp_err = strip(jarr(&c, "err"), &["from", "to"]);
        let mut exp_ids: Vec<u64> = jarr(sc, "tracks").iter().map(|t| jint(t, "id") as u64).collect();
        exp_ids.sort();
        let got_ok = strip(&o.ok, &["d", "from", "to"]);
        if got_ok != exp_ok {
            let selfpair = o.ok.iter().any(|e| jget(e, "from") == jget(e, "to"));
            let sig = if selfpair { "conc:ok:self-pair" } else if got_ok.len() < exp_ok.len() { "conc:ok:missing" } else { "conc:ok:differs" };
            rep.mismatch(sig, idx, &c, json!({"spec": exp_ok, "impl": got_ok}));
        } else if o.err != exp_err {
            rep.mismatch("conc:err", idx, &c, json!({"spec": exp_err, "impl": o.err}));
        } else if o.store_ids != exp_ids {
            rep.mismatch("conc:store-changed", idx, &c, json!({"spec": exp_ids, "impl": o.store_ids}));
        }
    });
    Ctl::uninstall();
    rep.finish();
}

/// impl -> spec: random scenarios under random delays; one ndjson line per query for StoreConcTrace.tla
pub fn record(opts: &Opts) {
    let n = opts.usize("n", 100);
    let seed = opts.u64("seed", 1);
    let max_us = opts.u64("delay-us", 300);
    let mut rng = StdRng::seed_from_u64(seed);
    let ctl = Ctl::install();
    let out = opts.str("out", "/dev/stdout");
    let mut f = std::io::BufWriter::new(std::fs::File::create(&out).expect("create out"));
    use std::io::Write;
    let mut hangs = 0;
    for k in 0..n {
        let ns = rng.gen_range(1..=4usize);
        let nt = rng.gen_range(1..=6usize);
        let mut tracks = vec![];
        for id in 1..=nt {
            let o0: Vec<i64> = (0..rng.gen_range(0..3)).map(|_| rng.gen_range(1..9)).collect();
            let o1: Vec<i64> = (0..rng.gen_range(0..2)).map(|_| rng.gen_range(1..9)).collect();
            let st = ["p", "r", "r", "w"][rng.gen_range(0..4)];
            tracks.push(json!({"id": id, "tag": rng.gen_range(0..2), "st": st, "obs": [o0, o1]}));
        }
        let owned = rng.gen_bool(0.6);
        let nc = rng.gen_range(1..=3usize);
        let mut cands = vec![];
        if owned {
            let mut ids: Vec<usize> = (0..nt).collect();
            for _ in 0..nc.min(nt) {
                let i = rng.gen_range(0..ids.len());
                cands.push(tracks[ids.remove(i)].clone());
            }
        } else {
            for j in 0..nc {
                let o0: Vec<i64> = (0..rng.gen_range(0..3)).map(|_| rng.gen_range(1..9)).collect();
                let o1: Vec<i64> = (0..rng.gen_range(0..2)).map(|_| rng.gen_range(1..9)).collect();
                cands.push(json!({"id": 100 + j, "tag": rng.gen_range(0..2), "st": "p", "obs": [o0, o1]}));
            }
        }
        let limit = [1, 3, 10][rng.gen_range(0..3)];
        let sc = json!({"tracks": tracks, "cands": cands, "owned": owned, "cls": rng.gen_range(0..2),
                        "baked": rng.gen_bool(0.4), "limit": limit, "post": if k % 3 == 2 { "best" } else { "all" },
                        "absent": if owned && k % 4 == 1 { 1 + (k / 4) % 2 } else { 0 }});
        let o = run_query(&ctl, &sc, ns, None, Some((seed * 1000 + k as u64, max_us)), k % 2 == 1, k % 5 == 4, 0);
        if o.hang {
            hangs += 1;
        }
        let line = json!({"ev": "query", "ns": ns, "sc": sc, "ok": strip(&o.ok, &["d", "from", "to"]), "err": o.err,
                          "store": o.store_ids, "hang": if o.hang { 1 } else { 0 }});
        writeln!(f, "{}", line).unwrap();
    }
    Ctl::uninstall();
    eprintln!("recorded {} queries, {} hangs", n, hangs);
}
