//! (stub - filled in by the corresponding check)
use crate::common::*;

pub fn main(_opts: &Opts) {
    eprintln!("vh: engine not built yet");
    std::process::exit(2);
}
