//! spec -> impl replay of the spatio-temporal constraint table (spec/calc/GenC.tla) - property C20,
//! calculator half.  Every case is a table given as two `add_constraints` calls plus the admission
//! verdict of every probe (gap, distance) computed by TLC from Constraints.tla; limits and distances
//! arrive in half units (exact in f32).
use crate::common::*;
use serde_json::{json, Value};
use similari::trackers::spatio_temporal_constraints::SpatioTemporalConstraints;
use std::collections::BTreeSet;

fn pairs(v: &Value) -> Vec<(usize, f32)> {
    v.as_array()
        .expect("call = array of pairs")
        .iter()
        .map(|p| (ji(&p[0]) as usize, ji(&p[1]) as f32 / 2.0))
        .collect()
}

pub fn replay_case(idx: usize, c: &Value, rep: &mut Report, flip: bool) {
    rep.cases += 1;
    rep.sample(c);
    let calls: Vec<Vec<(usize, f32)>> = jarr(c, "calls").iter().map(pairs).collect();
    let dists: Vec<i64> = jarr(c, "dists").iter().map(ji).collect();
    let adm = jarr(c, "adm");
    // non-trivial: a gap configured twice, or a probe gap strictly between two configured gaps
    let all: Vec<usize> = calls.iter().flatten().map(|p| p.0).collect();
    let gaps: BTreeSet<usize> = all.iter().cloned().collect();
    let dup = gaps.len() < all.len();
    let between = (0..adm.len()).any(|g| gaps.iter().any(|a| *a < g) && gaps.iter().any(|b| *b > g));
    if dup || between {
        rep.nontrivial += 1;
    }
    if dup {
        rep.count("duplicated_gap", 1);
    }
    if between {
        rep.count("probe_between_gaps", 1);
    }
    let built = std::panic::catch_unwind(|| {
        // first call through the builder-style API, the rest through add_constraints
        let mut t = SpatioTemporalConstraints::default();
        for (i, call) in calls.iter().enumerate() {
            if i == 0 {
                t = t.constraints(call);
            } else {
                t.add_constraints(call.clone());
            }
        }
        t
    });
    let t = match built {
        Ok(t) => t,
        Err(_) => {
            rep.mismatch("add_constraints:panic", idx, c, json!({}));
            return;
        }
    };
    for (g, row) in adm.iter().enumerate() {
        for (j, e) in row.as_array().expect("adm row").iter().enumerate() {
            rep.steps += 1;
            let d = dists[j] as f32 / 2.0;
            let exp = (ji(e) == 1) ^ flip;
            match std::panic::catch_unwind(|| t.validate(g, d)) {
                Ok(got) if got == exp => {}
                Ok(got) => {
                    let sig = format!("validate:spec={}:impl={}", exp, got);
                    rep.mismatch(&sig, idx, c, json!({"gap": g, "dist": d, "limit_half_units": jarr(c, "lim")[g]}));
                    return;
                }
                Err(_) => {
                    rep.mismatch("validate:panic", idx, c, json!({"gap": g, "dist": d}));
                    return;
                }
            }
        }
    }
}

pub fn main(opts: &Opts) {
    // --perturb 1: liveness demonstration only (expects the opposite verdict for every probe)
    let flip = opts.usize("perturb", 0) == 1;
    let mut rep = Report::new();
    for_each_case(opts, |idx, c| replay_case(idx, &c, &mut rep, flip));
    rep.finish();
}
