//! Attribute / metric / notifier doubles with a fault plan, as modelled in spec/store/Track.tla.
use anyhow::{anyhow, Result};
use similari::track::notify::ChangeNotifier;
use similari::track::{
    LookupRequest, MetricOutput, MetricQuery, Observation, ObservationAttributes,
    ObservationMetric, ObservationsDb, TrackAttributes, TrackAttributesUpdate, TrackStatus,
};
use std::sync::atomic::{AtomicBool, AtomicI64, AtomicU64, Ordering};
use std::sync::Arc;

/// Fault plan shared by every object cloned from one store (or one test universe).
#[derive(Debug, Default)]
pub struct Plan {
    /// the next attribute merge fails
    pub attr_merge_fails: AtomicBool,
    /// the k-th optimise call from now fails (0 = none)
    pub opt_fail_at: AtomicI64,
    /// metric drops pairs whose attribute distance exceeds this
    pub metric_limit: AtomicI64,
    /// post-processing of the results of one (candidate, stored track) pair keeps the smallest distance(s) only
    pub post_best: AtomicBool,
    /// a merge in progress is to be probed: optimise (merge flavour) raises `in_merge` and lingers for a moment
    pub probe_merge: AtomicBool,
    pub in_merge: AtomicBool,
}

impl Plan {
    pub fn new() -> Arc<Plan> {
        let p = Plan::default();
        p.metric_limit.store(i64::MAX, Ordering::SeqCst);
        Arc::new(p)
    }
    pub fn clear(&self) {
        self.attr_merge_fails.store(false, Ordering::SeqCst);
        self.opt_fail_at.store(0, Ordering::SeqCst);
    }
    pub fn set_fault(&self, fault: &str) {
        self.clear();
        match fault {
            "none" => {}
            "attr" => self.attr_merge_fails.store(true, Ordering::SeqCst),
            f if f.starts_with("opt") => {
                let k: i64 = f[3..].parse().expect("opt<k>");
                self.opt_fail_at.store(k, Ordering::SeqCst)
            }
            o => panic!("unknown fault {}", o),
        }
    }
}

#[derive(Clone, Copy, Debug, PartialEq, Eq)]
pub enum St {
    P,
    R,
    W,
    E,
}
impl St {
    pub fn name(&self) -> &'static str {
        match self {
            St::P => "p",
            St::R => "r",
            St::W => "w",
            St::E => "e",
        }
    }
    pub fn parse(s: &str) -> St {
        match s {
            "p" => St::P,
            "r" => St::R,
            "w" => St::W,
            "e" => St::E,
            o => panic!("status {}", o),
        }
    }
}

#[derive(Clone, Debug)]
pub struct Attrs {
    pub cnt: i64,
    pub tag: i64,
    pub st: St,
    pub plan: Arc<Plan>,
}
impl Attrs {
    pub fn new(plan: Arc<Plan>) -> Self {
        Attrs { cnt: 0, tag: 0, st: St::P, plan }
    }
}

#[derive(Clone, Debug)]
pub enum Upd {
    Ok,
    Ready,
    Wasted,
    Tag1,
    Fail,
    /// from now on `baked()` itself fails
    Broken,
    /// direct assignment (test set-up of C10 stores)
    Set { tag: i64, st: St },
}
impl Upd {
    pub fn parse(s: &str) -> Option<Upd> {
        match s {
            "none" => None,
            "ok" => Some(Upd::Ok),
            "ready" => Some(Upd::Ready),
            "wasted" => Some(Upd::Wasted),
            "tag1" => Some(Upd::Tag1),
            "fail" => Some(Upd::Fail),
            "broken" => Some(Upd::Broken),
            o => panic!("update {}", o),
        }
    }
}
impl TrackAttributesUpdate<Attrs> for Upd {
    fn apply(&self, a: &mut Attrs) -> Result<()> {
        match self {
            Upd::Fail => return Err(anyhow!("update fails")),
            Upd::Ok => {}
            Upd::Ready => a.st = St::R,
            Upd::Wasted => a.st = St::W,
            Upd::Tag1 => a.tag = 1,
            Upd::Broken => a.st = St::E,
            Upd::Set { tag, st } => {
                a.tag = *tag;
                a.st = *st;
                return Ok(());
            }
        }
        a.cnt += 1;
        Ok(())
    }
}

#[derive(Clone, Debug)]
pub struct TagLookup(pub i64);
impl LookupRequest<Attrs, Val> for TagLookup {
    fn lookup(&self, a: &Attrs, _o: &ObservationsDb<Val>, _h: &[u64]) -> bool {
        a.tag == self.0
    }
}

impl TrackAttributes<Attrs, Val> for Attrs {
    type Update = Upd;
    type Lookup = TagLookup;
    fn compatible(&self, other: &Attrs) -> bool {
        self.tag <= other.tag
    }
    fn merge(&mut self, other: &Attrs) -> Result<()> {
        if self.plan.attr_merge_fails.swap(false, Ordering::SeqCst) {
            // half-done change that the library must roll back
            self.cnt += 1000;
            // the error the library itself defines for tracks that do not go together: a failure like any other
            return Err(similari::Errors::IncompatibleAttributes.into());
        }
        self.cnt += other.cnt;
        Ok(())
    }
    fn baked(&self, _o: &ObservationsDb<Val>) -> Result<TrackStatus> {
        match self.st {
            St::P => Ok(TrackStatus::Pending),
            St::R => Ok(TrackStatus::Ready),
            St::W => Ok(TrackStatus::Wasted),
            St::E => Err(anyhow!("status unavailable")),
        }
    }
}

/// Observation attribute: one integer (0 is never used by the spec for a present value).
#[derive(Clone, Debug, PartialEq, PartialOrd)]
pub struct Val(pub i64);
#[derive(Clone, Debug, PartialEq)]
pub struct MObj {
    pub d: i64,
    pub calls: u64,
}
impl ObservationAttributes for Val {
    type MetricObject = MObj;
    fn calculate_metric_object(l: &Option<&Self>, r: &Option<&Self>) -> Option<MObj> {
        match (l, r) {
            (Some(a), Some(b)) => Some(MObj { d: (a.0 - b.0).abs(), calls: 0 }),
            _ => None,
        }
    }
}

pub const PROBE_VAL: i64 = -777;

#[derive(Clone, Debug)]
pub struct Metric {
    pub calls: u64,
    pub cap: usize,
    pub plan: Arc<Plan>,
}
impl Metric {
    pub fn new(cap: usize, plan: Arc<Plan>) -> Self {
        Metric { calls: 0, cap, plan }
    }
}
impl ObservationMetric<Attrs, Val> for Metric {
    fn metric(&self, mq: &MetricQuery<'_, Attrs, Val>) -> MetricOutput<MObj> {
        let a = mq.candidate_observation.attr().as_ref();
        let b = mq.track_observation.attr().as_ref();
        // probe: exposes the candidate's metric state
        if let Some(Val(PROBE_VAL)) = b {
            return Some((Some(MObj { d: 0, calls: self.calls }), None));
        }
        let am = Val::calculate_metric_object(&a, &b);
        if let Some(m) = &am {
            if m.d > self.plan.metric_limit.load(Ordering::SeqCst) {
                return None;
            }
        }
        let fd = match (mq.candidate_observation.feature(), mq.track_observation.feature()) {
            (Some(x), Some(y)) => Some(similari::distance::euclidean(x, y)),
            _ => None,
        };
        Some((am, fd))
    }

    fn postprocess_distances(&self, unfiltered: Vec<similari::track::ObservationMetricOk<Val>>) -> Vec<similari::track::ObservationMetricOk<Val>> {
        if !self.plan.post_best.load(Ordering::SeqCst) {
            return unfiltered;
        }
        let best = unfiltered.iter().filter_map(|r| r.attribute_metric.as_ref().map(|m| m.d)).min();
        unfiltered.into_iter().filter(|r| r.attribute_metric.as_ref().map(|m| Some(m.d) == best).unwrap_or(true)).collect()
    }

    fn optimize(
        &mut self,
        _cls: u64,
        _hist: &[u64],
        attrs: &mut Attrs,
        obs: &mut Vec<Observation<Val>>,
        _prev: usize,
        _is_merge: bool,
    ) -> Result<()> {
        self.calls += 1;
        if _is_merge && self.plan.probe_merge.load(Ordering::SeqCst) {
            self.plan.in_merge.store(true, Ordering::SeqCst);
            std::thread::sleep(std::time::Duration::from_millis(3));
        }
        let k = self.plan.opt_fail_at.load(Ordering::SeqCst);
        if k > 0 {
            self.plan.opt_fail_at.store(k - 1, Ordering::SeqCst);
            if k == 1 {
                // half-done changes that the library must roll back
                obs.clear();
                attrs.cnt += 1000;
                return Err(anyhow!("optimise fails"));
            }
        }
        // stable, descending by value; observations without attribute last
        obs.sort_by(|x, y| {
            let vx = x.attr().as_ref().map(|v| v.0).unwrap_or(i64::MIN);
            let vy = y.attr().as_ref().map(|v| v.0).unwrap_or(i64::MIN);
            vy.cmp(&vx)
        });
        obs.truncate(self.cap);
        Ok(())
    }
}

#[derive(Clone, Debug, Default)]
pub struct CountNotifier(pub Arc<AtomicU64>);
impl ChangeNotifier for CountNotifier {
    fn send(&mut self, _id: u64) {
        self.0.fetch_add(1, Ordering::SeqCst);
    }
}
impl CountNotifier {
    pub fn get(&self) -> u64 {
        self.0.load(Ordering::SeqCst)
    }
}
