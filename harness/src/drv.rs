//! Uniform driver over the four trackers (Sort, BatchSort, VisualSort, BatchVisualSort).
//! Only public API of the crate is used; the physical content of the two stores is read through
//! `get_main_store()` / `get_wasted_store()` and `get_store(shard)`.
use similari::prelude::*;
use similari::track::utils::FromVec;
use similari::trackers::batch::PredictionBatchRequest;
use similari::trackers::sort::batch_api::BatchSort as BSort;
use similari::trackers::sort::{VotingType, WastedSortTrack};
use similari::trackers::tracker_api::TrackerAPI;
use similari::trackers::visual_sort::batch_api::BatchVisualSort;
use similari::trackers::visual_sort::WastedVisualSortTrack;

/// A detection of the slot world / free world as the harness submits it.
#[derive(Clone, Debug)]
pub struct Det {
    pub bbox: Universal2DBox,
    pub cid: Option<i64>,
    pub feature: Option<Vec<f32>>,
    pub quality: Option<f32>,
}

#[derive(Clone, Debug)]
pub struct Rec {
    pub id: u64,
    pub scene: u64,
    pub ep: usize,
    pub len: usize,
    pub obs: Universal2DBox,
    pub pred: Universal2DBox,
    pub cid: Option<i64>,
    pub visual: bool,
}

#[derive(Clone, Debug)]
pub struct TrackView {
    pub id: u64,
    pub scene: u64,
    pub last: usize,
    pub len: usize,
    pub cid: Option<i64>,
    pub observed: Vec<Universal2DBox>,
    pub predicted: Vec<Universal2DBox>,
    /// VisualSort only: feature history ring, gallery (feature, quality) newest first, collected count
    pub feat_hist: Option<Vec<Option<Vec<f32>>>>,
    pub gallery: Option<Vec<(Option<Vec<f32>>, f32)>>,
    pub collected: Option<usize>,
    /// last estimated box (class-0 observation) and Kalman state, for measuring weights outside the tracker
    pub est: Option<Universal2DBox>,
    pub kstate: Option<similari::utils::kalman::KalmanState<{ similari::utils::kalman::kalman_2d_box::DIM_2D_BOX_X2 }>>,
}

fn rec(t: &SortTrack) -> Rec {
    Rec {
        id: t.id,
        scene: t.scene_id,
        ep: t.epoch,
        len: t.length,
        obs: t.observed_bbox.clone(),
        pred: t.predicted_bbox.clone(),
        cid: t.custom_object_id,
        visual: matches!(t.voting_type, VotingType::Visual),
    }
}

pub trait Drv {
    fn literal_ids(&self) -> bool;
    fn is_batch(&self) -> bool;
    fn shards(&self) -> usize;
    fn predict(&mut self, scene: u64, dets: &[Det]) -> Vec<Rec>;
    fn predict_batch(&mut self, b: &[(u64, Vec<Det>)]) -> Vec<(u64, Vec<Rec>)>;
    fn skip(&mut self, scene: u64, n: usize);
    fn idle(&mut self, scene: u64) -> Vec<Rec>;
    fn wasted(&mut self) -> Vec<TrackView>;
    fn clear(&mut self);
    fn set_aw(&mut self, p: usize);
    fn stats(&self) -> (Vec<usize>, Vec<usize>);
    fn epoch(&self, scene: u64) -> usize;
    fn content(&self, wasted: bool) -> Vec<TrackView>;
    /// identity of the main store in hook events
    fn main_uid(&self) -> u64;
}

#[derive(Clone, Debug)]
pub struct Cfg {
    pub kind: String,
    pub shards: usize,
    pub voters: usize,
    pub history: usize,
    pub max_idle: usize,
    pub metric: PositionalMetricType,
    pub min_conf: f32,
    pub constraints: Option<Vec<(usize, f32)>>,
    pub pos_w: f32,
    pub vel_w: f32,
    // visual options
    pub vis_metric: VisualSortMetricType,
    pub min_votes: usize,
    pub max_obs: usize,
    pub min_track_len: usize,
    pub min_area: f32,
    pub q_use: f32,
    pub q_collect: f32,
    pub own_use: f32,
    pub own_collect: f32,
}

impl Default for Cfg {
    fn default() -> Self {
        Cfg {
            kind: "sort".into(),
            shards: 2,
            voters: 2,
            history: 2,
            max_idle: 1,
            metric: PositionalMetricType::IoU(0.3),
            min_conf: 0.05,
            constraints: None,
            pos_w: 1.0 / 20.0,
            vel_w: 1.0 / 160.0,
            vis_metric: VisualSortMetricType::Euclidean(3.5),
            min_votes: 1,
            max_obs: 2,
            min_track_len: 1,
            min_area: 0.0,
            q_use: 0.5,
            q_collect: 0.6,
            own_use: 0.0,
            own_collect: 0.0,
        }
    }
}

impl Cfg {
    fn constraints(&self) -> Option<SpatioTemporalConstraints> {
        self.constraints.as_ref().map(|c| SpatioTemporalConstraints::default().constraints(c))
    }
    fn visual_opts(&self) -> VisualSortOptions {
        let mut o = VisualSortOptions::default()
            .max_idle_epochs(self.max_idle)
            .kept_history_length(self.history)
            .visual_metric(self.vis_metric)
            .positional_metric(self.metric)
            .positional_min_confidence(self.min_conf)
            .visual_minimal_area(self.min_area)
            .visual_minimal_quality_use(self.q_use)
            .visual_minimal_quality_collect(self.q_collect)
            .visual_min_votes(self.min_votes)
            .kalman_position_weight(self.pos_w)
            .kalman_velocity_weight(self.vel_w);
        // the options are a record: the order in which they are set carries no meaning.  Runs with an even shard count set the
        // gallery size before the minimal track length, the others the other way round.
        o = if self.shards % 2 == 0 {
            o.visual_max_observations(self.max_obs).visual_minimal_track_length(self.min_track_len)
        } else {
            o.visual_minimal_track_length(self.min_track_len).visual_max_observations(self.max_obs)
        };
        if self.own_use > 0.0 {
            o = o.visual_minimal_own_area_percentage_use(self.own_use);
        }
        if self.own_collect > 0.0 {
            o = o.visual_minimal_own_area_percentage_collect(self.own_collect);
        }
        if let Some(c) = self.constraints() {
            o = o.spatio_temporal_constraints(c);
        }
        o
    }
    pub fn build(&self) -> Box<dyn Drv> {
        match self.kind.as_str() {
            "sort" => Box::new(DSort {
                t: Sort::new(self.shards, self.history, self.max_idle, self.metric, self.min_conf,
                             self.constraints(), self.pos_w, self.vel_w),
                shards: self.shards,
            }),
            "batchsort" => Box::new(DBatchSort {
                t: BSort::new(self.shards, self.voters, self.history, self.max_idle, self.metric, self.min_conf,
                              self.constraints(), self.pos_w, self.vel_w),
                shards: self.shards,
            }),
            "visual" => Box::new(DVisual { t: VisualSort::new(self.shards, &self.visual_opts()), shards: self.shards }),
            "batchvisual" => Box::new(DBatchVisual {
                t: BatchVisualSort::new(self.shards, self.voters, &self.visual_opts()),
                shards: self.shards,
            }),
            o => panic!("unknown tracker kind {}", o),
        }
    }
}

pub struct DSort {
    pub t: Sort,
    shards: usize,
}
pub struct DBatchSort {
    pub t: BSort,
    shards: usize,
}
pub struct DVisual {
    pub t: VisualSort,
    shards: usize,
}
pub struct DBatchVisual {
    pub t: BatchVisualSort,
    shards: usize,
}

fn sort_view(w: WastedSortTrack, cid: Option<i64>) -> TrackView {
    TrackView {
        id: w.id,
        scene: w.scene_id,
        last: w.epoch,
        len: w.length,
        cid,
        observed: w.observed_boxes,
        predicted: w.predicted_boxes,
        feat_hist: None,
        gallery: None,
        collected: None,
        est: None,
        kstate: None,
    }
}

macro_rules! sort_content {
    ($self:ident, $wasted:ident) => {{
        let guard = if $wasted { $self.t.get_wasted_store() } else { $self.t.get_main_store() };
        let mut v = vec![];
        for s in 0..$self.shards {
            let shard = guard.get_store(s);
            for (id, t) in shard.iter() {
                let a = t.get_attributes();
                v.push(TrackView {
                    id: *id,
                    scene: a.scene_id,
                    last: a.last_updated_epoch,
                    len: a.track_length,
                    cid: a.custom_object_id,
                    observed: a.observed_boxes.iter().cloned().collect(),
                    predicted: a.predicted_boxes.iter().cloned().collect(),
                    feat_hist: None,
                    gallery: None,
                    collected: None,
                    est: t.get_observations(0).and_then(|o| o.first()).and_then(|o| o.attr().clone()),
                    kstate: similari::trackers::kalman_prediction::TrackAttributesKalmanPrediction::get_state(a),
                });
            }
        }
        v
    }};
}

macro_rules! visual_content {
    ($self:ident, $wasted:ident) => {{
        let guard = if $wasted { $self.t.get_wasted_store() } else { $self.t.get_main_store() };
        let mut v = vec![];
        for s in 0..$self.shards {
            let shard = guard.get_store(s);
            for (id, t) in shard.iter() {
                let a = t.get_attributes();
                let gallery = t.get_observations(0).map(|obs| {
                    obs.iter()
                        .map(|o| {
                            (
                                o.feature().as_ref().map(|f| Vec::from_vec(f)),
                                o.attr().as_ref().map(|x| x.visual_quality()).unwrap_or(-1.0),
                            )
                        })
                        .collect::<Vec<_>>()
                });
                v.push(TrackView {
                    id: *id,
                    scene: a.scene_id,
                    last: a.last_updated_epoch,
                    len: a.track_length,
                    cid: a.custom_object_id,
                    observed: a.observed_boxes.iter().cloned().collect(),
                    predicted: a.predicted_boxes.iter().cloned().collect(),
                    feat_hist: Some(a.observed_features.iter().map(|f| f.as_ref().map(|x| Vec::from_vec(x))).collect()),
                    gallery,
                    collected: Some(a.visual_features_collected_count),
                    est: t.get_observations(0).and_then(|o| o.first()).and_then(|o| o.attr().as_ref()).and_then(|x| x.bbox_opt().clone()),
                    kstate: similari::trackers::kalman_prediction::TrackAttributesKalmanPrediction::get_state(a),
                });
            }
        }
        v
    }};
}

macro_rules! common_api {
    () => {
        fn shards(&self) -> usize {
            self.shards
        }
        // scene 0 goes through the default-scene entry points of the API
        fn skip(&mut self, scene: u64, n: usize) {
            if scene == 0 {
                self.t.skip_epochs(n)
            } else {
                self.t.skip_epochs_for_scene(scene, n)
            }
        }
        fn idle(&mut self, scene: u64) -> Vec<Rec> {
            if scene == 0 {
                self.t.idle_tracks().iter().map(rec).collect()
            } else {
                self.t.idle_tracks_with_scene(scene).iter().map(rec).collect()
            }
        }
        fn clear(&mut self) {
            self.t.clear_wasted()
        }
        fn set_aw(&mut self, p: usize) {
            self.t.set_auto_waste(p)
        }
        fn stats(&self) -> (Vec<usize>, Vec<usize>) {
            (self.t.active_shard_stats(), self.t.wasted_shard_stats())
        }
        fn epoch(&self, scene: u64) -> usize {
            if scene == 0 {
                self.t.current_epoch()
            } else {
                self.t.current_epoch_with_scene(scene)
            }
        }
        fn main_uid(&self) -> u64 {
            self.t.get_main_store().verif_uid()
        }
    };
}

fn sort_input(dets: &[Det]) -> Vec<(Universal2DBox, Option<i64>)> {
    dets.iter().map(|d| (d.bbox.clone(), d.cid)).collect()
}

impl Drv for DSort {
    common_api!();
    fn literal_ids(&self) -> bool {
        true
    }
    fn is_batch(&self) -> bool {
        false
    }
    fn predict(&mut self, scene: u64, dets: &[Det]) -> Vec<Rec> {
        if scene == 0 {
            self.t.predict(&sort_input(dets)).iter().map(rec).collect()
        } else {
            self.t.predict_with_scene(scene, &sort_input(dets)).iter().map(rec).collect()
        }
    }
    fn predict_batch(&mut self, b: &[(u64, Vec<Det>)]) -> Vec<(u64, Vec<Rec>)> {
        b.iter().map(|(s, d)| (*s, self.predict(*s, d))).collect()
    }
    fn wasted(&mut self) -> Vec<TrackView> {
        self.t
            .wasted()
            .into_iter()
            .map(|t| {
                let cid = t.get_attributes().custom_object_id;
                sort_view(WastedSortTrack::from(t), cid)
            })
            .collect()
    }
    fn content(&self, wasted: bool) -> Vec<TrackView> {
        sort_content!(self, wasted)
    }
}

impl Drv for DBatchSort {
    common_api!();
    fn literal_ids(&self) -> bool {
        false
    }
    fn is_batch(&self) -> bool {
        true
    }
    fn predict(&mut self, scene: u64, dets: &[Det]) -> Vec<Rec> {
        let mut r = self.predict_batch(&[(scene, dets.to_vec())]);
        r.pop().map(|x| x.1).unwrap_or_default()
    }
    fn predict_batch(&mut self, b: &[(u64, Vec<Det>)]) -> Vec<(u64, Vec<Rec>)> {
        let (mut req, res) = PredictionBatchRequest::<(Universal2DBox, Option<i64>)>::new();
        for (s, d) in add_order(b) {
            req.add(s, (d.bbox.clone(), d.cid));
        }
        self.t.predict(req);
        let mut out = vec![];
        for _ in 0..res.batch_size() {
            wait_ready(&res);
            let (s, tracks) = res.get();
            out.push((s, tracks.iter().map(rec).collect()));
        }
        out
    }
    fn wasted(&mut self) -> Vec<TrackView> {
        self.t
            .wasted()
            .into_iter()
            .map(|t| {
                let cid = t.get_attributes().custom_object_id;
                sort_view(WastedSortTrack::from(t), cid)
            })
            .collect()
    }
    fn content(&self, wasted: bool) -> Vec<TrackView> {
        sort_content!(self, wasted)
    }
}

fn visual_wasted_view(w: WastedVisualSortTrack, cid: Option<i64>) -> TrackView {
    TrackView {
        id: w.id,
        scene: w.scene_id,
        last: w.epoch,
        len: w.length,
        cid,
        observed: w.observed_boxes,
        predicted: w.predicted_boxes,
        feat_hist: Some(w.observed_features),
        gallery: None,
        collected: None,
        est: None,
        kstate: None,
    }
}

fn vis_obs(d: &Det) -> VisualSortObservation<'_> {
    VisualSortObservation::new(d.feature.as_deref(), d.quality, d.bbox.clone(), d.cid)
}

impl Drv for DVisual {
    common_api!();
    fn literal_ids(&self) -> bool {
        true
    }
    fn is_batch(&self) -> bool {
        false
    }
    fn predict(&mut self, scene: u64, dets: &[Det]) -> Vec<Rec> {
        let obs: Vec<VisualSortObservation> = dets.iter().map(vis_obs).collect();
        if scene == 0 {
            self.t.predict(&obs).iter().map(rec).collect()
        } else {
            self.t.predict_with_scene(scene, &obs).iter().map(rec).collect()
        }
    }
    fn predict_batch(&mut self, b: &[(u64, Vec<Det>)]) -> Vec<(u64, Vec<Rec>)> {
        b.iter().map(|(s, d)| (*s, self.predict(*s, d))).collect()
    }
    fn wasted(&mut self) -> Vec<TrackView> {
        self.t
            .wasted()
            .into_iter()
            .map(|t| {
                let cid = t.get_attributes().custom_object_id;
                visual_wasted_view(WastedVisualSortTrack::from(t), cid)
            })
            .collect()
    }
    fn content(&self, wasted: bool) -> Vec<TrackView> {
        visual_content!(self, wasted)
    }
}

impl Drv for DBatchVisual {
    common_api!();
    fn literal_ids(&self) -> bool {
        false
    }
    fn is_batch(&self) -> bool {
        true
    }
    fn predict(&mut self, scene: u64, dets: &[Det]) -> Vec<Rec> {
        let mut r = self.predict_batch(&[(scene, dets.to_vec())]);
        r.pop().map(|x| x.1).unwrap_or_default()
    }
    fn predict_batch(&mut self, b: &[(u64, Vec<Det>)]) -> Vec<(u64, Vec<Rec>)> {
        let (mut req, res) = PredictionBatchRequest::<VisualSortObservation>::new();
        for (s, d) in add_order(b) {
            req.add(s, vis_obs(d));
        }
        self.t.predict(req);
        let mut out = vec![];
        for _ in 0..res.batch_size() {
            wait_ready(&res);
            let (s, tracks) = res.get();
            out.push((s, tracks.iter().map(rec).collect()));
        }
        out
    }
    fn wasted(&mut self) -> Vec<TrackView> {
        self.t
            .wasted()
            .into_iter()
            .map(|t| {
                let cid = t.get_attributes().custom_object_id;
                visual_wasted_view(WastedVisualSortTrack::from(t), cid)
            })
            .collect()
    }
    fn content(&self, wasted: bool) -> Vec<TrackView> {
        visual_content!(self, wasted)
    }
}

/// The order in which the detections of a batch are added to the request: a request is a map scene -> detections (in the
/// order given per scene), so the order of `add` calls *across* scenes carries no meaning (C04).  Batches with an odd number
/// of detections are added round-robin over the scenes, the others scene by scene; the order within a scene is kept.
fn add_order(b: &[(u64, Vec<Det>)]) -> Vec<(u64, &Det)> {
    let total: usize = b.iter().map(|(_, d)| d.len()).sum();
    let mut out = Vec::with_capacity(total);
    if total % 2 == 1 {
        let longest = b.iter().map(|(_, d)| d.len()).max().unwrap_or(0);
        for i in 0..longest {
            for (s, dets) in b {
                if let Some(d) = dets.get(i) {
                    out.push((*s, d));
                }
            }
        }
    } else {
        for (s, dets) in b {
            for d in dets {
                out.push((*s, d));
            }
        }
    }
    out
}

/// number of batch requests whose results did not arrive (a replay gives up on batch trackers after three of them)
pub static HANGS: std::sync::atomic::AtomicUsize = std::sync::atomic::AtomicUsize::new(0);

/// Watchdog of the batch drivers: a result that does not arrive within 10 s is a hang (the caller panics with a text that
/// starts with "hang:"; the tracker is then leaked instead of dropped - its destructor would wait for the stuck threads).
fn wait_ready(res: &similari::trackers::batch::PredictionBatchResult) {
    let t0 = std::time::Instant::now();
    let mut spins = 0u32;
    while !res.ready() {
        spins += 1;
        if spins < 2000 {
            std::thread::yield_now();
        } else {
            std::thread::sleep(std::time::Duration::from_micros(100));
            if t0.elapsed() > std::time::Duration::from_secs(10) {
                HANGS.fetch_add(1, std::sync::atomic::Ordering::SeqCst);
                panic!("hang: no result for a scene of the batch within 10 s");
            }
        }
    }
}
