//! spec -> impl replay of feature packing and the distance functions (spec/feature/GenF.tla) - property C16.
//!
//! A case carries two integer vectors in packed (zero padded) form, the admissible packed lengths, a unit
//! exponent `e` (a value v stands for the float v * 2^e - exact in f32), a positive factor `k`, and for each
//! query (x, y) over the names a, b, ka, nka the exact integers sum (x-y)^2, x.y, |x|^2, |y|^2 over the common
//! packed prefix as computed by TLC from Feature.tla.  The harness builds the floats, calls the real
//! `Feature::from_vec` (by value and by reference), `Vec::from_vec(&Feature)`, `euclidean`, `cosine`, and
//! compares: packing bit for bit, euclidean against sqrt(sq) * 2^e and cosine against dot / sqrt(nx ny) with
//! 1e-5 relative tolerance.
use crate::common::*;
use serde_json::{json, Value};
use similari::distance::{cosine, euclidean};
use similari::track::utils::FromVec;
use similari::track::Feature;

const REL: f64 = 1e-5;

fn ints(v: &Value, k: &str) -> Vec<i64> {
    jarr(v, k).iter().map(ji).collect()
}

fn floats(v: &[i64], mul: i64, unit: f64) -> Vec<f32> {
    v.iter().map(|x| ((*x * mul) as f64 * unit) as f32).collect()
}

/// packing round trip of one vector; `padded` is the spec's packed form, `n` the original length
fn check_pack(name: &str, padded: &[i64], n: usize, lens: &[i64], unit: f64, grow: usize) -> Option<(String, Value)> {
    let orig = floats(&padded[..n], 1, unit);
    let by_ref: Feature = Feature::from_vec(&orig);
    let by_val: Feature = Feature::from_vec(orig.clone());
    let back: Vec<f32> = Vec::from_vec(&by_ref);
    let back_val: Vec<f32> = Vec::from_vec(&by_val);
    if back.iter().map(|x| x.to_bits()).ne(back_val.iter().map(|x| x.to_bits())) {
        return Some((format!("from_vec:{}:by-value differs from by-reference", name), json!({"ref": back, "val": back_val})));
    }
    if back.len() != by_ref.len() * 8 {
        return Some((format!("from_vec:{}:blocks", name), json!({"blocks": by_ref.len(), "values": back.len()})));
    }
    if !lens.iter().any(|l| *l as usize + grow == back.len()) {
        return Some((format!("from_vec:{}:packed length", name), json!({"spec": lens, "impl": back.len(), "n": n})));
    }
    for (i, got) in back.iter().enumerate() {
        let exp = if i < padded.len() { (padded[i] as f64 * unit) as f32 } else { 0.0 };
        if got.to_bits() != exp.to_bits() && !(exp == 0.0 && *got == 0.0) {
            return Some((format!("from_vec:{}:lane contents", name), json!({"lane": i, "spec": exp, "impl": got})));
        }
    }
    None
}

fn close(got: f64, exp: f64, floor: f64) -> bool {
    got.is_finite() && (got - exp).abs() <= REL * exp.abs() + floor
}

pub fn replay_case(idx: usize, c: &Value, rep: &mut Report, perturb: usize) {
    rep.cases += 1;
    rep.sample(c);
    let (n1, n2) = (jint(c, "n1") as usize, jint(c, "n2") as usize);
    let unit = 2f64.powi(jint(c, "e") as i32);
    let k = jint(c, "k");
    let (pa, pb) = (ints(c, "pa"), ints(c, "pb"));
    let (la, lb) = (ints(c, "la"), ints(c, "lb"));
    // non-trivial: padding needed (a length that is not a multiple of the lane width) or truncation
    // (different packed lengths); lane boundaries and empty vectors are counted separately
    let trunc = n1 > 0 && n2 > 0 && pa.len() != pb.len();
    if n1 % 8 != 0 || n2 % 8 != 0 || trunc {
        rep.nontrivial += 1;
    }
    if [n1, n2].iter().any(|n| [0usize, 1, 7].contains(&(n % 8)) && *n > 0) {
        rep.count("lane_boundary", 1);
    }
    if trunc {
        rep.count("truncation", 1);
    }
    if n1 == 0 || n2 == 0 {
        rep.count("empty_vector_packing_only", 1);
    }
    let grow = if perturb == 2 { 8 } else { 0 };
    for (name, p, n, l) in [("a", &pa, n1, &la), ("b", &pb, n2, &lb)] {
        rep.steps += 1;
        match std::panic::catch_unwind(|| check_pack(name, p, n, l, unit, grow)) {
            Ok(None) => {}
            Ok(Some((sig, d))) => return rep.mismatch(&sig, idx, c, d),
            Err(_) => return rep.mismatch("from_vec:panic", idx, c, json!({"vector": name})),
        }
    }
    let vec_of = |name: &str| -> Vec<f32> {
        match name {
            "a" => floats(&pa[..n1], 1, unit),
            "b" => floats(&pb[..n2], 1, unit),
            "ka" => floats(&pa[..n1], k, unit),
            "nka" => floats(&pa[..n1], -k, unit),
            // a far from the origin, and its near-duplicate (first coordinate one unit further): Feature!Off / Off1
            "fa" => floats(&pa[..n1].iter().map(|x| x + 1000).collect::<Vec<_>>(), 1, unit),
            "fa1" => floats(&pa[..n1].iter().enumerate().map(|(i, x)| x + 1000 + if i == 0 { 1 } else { 0 }).collect::<Vec<_>>(), 1, unit),
            o => panic!("vector name {}", o),
        }
    };
    for q in jarr(c, "q") {
        let (xn, yn) = (jstr(q, "x"), jstr(q, "y"));
        let (x, y) = (vec_of(xn), vec_of(yn));
        let r = std::panic::catch_unwind(|| {
            let (fx, fy) = (Feature::from_vec(&x), Feature::from_vec(&y));
            (euclidean(&fx, &fy) as f64, cosine(&fx, &fy) as f64)
        });
        let (eu, cs) = match r {
            Ok(v) => v,
            Err(_) => return rep.mismatch("distance:panic", idx, c, json!({"x": xn, "y": yn})),
        };
        rep.steps += 1;
        let sq = jint(q, "sq") + if perturb == 1 { 1 } else { 0 };
        let exp = (sq as f64).sqrt() * unit;
        if !close(eu, exp, 1e-6 * unit) {
            let sig = format!("euclidean:{}", if xn == yn { "self distance not 0" } else { "differs from sqrt(sum (x-y)^2)" });
            return rep.mismatch(&sig, idx, c, json!({"x": xn, "y": yn, "spec": exp, "impl": eu}));
        }
        if jint(q, "cos") == 1 {
            rep.steps += 1;
            rep.count("cosine_compared", 1);
            let dot = jint(q, "dot") + if perturb == 3 { 1 } else { 0 };
            let exp = dot as f64 / ((jint(q, "nx") as f64) * (jint(q, "ny") as f64)).sqrt();
            if !(cs.is_finite() && (cs - exp).abs() <= REL) {
                let kind = match (xn, yn) {
                    ("ka", "a") => "parallel not 1",
                    ("nka", "a") => "opposite not -1",
                    (a, b) if a == b => "self not 1",
                    _ => "differs from x.y / (|x| |y|)",
                };
                return rep.mismatch(&format!("cosine:{}", kind), idx, c, json!({"x": xn, "y": yn, "spec": exp, "impl": cs}));
            }
        }
    }
}

pub fn main(opts: &Opts) {
    // --perturb 1|2|3: liveness demonstration only (corrupts the expected sum of squares / packed length / dot product)
    let perturb = opts.usize("perturb", 0);
    let mut rep = Report::new();
    for_each_case(opts, |idx, c| replay_case(idx, &c, &mut rep, perturb));
    rep.finish();
}
