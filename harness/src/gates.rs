//! Controller for the verification hook of /repo (`similari::verif_hook`): records events with a
//! global sequence number, injects seeded delays, and gates threads at schedule points so that an
//! interleaving chosen by TLC can be forced on the real threads.
use rand::rngs::StdRng;
use rand::{Rng, SeedableRng};
use std::collections::HashMap;
use std::sync::{Arc, Condvar, Mutex};
use std::time::{Duration, Instant};

#[derive(Clone, Debug)]
pub struct Event {
    pub seq: u64,
    pub site: &'static str,
    pub args: Vec<u64>,
    pub thread: u64,
}

#[derive(Default)]
struct State {
    events: Vec<Event>,
    seq: u64,
    record: bool,
    /// gate key -> number of grants available
    grants: HashMap<(u8, u64), usize>,
    waiting: HashMap<(u8, u64), usize>,
    completed: HashMap<(u8, u64), usize>,
    gating: bool,
    uid: u64,
    delay_us: u64,
    rng: Option<StdRng>,
    /// forced overlap of a voting thread with the shard workers: a voting job waits at its start until some worker
    /// is inside a scan (under the shard lock), and that worker stays there for a while
    overlap: bool,
    /// every passage of this site sleeps for so many microseconds (a slow voting thread, a slow worker)
    slow_site: Option<(&'static str, u64)>,
    voters_waiting: u32,
    scans_parked: u32,
}

pub struct Ctl {
    st: Mutex<State>,
    cv: Condvar,
    /// grants issued by the scheduler to a key other than the lowest waiting one
    pub reordered: std::sync::atomic::AtomicU64,
}

pub const WORKER: u8 = 0;
pub const CALLER: u8 = 1;

fn thread_num() -> u64 {
    // stable small number per thread
    use std::sync::atomic::{AtomicU64, Ordering};
    static NEXT: AtomicU64 = AtomicU64::new(1);
    thread_local! { static ID: u64 = NEXT.fetch_add(1, Ordering::SeqCst); }
    ID.with(|x| *x)
}

impl Ctl {
    pub fn install() -> Arc<Ctl> {
        let ctl = Arc::new(Ctl { st: Mutex::new(State::default()), cv: Condvar::new(), reordered: Default::default() });
        let c2 = ctl.clone();
        similari::verif_hook::set(Some(Arc::new(move |site, args| c2.at(site, args))));
        ctl
    }
    pub fn uninstall() {
        similari::verif_hook::set(None);
    }

    fn at(&self, site: &'static str, args: &[u64]) {
        // seeded delay first, then the sequence number is drawn (after the delay, under the mutex)
        let d = {
            let mut st = self.st.lock().unwrap();
            let max = st.delay_us;
            match (&mut st.rng, max) {
                (Some(r), m) if m > 0 => {
                    if r.gen_range(0..3) == 0 { r.gen_range(0..m) } else { 0 }
                }
                _ => 0,
            }
        };
        if d > 0 {
            std::thread::sleep(Duration::from_micros(d));
        }
        let slow = self.st.lock().unwrap().slow_site;
        if let Some((s, us)) = slow {
            if s == site {
                std::thread::sleep(Duration::from_micros(us));
            }
        }
        let mut st = self.st.lock().unwrap();
        if st.overlap {
            if site == "v.job.start" {
                st.voters_waiting += 1;
                let t0 = Instant::now();
                while st.scans_parked == 0 && t0.elapsed() < Duration::from_millis(30) {
                    let (g, _) = self.cv.wait_timeout(st, Duration::from_millis(2)).unwrap();
                    st = g;
                }
                if st.scans_parked > 0 {
                    // give the workers of the other shards the time to arrive inside their scans as well
                    drop(st);
                    std::thread::sleep(Duration::from_millis(4));
                    st = self.st.lock().unwrap();
                }
                st.voters_waiting -= 1;
            } else if site == "w.dist.scan" && st.voters_waiting > 0 {
                st.scans_parked += 1;
                self.cv.notify_all();
                drop(st);
                std::thread::sleep(Duration::from_millis(15));
                st = self.st.lock().unwrap();
                st.scans_parked -= 1;
                self.reordered.fetch_add(1, std::sync::atomic::Ordering::SeqCst);
            }
        }
        if st.gating {
            let key = match site {
                "w.cmd.start" if args[0] == st.uid && args[2] == 2 => Some((WORKER, args[1])),
                "owned.sent" if args[0] == st.uid => Some((CALLER, 0)),
                _ => None,
            };
            if let Some(k) = key {
                *st.waiting.entry(k).or_insert(0) += 1;
                self.cv.notify_all();
                loop {
                    if !st.gating {
                        break;
                    }
                    let g = st.grants.entry(k).or_insert(0);
                    if *g > 0 {
                        *g -= 1;
                        break;
                    }
                    st = self.cv.wait(st).unwrap();
                }
                *st.waiting.entry(k).or_insert(0) -= 1;
                if k.0 == CALLER {
                    *st.completed.entry(k).or_insert(0) += 1;
                    self.cv.notify_all();
                }
            }
            if site == "w.cmd.end" && args[0] == st.uid && args[2] == 2 {
                *st.completed.entry((WORKER, args[1])).or_insert(0) += 1;
                self.cv.notify_all();
            }
        }
        if st.record {
            st.seq += 1;
            let seq = st.seq;
            st.events.push(Event { seq, site, args: args.to_vec(), thread: thread_num() });
        }
    }

    pub fn reset(&self) {
        let mut st = self.st.lock().unwrap();
        *st = State::default();
        self.cv.notify_all();
    }
    pub fn start_recording(&self) {
        self.st.lock().unwrap().record = true;
    }
    /// logs an event of the harness' own (client) thread into the same sequence
    pub fn log(&self, site: &'static str, args: &[u64]) {
        let mut st = self.st.lock().unwrap();
        if st.record {
            st.seq += 1;
            let seq = st.seq;
            st.events.push(Event { seq, site, args: args.to_vec(), thread: thread_num() });
        }
    }
    pub fn take_events(&self) -> Vec<Event> {
        std::mem::take(&mut self.st.lock().unwrap().events)
    }
    pub fn set_delays(&self, seed: u64, max_us: u64) {
        let mut st = self.st.lock().unwrap();
        st.rng = Some(StdRng::seed_from_u64(seed));
        st.delay_us = max_us;
    }
    /// Forced overlap (batch trackers): every voting job waits (up to 30 ms) at `v.job.start` until a shard worker is
    /// inside a distance scan, i.e. holds its shard lock; a worker that finds a voting job waiting stays inside its scan
    /// for 15 ms.  What the voting thread reads while the workers are busy must be what it reads when they are idle.
    pub fn set_slow_site(&self, site: &'static str, us: u64) {
        self.st.lock().unwrap().slow_site = Some((site, us));
    }
    pub fn set_overlap(&self) {
        self.st.lock().unwrap().overlap = true;
    }
    pub fn start_gating(&self, uid: u64) {
        let mut st = self.st.lock().unwrap();
        st.gating = true;
        st.uid = uid;
        st.grants.clear();
        st.waiting.clear();
        st.completed.clear();
    }
    /// grants one passage at `key` and waits until that step has completed; false = not realisable
    pub fn grant_and_wait(&self, key: (u8, u64), timeout: Duration) -> bool {
        let mut st = self.st.lock().unwrap();
        let before = *st.completed.get(&key).unwrap_or(&0);
        *st.grants.entry(key).or_insert(0) += 1;
        self.cv.notify_all();
        let t0 = Instant::now();
        while *st.completed.get(&key).unwrap_or(&0) == before {
            let left = timeout.checked_sub(t0.elapsed());
            match left {
                None => return false,
                Some(l) => {
                    let (g, _) = self.cv.wait_timeout(st, l).unwrap();
                    st = g;
                }
            }
        }
        true
    }
    /// Background scheduler: serialises the gated worker steps in an order chosen by `policy`
    /// ("fwd": lowest shard first, "rev": highest shard first, "rand": seeded random, "slow": highest shard first and
    /// every now and then a worker step is granted seconds late - a slow worker) until stopped.
    pub fn spawn_scheduler(self: &Arc<Self>, policy: &str, seed: u64) -> (Arc<std::sync::atomic::AtomicBool>, std::thread::JoinHandle<()>) {
        let stop = Arc::new(std::sync::atomic::AtomicBool::new(false));
        let stop2 = stop.clone();
        let ctl = self.clone();
        let policy = policy.to_string();
        let h = std::thread::spawn(move || {
            let mut rng = StdRng::seed_from_u64(seed);
            let mut granted = 0u64;
            while !stop2.load(std::sync::atomic::Ordering::SeqCst) {
                let key = {
                    let st = ctl.st.lock().unwrap();
                    let (st, _) = ctl.cv.wait_timeout(st, Duration::from_micros(200)).unwrap();
                    if !st.gating {
                        continue;
                    }
                    let mut ws: Vec<(u8, u64)> = st.waiting.iter().filter(|(_, n)| **n > 0).map(|(k, _)| *k).collect();
                    if ws.is_empty() {
                        continue;
                    }
                    ws.sort();
                    let k = match policy.as_str() {
                        "fwd" => ws[0],
                        "rev" | "slow" => ws[ws.len() - 1],
                        _ => ws[rng.gen_range(0..ws.len())],
                    };
                    if k != ws[0] {
                        ctl.reordered.fetch_add(1, std::sync::atomic::Ordering::SeqCst);
                    }
                    k
                };
                // let a little time pass so that several workers are waiting and the policy has a choice
                if policy != "fwd" {
                    std::thread::sleep(Duration::from_micros(150));
                }
                granted += 1;
                if policy == "slow" && granted % 41 == 3 + seed % 5 {
                    // longer than two one-second waits in a row (error stream, then result stream)
                    std::thread::sleep(Duration::from_millis(2400));
                    ctl.reordered.fetch_add(1, std::sync::atomic::Ordering::SeqCst);
                }
                ctl.grant_and_wait(key, Duration::from_secs(3));
            }
        });
        (stop, h)
    }
    pub fn open_all(&self) {
        let mut st = self.st.lock().unwrap();
        st.gating = false;
        self.cv.notify_all();
    }
}
