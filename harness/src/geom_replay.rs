//! spec -> impl replay of the exact-lattice geometry cases (spec/geom/GenL.tla, GenE.tla):
//! properties C08 (intersection / IoU / too_far), C15 (exclusively owned share), C19 (representations,
//! equality, angle normalisation).
//!
//! Every expected value is an integer computed by TLC from spec/geom/Lattice.tla / BoxEq.tla; this file only
//! builds the real boxes, calls the real functions and compares within the stated tolerances:
//!   * IoU: absolute 1e-4; areas: relative 1e-5; both widened by the (computed) effect of rounding the INPUT
//!     to f32 - `dev` below is the distance between the ideal box and the box the f32 fields really denote,
//!     an intersection area moves by at most dev x perimeter;
//!   * an exact zero intersection may be reported as absent or as IoU < 1e-6;
//!   * a panic of the code under test is a reported result (`<fn>:panic`).
//! C08: every pair is replayed on the lattice (angle None / Some) and under common rigid motions (rotation about
//! the origin by an arbitrary angle, translation up to 1e4, common power-of-two scale) chosen deterministically
//! from the case content and `--seed`: areas scale by s^2, IoU and too_far are invariant, so TLC's value stays
//! the oracle.
use crate::common::*;
use serde_json::{json, Value};
use similari::track::ObservationAttributes;
use similari::trackers::visual_sort::observation_attributes::VisualObservationAttributes;
use similari::utils::bbox::{normalize_angle, BoundingBox, Universal2DBox};
use similari::utils::clipping::bbox_own_areas::{exclusively_owned_areas, exclusively_owned_areas_normalized_shares};
use similari::utils::clipping::sutherland_hodgman_clip;
use std::f64::consts::PI;
use std::panic::{catch_unwind, AssertUnwindSafe};

const IOU_TOL: f64 = 1e-4;
const REL_TOL: f64 = 1e-5;
const ZERO_IOU: f64 = 1e-6;
const LIB_EPS: f64 = 1e-5;

// ------------------------------------------------------------------------------------------------ lattice boxes
#[derive(Clone, Copy, Debug)]
struct LBox {
    x: i64,
    y: i64,
    w: i64,
    h: i64,
    k: i64,
}

fn lbox(v: &Value) -> LBox {
    LBox { x: jint(v, "x"), y: jint(v, "y"), w: jint(v, "w"), h: jint(v, "h"), k: jint(v, "k") }
}

impl LBox {
    fn key(&self) -> String {
        format!("{},{},{},{},{}", self.x, self.y, self.w, self.h, self.k)
    }
}

/// common similarity motion: p -> s R(theta) p + t
#[derive(Clone, Copy, Debug)]
struct Motion {
    s: f64,
    theta: f64,
    tx: f64,
    ty: f64,
}

const IDENTITY: Motion = Motion { s: 1.0, theta: 0.0, tx: 0.0, ty: 0.0 };

impl Motion {
    fn apply(&self, px: f64, py: f64) -> (f64, f64) {
        let (c, s) = (self.theta.cos(), self.theta.sin());
        (self.s * (c * px - s * py) + self.tx, self.s * (s * px + c * py) + self.ty)
    }
    fn json(&self) -> Value {
        json!({"scale": self.s, "theta": self.theta, "tx": self.tx, "ty": self.ty})
    }
}

fn fnv(s: &str, seed: u64) -> u64 {
    let mut h: u64 = 0xcbf29ce484222325 ^ seed.wrapping_mul(0x9E3779B97F4A7C15);
    for b in s.bytes() {
        h ^= b as u64;
        h = h.wrapping_mul(0x100000001b3);
    }
    h ^ (h >> 29)
}

const THETAS: [f64; 10] = [0.3, 1.234, -2.5, 0.785_398_163_397_448_3, 3.0, 5.1, -0.01, 7.0, 0.0, 1.570_796_326_794_896_6];

/// motion number `n` for a case with hash `h`: 0 = near (translation <= 10), 1 = far (translation up to 1e4, scale)
fn motion(h: u64, n: u64) -> Motion {
    let h = fnv("m", h.wrapping_add(n));
    let theta = THETAS[(h % 10) as usize];
    let u1 = ((h >> 8) % 2001) as f64 / 1000.0 - 1.0; // [-1, 1]
    let u2 = ((h >> 24) % 2001) as f64 / 1000.0 - 1.0;
    if n == 0 {
        // multiples of 1/2 up to 10: exactly representable, keeps degenerate configurations exact when theta = 0
        Motion { s: 1.0, theta, tx: (u1 * 20.0).round() / 2.0, ty: (u2 * 20.0).round() / 2.0 }
    } else {
        let mag = [100.0, 1000.0, 10000.0][((h >> 40) % 3) as usize];
        let s = [1.0, 1.0, 0.25, 16.0, 128.0][((h >> 44) % 5) as usize];
        Motion { s, theta, tx: u1 * mag, ty: u2 * mag }
    }
}

/// a real box together with the distance `dev` between the ideal (exact) rectangle and the rectangle its f32
/// fields denote (Hausdorff-type bound: centre shift + angle error x radius + half-size errors)
struct Built {
    b: Universal2DBox,
    dev: f64,
    perim: f64,
    area: f64,
    radius: f64,
}

fn build(l: &LBox, m: &Motion, none_for_k0: bool) -> Built {
    let (cx, cy) = m.apply(l.x as f64 / 2.0, l.y as f64 / 2.0);
    let w = m.s * l.w as f64 / 2.0;
    let h = m.s * l.h as f64 / 2.0;
    let ang = l.k as f64 * PI / 2.0 + m.theta;
    let angle = if none_for_k0 && l.k == 0 && m.theta == 0.0 { None } else { Some(ang as f32) };
    let aspect = (l.w as f64 / l.h as f64) as f32;
    let b = Universal2DBox::new(cx as f32, cy as f32, angle, aspect, h as f32);
    let radius = (w * w + h * h).sqrt() / 2.0;
    let aw = b.aspect as f64 * b.height as f64;
    let dev = ((b.xc as f64 - cx).powi(2) + (b.yc as f64 - cy).powi(2)).sqrt()
        + (b.angle.map(|a| a as f64).unwrap_or(0.0) - if angle.is_some() { ang } else { 0.0 }).abs() * radius
        + (aw - w).abs() / 2.0
        + (b.height as f64 - h).abs() / 2.0
        + ulp32(b.xc.abs().max(b.yc.abs())) / 16.0;
    Built { b, dev, perim: 2.0 * (w + h), area: w * h, radius }
}

/// spacing of f32 at magnitude x: positions of boxes are not meaningful below it, so a sixteenth of it is
/// always granted as deviation (this is what scales the tolerances with the magnitude of the coordinates)
fn ulp32(x: f32) -> f64 {
    let x = x.abs().max(f32::MIN_POSITIVE);
    (f32::from_bits(x.to_bits() + 1) - x) as f64
}

fn ring(p: &[(f64, f64)]) -> f64 {
    let n = p.len();
    let mut s = 0.0;
    for i in 0..n {
        let j = (i + 1) % n;
        s += p[i].0 * p[j].1 - p[j].0 * p[i].1;
    }
    s.abs() / 2.0
}

// ------------------------------------------------------------------------------------------------ C08: pairs
struct Exp {
    i: f64,   // exact intersection area (scaled)
    tol: f64, // admissible deviation of an area
    s_area: f64,
    min_area: f64,
}

impl Exp {
    fn iou_bounds(&self) -> (f64, f64) {
        let f = |i: f64| i / (self.s_area - i);
        (f((self.i - self.tol).max(0.0)), f((self.i + self.tol).min(self.min_area)))
    }
}

fn check_area(name: &str, got: f64, e: &Exp) -> Option<(String, Value)> {
    if got.is_nan() {
        return Some((format!("pair:{}:nan", name), json!({"spec": e.i, "impl": "NaN"})));
    }
    if (got - e.i).abs() > e.tol {
        return Some((format!("pair:{}:value", name), json!({"spec": e.i, "impl": got, "tol": e.tol})));
    }
    None
}

fn check_iou(name: &str, got: Option<f32>, e: &Exp, absent_allowed: bool) -> Option<(String, Value)> {
    let (lo, hi) = e.iou_bounds();
    let spec = json!({"iou_lo": lo, "iou_hi": hi, "inter": e.i});
    match got {
        None => {
            if e.i - e.tol <= 0.0 && absent_allowed {
                None
            } else {
                Some((format!("pair:{}:absent", name), json!({"spec": spec, "impl": "None"})))
            }
        }
        Some(v) => {
            let v = v as f64;
            if v.is_nan() {
                return Some((format!("pair:{}:nan", name), json!({"spec": spec, "impl": "Some(NaN)"})));
            }
            let t = if e.i == 0.0 { ZERO_IOU } else { IOU_TOL };
            if v < lo - t || v > hi + t {
                let kind = if e.i == 0.0 { "present" } else { "value" };
                return Some((format!("pair:{}:{}", name, kind), json!({"spec": spec, "impl": v})));
            }
            None
        }
    }
}

/// axis-aligned form of a lattice box moved by a pure translation (quarter-turn angles keep it axis-aligned)
fn aabb(l: &LBox, m: &Motion) -> BoundingBox {
    let (ew, eh) = if l.k.rem_euclid(2) == 1 { (l.h, l.w) } else { (l.w, l.h) };
    let (cx, cy) = m.apply(l.x as f64 / 2.0, l.y as f64 / 2.0);
    let (w, h) = (m.s * ew as f64 / 2.0, m.s * eh as f64 / 2.0);
    BoundingBox::new((cx - w / 2.0) as f32, (cy - h / 2.0) as f32, w as f32, h as f32)
}

fn poly_pts(b: &Universal2DBox) -> Vec<(f64, f64)> {
    let p = b.get_vertices();
    let mut v: Vec<(f64, f64)> = p.exterior().0.iter().map(|c| (c.x, c.y)).collect();
    if v.len() >= 2 && v[0] == v[v.len() - 1] {
        v.pop();
    }
    v
}

fn pair_variant(c: &Value, la: &LBox, lb: &LBox, m: &Motion, none_enc: bool, vname: &str, out: &mut Vec<(String, Value)>) {
    let a = build(la, m, none_enc);
    let b = build(lb, m, none_enc);
    let s2 = m.s * m.s;
    let i = s2 * jint(c, "inter16") as f64 / 16.0;
    let dev = a.dev + b.dev;
    let e = Exp {
        i,
        tol: 1.5 * dev * (a.perim + b.perim) + REL_TOL * i + 1e-12 * s2,
        s_area: a.area + b.area,
        min_area: a.area.min(b.area),
    };
    let ctx = |sig: String, mut d: Value, out: &mut Vec<(String, Value)>| {
        d["variant"] = json!(vname);
        d["motion"] = m.json();
        d["a"] = json!(format!("{:?}", (a.b.xc, a.b.yc, a.b.angle, a.b.aspect, a.b.height)));
        d["b"] = json!(format!("{:?}", (b.b.xc, b.b.yc, b.b.angle, b.b.aspect, b.b.height)));
        out.push((sig, d));
    };
    let r = catch_unwind(AssertUnwindSafe(|| {
        let mut res: Vec<(String, Value)> = vec![];
        // intersection, both argument orders
        for (o, x, y) in [("(a,b)", &a.b, &b.b), ("(b,a)", &b.b, &a.b)] {
            if let Some(mut mm) = check_area("intersection", Universal2DBox::intersection(x, y), &e) {
                mm.1["order"] = json!(o);
                res.push(mm);
            }
        }
        // IoU of the three metric objects
        for (x, y, o) in [(&a.b, &b.b, "(a,b)"), (&b.b, &a.b, "(b,a)")] {
            if let Some(mut mm) = check_iou("iou", Universal2DBox::calculate_metric_object(&Some(x), &Some(y)), &e, true) {
                mm.1["order"] = json!(o);
                res.push(mm);
            }
        }
        let va = VisualObservationAttributes::new(1.0, a.b.clone());
        let vb = VisualObservationAttributes::new(1.0, b.b.clone());
        if let Some(mm) = check_iou("iou.visual", VisualObservationAttributes::calculate_metric_object(&Some(&va), &Some(&vb)), &e, true) {
            res.push(mm);
        }
        // the clipper itself (area of the clipped polygon), free function and method
        let (pa, pb) = (a.b.get_vertices(), b.b.get_vertices());
        let cl: Vec<(f64, f64)> = sutherland_hodgman_clip(&pa, &pb).exterior().0.iter().map(|c| (c.x, c.y)).collect();
        if let Some(mm) = check_area("clip", ring(&cl), &e) {
            res.push(mm);
        }
        let cl: Vec<(f64, f64)> = b.b.clone().sutherland_hodgman_clip(a.b.clone()).exterior().0.iter().map(|c| (c.x, c.y)).collect();
        if let Some(mut mm) = check_area("clip", ring(&cl), &e) {
            mm.1["order"] = json!("b.sutherland_hodgman_clip(a)");
            res.push(mm);
        }
        // pre-filter
        let tf = Universal2DBox::too_far(&a.b, &b.b);
        if jint(c, "inter16") > 0 && tf {
            res.push(("pair:too_far:rejects-overlap".into(), json!({"spec": false, "impl": true})));
        } else if !jbool(c, "touching") {
            let d = m.s * (jint(c, "d16") as f64).sqrt() / 4.0;
            let rs = a.radius + b.radius;
            if (d - rs).abs() > 4.0 * dev + 1e-5 * rs {
                if tf != jbool(c, "toofar") {
                    res.push(("pair:too_far:differs".into(), json!({"spec": jbool(c, "toofar"), "impl": tf, "d": d, "r1+r2": rs})));
                }
            } else {
                res.push(("#toofar_open".into(), Value::Null));
            }
        } else {
            res.push(("#toofar_open".into(), Value::Null));
        }
        if tf != Universal2DBox::too_far(&b.b, &a.b) {
            res.push(("pair:too_far:asymmetric".into(), json!({})));
        }
        // axis-aligned closed form (quarter-turn boxes under a pure translation are axis-aligned rectangles)
        if m.theta == 0.0 {
            let (ba, bb) = (aabb(la, m), aabb(lb, m));
            let dv = a.dev + b.dev + 4.0 * f32::EPSILON as f64 * (ba.left.abs().max(ba.top.abs()).max(bb.left.abs()).max(bb.top.abs()) as f64 + a.perim + b.perim);
            let e2 = Exp { i, tol: 1.5 * dv * (a.perim + b.perim) + REL_TOL * i + 1e-12 * s2, s_area: e.s_area, min_area: e.min_area };
            if let Some(mm) = check_area("intersection.bbox", BoundingBox::intersection(&ba, &bb), &e2) {
                res.push(mm);
            }
            // BoundingBox reports Some(0) for no overlap: accepted as "IoU < 1e-6"
            if let Some(mm) = check_iou("iou.bbox", BoundingBox::calculate_metric_object(&Some(&ba), &Some(&bb)), &e2, false) {
                res.push(mm);
            }
            if la.k == 0 && lb.k == 0 && none_enc {
                // the same pair through the conversion Universal2DBox -> BoundingBox
                if let (Ok(ca), Ok(cb)) = (BoundingBox::try_from(&a.b), BoundingBox::try_from(&b.b)) {
                    if let Some(mm) = check_area("intersection.bbox.converted", BoundingBox::intersection(&ca, &cb), &e2) {
                        res.push(mm);
                    }
                } else {
                    res.push(("pair:try_from:err".into(), json!({})));
                }
            }
        }
        res
    }));
    match r {
        Ok(res) => {
            for (s, d) in res {
                ctx(s, d, out);
            }
        }
        Err(p) => ctx("pair:panic".into(), json!({"panic": panic_text(&p)}), out),
    }
}

pub fn panic_text(p: &Box<dyn std::any::Any + Send>) -> String {
    if let Some(s) = p.downcast_ref::<&str>() {
        s.to_string()
    } else if let Some(s) = p.downcast_ref::<String>() {
        s.clone()
    } else {
        "?".into()
    }
}

fn pair_case(idx: usize, c: &Value, seed: u64, rep: &mut Report) {
    let (la, lb) = (lbox(jget(c, "a")), lbox(jget(c, "b")));
    let h = fnv(&format!("{}|{}", la.key(), lb.key()), seed);
    let cls = jstr(c, "cls");
    rep.count(&format!("pair_{}", cls), 1);
    if jbool(c, "edge") {
        rep.count("pair_shared_edge_line", 1);
    }
    if cls != "disjoint" && (cls != "partial" || jbool(c, "edge")) {
        rep.nontrivial += 1;
    }
    let mut out: Vec<(String, Value)> = vec![];
    let mut variants = 0;
    if let Some(sc) = c.get("scale") {
        // sliver pairs: the lattice pair shrunk about the origin (no translation: the sliver must stay far above the
        // spacing of f32 at the boxes' coordinates), axis-aligned and under a common rotation
        let s = ji(&sc[0]) as f64 / ji(&sc[1]) as f64;
        rep.count("pair_sliver", 1);
        pair_variant(c, &la, &lb, &Motion { s, theta: 0.0, tx: 0.0, ty: 0.0 }, true, "shrunk/none", &mut out);
        pair_variant(c, &la, &lb, &Motion { s, theta: 0.0, tx: 0.0, ty: 0.0 }, false, "shrunk/some", &mut out);
        pair_variant(c, &la, &lb, &Motion { s, theta: THETAS[(h % 10) as usize], tx: 0.0, ty: 0.0 }, false, "shrunk/rotated", &mut out);
        rep.steps += 3;
        report_once(idx, c, out, rep);
        return;
    }
    if la.k == 0 || lb.k == 0 {
        pair_variant(c, &la, &lb, &IDENTITY, true, "lattice/none", &mut out);
        variants += 1;
    }
    pair_variant(c, &la, &lb, &IDENTITY, false, "lattice/some", &mut out);
    pair_variant(c, &la, &lb, &motion(h, 0), true, "moved/near", &mut out);
    pair_variant(c, &la, &lb, &motion(h, 1), false, "moved/far", &mut out);
    variants += 3;
    rep.steps += variants;
    report_once(idx, c, out, rep);
}

/// one mismatch per signature and case; entries starting with '#' are counters
fn report_once(idx: usize, c: &Value, out: Vec<(String, Value)>, rep: &mut Report) {
    let mut seen: Vec<String> = vec![];
    for (s, d) in out {
        if let Some(k) = s.strip_prefix('#') {
            rep.count(k, 1);
            continue;
        }
        if seen.contains(&s) {
            continue;
        }
        seen.push(s.clone());
        rep.mismatch(&s, idx, c, d);
    }
}

// ------------------------------------------------------------------------------------------------ C15: own areas
fn perms(n: usize, h: u64) -> Vec<Vec<usize>> {
    if n <= 3 {
        let mut all = vec![];
        let mut p: Vec<usize> = (0..n).collect();
        heap(n, &mut p, &mut all);
        all.sort();
        all
    } else {
        let id: Vec<usize> = (0..n).collect();
        let rev: Vec<usize> = (0..n).rev().collect();
        let rot: Vec<usize> = (0..n).map(|i| (i + 1) % n).collect();
        let mut sh = id.clone();
        let mut x = h | 1;
        for i in (1..n).rev() {
            x ^= x << 13;
            x ^= x >> 7;
            x ^= x << 17;
            sh.swap(i, (x % (i as u64 + 1)) as usize);
        }
        vec![id, rev, rot, sh]
    }
}

fn heap(k: usize, p: &mut Vec<usize>, out: &mut Vec<Vec<usize>>) {
    if k <= 1 {
        out.push(p.clone());
        return;
    }
    for i in 0..k {
        heap(k - 1, p, out);
        if k % 2 == 0 {
            p.swap(i, k - 1);
        } else {
            p.swap(0, k - 1);
        }
    }
}

fn multipolygon_area(mp: &[Vec<Vec<(f64, f64)>>]) -> f64 {
    mp.iter().map(|rings| ring(&rings[0]) - rings[1..].iter().map(|r| ring(r)).sum::<f64>()).sum()
}

fn own_case(idx: usize, c: &Value, seed: u64, rep: &mut Report) {
    let ls: Vec<LBox> = jarr(c, "boxes").iter().map(lbox).collect();
    let n = ls.len();
    let own: Vec<i64> = jarr(c, "own").iter().map(ji).collect();
    let cells: Vec<i64> = jarr(c, "cells").iter().map(ji).collect();
    let mut keys: Vec<String> = ls.iter().map(|l| l.key()).collect();
    keys.sort();
    let key = keys.join(";");
    let h = fnv(&key, seed);
    if (0..n).any(|i| own[i] > 0 && own[i] < cells[i]) {
        rep.nontrivial += 1;
        rep.count("own_sets_with_partially_covered_box", 1);
    }
    if (0..n).any(|i| own[i] == 0) {
        rep.count("own_sets_with_covered_box", 1);
    }
    rep.count(&format!("own_sets_of_{}", n), 1);
    // exact translation (integers up to 4096: every coordinate stays representable, degeneracies stay exact);
    // only for sets without angles
    let tr = Motion { s: 1.0, theta: 0.0, tx: ((h >> 8) % 8192) as f64 - 4096.5, ty: ((h >> 32) % 8193) as f64 - 4096.0 };
    let variants: [(&str, Motion, bool); 3] = [("lattice/none", IDENTITY, true), ("lattice/some", IDENTITY, false), ("translated", tr, true)];
    let mut out: Vec<(String, Value)> = vec![];
    let angled = ls.iter().any(|l| l.k != 0);
    for p in perms(n, h) {
        for (vname, m, none_enc) in variants.iter() {
            if angled && m.tx != 0.0 {
                continue; // the far translation is applied to sets of boxes without angle only
            }
            rep.steps += 1;
            let built: Vec<Built> = p.iter().map(|&i| build(&ls[i], m, *none_enc)).collect();
            let dev: f64 = built.iter().map(|b| b.dev).sum();
            let perim: f64 = built.iter().map(|b| b.perim).sum();
            let refs: Vec<&Universal2DBox> = built.iter().map(|b| &b.b).collect();
            let r = catch_unwind(AssertUnwindSafe(|| {
                let polys = exclusively_owned_areas(&refs);
                let shares = exclusively_owned_areas_normalized_shares(&refs, &polys);
                let areas: Vec<f64> = polys
                    .iter()
                    .map(|mp| {
                        let v: Vec<Vec<Vec<(f64, f64)>>> = mp
                            .0
                            .iter()
                            .map(|pg| {
                                let mut rings = vec![pg.exterior().0.iter().map(|c| (c.x, c.y)).collect::<Vec<_>>()];
                                for ir in pg.interiors() {
                                    rings.push(ir.0.iter().map(|c| (c.x, c.y)).collect());
                                }
                                rings
                            })
                            .collect();
                        multipolygon_area(&v)
                    })
                    .collect();
                (shares, areas)
            }));
            let ctx = json!({"variant": vname, "order": p, "motion": m.json(), "key": key});
            match r {
                Err(pn) => {
                    rep.count("own_panics", 1);
                    let mut d = ctx.clone();
                    d["panic"] = json!(panic_text(&pn));
                    out.push((format!("own:panic:{}", key), d));
                }
                Ok((shares, areas)) => {
                    if shares.len() != n || areas.len() != n {
                        out.push(("own:length".into(), ctx.clone()));
                        continue;
                    }
                    for (pos, &i) in p.iter().enumerate() {
                        let box_area = built[pos].area;
                        let exp_area = own[i] as f64 / 16.0;
                        let exp_share = own[i] as f64 / cells[i] as f64;
                        let tol_area = 1.5 * dev * perim + REL_TOL * box_area + 1e-12;
                        let tol_share = IOU_TOL + (tol_area + LIB_EPS) / box_area;
                        let sh = shares[pos] as f64;
                        let mut d = ctx.clone();
                        d["box"] = json!(i);
                        if !(sh >= 0.0 && sh <= 1.0) {
                            d["impl"] = json!(format!("{}", sh));
                            out.push(("own:share:out-of-range".into(), d));
                        } else if (sh - exp_share).abs() > tol_share {
                            d["spec"] = json!(exp_share);
                            d["impl"] = json!(sh);
                            out.push(("own:share:value".into(), d));
                        } else if !((areas[pos] - exp_area).abs() <= tol_area) {
                            d["spec"] = json!(exp_area);
                            d["impl"] = json!(format!("{}", areas[pos]));
                            out.push(("own:area:value".into(), d));
                        }
                    }
                }
            }
        }
    }
    // every box of the set alone, under similarities with non-round factors and offsets (the lattice instances above have
    // f32-exact areas): a box that overlaps nothing owns all of itself, and the share never leaves [0, 1] - whatever the
    // rounding of the f32 area in the denominator does
    const FACTORS: [f64; 6] = [0.37, 3.3333, 8.6469, 21.7301, 57.913, 173.205];
    for (i, l) in ls.iter().enumerate() {
        for k in 0..4u64 {
            let hh = fnv(&l.key(), h.wrapping_add(k));
            let m = Motion {
                s: FACTORS[(hh % 6) as usize],
                theta: if k % 2 == 0 { 0.0 } else { THETAS[((hh >> 4) % 10) as usize] },
                tx: ((hh >> 8) % 2_000_001) as f64 / 1000.0 - 1000.0,
                ty: ((hh >> 32) % 2_000_001) as f64 / 1000.0 - 1000.0,
            };
            rep.steps += 1;
            rep.count("own_single_boxes_non_round", 1);
            let b = build(l, &m, true);
            let refs = vec![&b.b];
            let r = catch_unwind(AssertUnwindSafe(|| exclusively_owned_areas_normalized_shares(&refs, &exclusively_owned_areas(&refs))));
            let mut d = json!({"variant": "single/non-round", "motion": m.json(), "key": l.key(), "box": i});
            match r {
                Err(pn) => {
                    d["panic"] = json!(panic_text(&pn));
                    out.push((format!("own:panic:{}", l.key()), d));
                }
                Ok(sh) => {
                    if sh.len() != 1 {
                        out.push(("own:length".into(), d));
                    } else if !(sh[0] >= 0.0 && sh[0] <= 1.0) {
                        d["impl"] = json!(format!("{}", sh[0]));
                        out.push(("own:share:out-of-range".into(), d));
                    } else if (sh[0] as f64) < 1.0 - IOU_TOL - LIB_EPS / b.area {
                        d["spec"] = json!(1.0);
                        d["impl"] = json!(sh[0]);
                        out.push(("own:share:value".into(), d));
                    }
                }
            }
        }
    }
    report_once(idx, c, out, rep);
}

// ------------------------------------------------------------------------------------------------ C19
fn close(a: f64, b: f64, scale: f64) -> bool {
    (a - b).abs() <= REL_TOL * scale.abs().max(a.abs()).max(b.abs()) + 1e-30
}

fn conv_case(idx: usize, c: &Value, rep: &mut Report) {
    let r = jget(c, "ltwh");
    let lb = lbox(jget(c, "box"));
    let back = lbox(jget(c, "back"));
    let asp = jarr(c, "aspect");
    let aspect = ji(&asp[0]) as f64 / ji(&asp[1]) as f64;
    rep.nontrivial += 1;
    let mut out: Vec<(String, Value)> = vec![];
    // magnitudes 1e-2 .. 1e4 through power-of-two scales (per axis: the conversions commute with a scaling of either axis,
    // the aspect ratio goes with sx / sy - the last two entries are the thin-and-tall and the wide-and-flat corners of the
    // range) and exact offsets
    for (sx, sy, off) in [(1.0, 1.0, 0.0), (1.0 / 32.0, 1.0 / 32.0, 0.0), (1024.0, 1024.0, 0.0), (1.0, 1.0, 8192.0), (4.0, 4.0, -4096.0),
                          (1.0 / 16.0, 2048.0, 0.0), (512.0, 1.0 / 16.0, 0.0)] {
        rep.steps += 1;
        let q = |name: &str, s: f64| s * jint(r, name) as f64 / 4.0;
        let (l, t, w, h) = (q("l", sx) + off, q("t", sy) - off, q("w", sx), q("h", sy));
        let aspect = aspect * sx / sy;
        let d0 = json!({"scale": [sx, sy], "offset": off, "ltwh": [l, t, w, h]});
        let res = catch_unwind(AssertUnwindSafe(|| {
            let mut res: Vec<(String, Value)> = vec![];
            let bb = BoundingBox::new_with_confidence(l as f32, t as f32, w as f32, h as f32, 0.75);
            let forms: [(&str, Universal2DBox); 4] = [
                ("from", Universal2DBox::from(&bb)),
                ("from.owned", Universal2DBox::from(bb)),
                ("as_xyaah", bb.as_xyaah()),
                ("ltwh", Universal2DBox::ltwh_with_confidence(l as f32, t as f32, w as f32, h as f32, 0.75)),
            ];
            let mag = sx.max(sy).max(off.abs());
            for (n, u) in forms.iter() {
                let exp = [sx * lb.x as f64 / 2.0 + off, sy * lb.y as f64 / 2.0 - off, aspect, sy * lb.h as f64 / 2.0, 0.75];
                let got = [u.xc as f64, u.yc as f64, u.aspect as f64, u.height as f64, u.confidence as f64];
                let names = ["xc", "yc", "aspect", "height", "confidence"];
                for i in 0..5 {
                    if !close(got[i], exp[i], if i < 2 { mag } else { 0.0 }) {
                        res.push((format!("conv:{}:{}", n, names[i]), json!({"spec": exp[i], "impl": got[i]})));
                    }
                }
                if u.angle.is_some() {
                    res.push((format!("conv:{}:angle", n), json!({"spec": "None", "impl": format!("{:?}", u.angle)})));
                }
                // and back
                let exp = [
                    sx * (2 * back.x - back.w) as f64 / 4.0 + off,
                    sy * (2 * back.y - back.h) as f64 / 4.0 - off,
                    sx * back.w as f64 / 2.0,
                    sy * back.h as f64 / 2.0,
                    0.75,
                ];
                for (bn, b2) in [("try_from", BoundingBox::try_from(u)), ("try_from.owned", BoundingBox::try_from(u.clone()))] {
                    match b2 {
                        Ok(b2) => {
                            let got = [b2.left as f64, b2.top as f64, b2.width as f64, b2.height as f64, b2.confidence as f64];
                            let names = ["left", "top", "width", "height", "confidence"];
                            for i in 0..5 {
                                if !close(got[i], exp[i], if i < 2 { mag } else { 0.0 }) {
                                    res.push((format!("conv:{}:{}", bn, names[i]), json!({"via": n, "spec": exp[i], "impl": got[i]})));
                                }
                            }
                        }
                        Err(_) => res.push((format!("conv:{}:err", bn), json!({"via": n}))),
                    }
                }
            }
            res
        }));
        match res {
            Ok(v) => {
                for (sig, mut d) in v {
                    d["input"] = d0.clone();
                    out.push((sig, d));
                }
            }
            Err(p) => out.push(("conv:panic".into(), json!({"input": d0, "panic": panic_text(&p)}))),
        }
    }
    report_once(idx, c, out, rep);
}

fn poly_case(idx: usize, c: &Value, seed: u64, rep: &mut Report) {
    let l = lbox(jget(c, "box"));
    let h = fnv(&l.key(), seed);
    if l.k != 0 {
        rep.nontrivial += 1;
    }
    let verts: Vec<(f64, f64)> = jarr(c, "vertices").iter().map(|v| (ji(&v[0]) as f64 / 4.0, ji(&v[1]) as f64 / 4.0)).collect();
    let cen = jarr(c, "centre");
    let (ecx, ecy) = (ji(&cen[0]) as f64 / 4.0, ji(&cen[1]) as f64 / 4.0);
    let mut out: Vec<(String, Value)> = vec![];
    // an angle below the library's EPS is still an angle: the vertices move by angle x radius, far above the tolerance
    let tiny = Motion { theta: [7e-6, -3e-6, 9.5e-6, -1e-6][((h >> 50) % 4) as usize], ..motion(h, 0) };
    let variants: [(&str, Motion, bool); 5] = [
        ("lattice/none", IDENTITY, true),
        ("lattice/some", IDENTITY, false),
        ("moved/near", motion(h, 0), true),
        ("moved/far", motion(h, 1), false),
        ("moved/tiny-angle", tiny, false),
    ];
    for (vname, m, none_enc) in variants.iter() {
        if *vname == "lattice/none" && l.k != 0 {
            continue;
        }
        rep.steps += 1;
        let b = build(&l, m, *none_enc);
        let s2 = m.s * m.s;
        let res = catch_unwind(AssertUnwindSafe(|| {
            let mut res: Vec<(String, Value)> = vec![];
            let pts = poly_pts(&b.b);
            let tol = 1.5 * b.dev + 1e-9 * m.s;
            if pts.len() != 4 {
                res.push(("poly:vertices:count".into(), json!({"impl": pts.len()})));
                return res;
            }
            // as a set: every expected vertex is matched by a distinct vertex of the polygon
            let mut used = [false; 4];
            for v in &verts {
                let (ex, ey) = m.apply(v.0, v.1);
                let hit = (0..4).find(|&j| !used[j] && ((pts[j].0 - ex).powi(2) + (pts[j].1 - ey).powi(2)).sqrt() <= tol);
                match hit {
                    Some(j) => used[j] = true,
                    None => {
                        res.push(("poly:vertices:value".into(), json!({"spec": [ex, ey], "impl": pts, "tol": tol})));
                        break;
                    }
                }
            }
            let area = s2 * jint(c, "area16") as f64 / 16.0;
            let pa = ring(&pts);
            if !((pa - area).abs() <= 1.5 * b.dev * b.perim + REL_TOL * area) {
                res.push(("poly:polygon-area".into(), json!({"spec": area, "impl": format!("{}", pa)})));
            }
            if !close(b.b.area() as f64, area, 0.0) {
                res.push(("poly:area".into(), json!({"spec": area, "impl": b.b.area()})));
            }
            let (gx, gy) = (pts.iter().map(|p| p.0).sum::<f64>() / 4.0, pts.iter().map(|p| p.1).sum::<f64>() / 4.0);
            let (ex, ey) = m.apply(ecx, ecy);
            if !(((gx - ex).powi(2) + (gy - ey).powi(2)).sqrt() <= tol) {
                res.push(("poly:centre".into(), json!({"spec": [ex, ey], "impl": [gx, gy]})));
            }
            let r = m.s * (jint(c, "r16") as f64).sqrt() / 4.0;
            if !close(b.b.get_radius() as f64, r, 0.0) {
                res.push(("poly:radius".into(), json!({"spec": r, "impl": b.b.get_radius()})));
            }
            for p in &pts {
                let d = ((p.0 - gx).powi(2) + (p.1 - gy).powi(2)).sqrt();
                if !((d - r).abs() <= 2.0 * tol + REL_TOL * r) {
                    res.push(("poly:vertex-radius".into(), json!({"spec": r, "impl": d})));
                    break;
                }
            }
            res
        }));
        let ctx = json!({"variant": vname, "motion": m.json(), "box": format!("{:?}", (b.b.xc, b.b.yc, b.b.angle, b.b.aspect, b.b.height))});
        match res {
            Ok(v) => {
                for (sig, mut d) in v {
                    d["ctx"] = ctx.clone();
                    out.push((sig, d));
                }
            }
            Err(p) => out.push(("poly:panic".into(), json!({"ctx": ctx, "panic": panic_text(&p)}))),
        }
    }
    report_once(idx, c, out, rep);
}

/// required verdict recomputed on the values an f32 really holds: the spec's verdict is checked only when the
/// representable inputs are still on the same side of EPS (band 0.95 .. 1.05 EPS left open)
fn verdict_on_f32(d: &[f64]) -> &'static str {
    if d.iter().all(|x| x.abs() < 0.95 * LIB_EPS) {
        "equal"
    } else if d.iter().any(|x| x.abs() > 1.05 * LIB_EPS) {
        "unequal"
    } else {
        "open"
    }
}

fn eq_case(idx: usize, c: &Value, rep: &mut Report) {
    let ty = jstr(c, "ty");
    let u: Vec<f64> = jarr(c, "u").iter().map(|x| ji(x) as f64 * 1e-6).collect();
    let v: Vec<f64> = jarr(c, "v").iter().map(|x| ji(x) as f64 * 1e-6).collect();
    let k = jint(c, "k");
    let req = jstr(c, "req");
    let field = jstr(c, "field");
    let maxd = jarr(c, "u").iter().zip(jarr(c, "v").iter()).map(|(a, b)| (ji(a) - ji(b)).abs()).max().unwrap_or(0);
    if (9..=11).contains(&maxd) || field.contains('+') {
        rep.nontrivial += 1;
        rep.count("eq_epsilon_boundary", 1);
    }
    rep.steps += 1;
    let tyname = if ty == "bbox" { "BoundingBox" } else { "Universal2DBox" };
    let sigfield = if field.contains('+') { "two-coordinates" } else { field };
    let res = catch_unwind(AssertUnwindSafe(|| -> (bool, bool, bool, bool, Vec<f64>) {
        if ty == "bbox" {
            let mk = |z: &[f64]| BoundingBox::new_with_confidence(z[0] as f32, z[1] as f32, z[2] as f32, z[3] as f32, z[4] as f32);
            let (a, b) = (mk(&u), mk(&v));
            let d = vec![
                a.left as f64 - b.left as f64,
                a.top as f64 - b.top as f64,
                a.width as f64 - b.width as f64,
                a.height as f64 - b.height as f64,
                a.confidence as f64 - b.confidence as f64,
            ];
            (a == b, b == a, a == a, b == b, d)
        } else {
            // k = 99: neither box has an angle; 98: only the second one has (its angle coordinate, base 0); 97: only the first
            let mk = |z: &[f64], first: bool| {
                let ang = match k {
                    99 => None,
                    98 => if first { None } else { Some(z[2] as f32) },
                    97 => if first { Some(z[2] as f32) } else { None },
                    _ => Some((k as f64 * PI / 2.0 + z[2]) as f32),
                };
                Universal2DBox::new(z[0] as f32, z[1] as f32, ang, z[3] as f32, z[4] as f32)
            };
            let (a, b) = (mk(&u, true), mk(&v, false));
            let d = vec![
                a.xc as f64 - b.xc as f64,
                a.yc as f64 - b.yc as f64,
                a.angle.unwrap_or(0.0) as f64 - b.angle.unwrap_or(0.0) as f64,
                a.aspect as f64 - b.aspect as f64,
                a.height as f64 - b.height as f64,
            ];
            (a == b, b == a, a == a, b == b, d)
        }
    }));
    let mut out: Vec<(String, Value)> = vec![];
    match res {
        Err(p) => out.push((format!("eq:{}:panic", tyname), json!({"panic": panic_text(&p)}))),
        Ok((ab, ba, aa, bb, d)) => {
            let det = json!({"a==b": ab, "b==a": ba, "required": req, "f32_differences": d, "field": field});
            if !aa || !bb {
                out.push((format!("eq:{}.{}:irreflexive", tyname, sigfield), det.clone()));
            }
            if ab != ba {
                out.push((format!("eq:{}.{}:asymmetric", tyname, sigfield), det.clone()));
            } else if req != "open" {
                if verdict_on_f32(&d) == req {
                    if (req == "equal") != ab {
                        out.push((format!("eq:{}.{}:{}-expected", tyname, sigfield, req), det.clone()));
                    }
                } else {
                    rep.count("eq_verdict_not_representable_in_f32", 1);
                }
            } else {
                rep.count("eq_open_band", 1);
            }
        }
    }
    report_once(idx, c, out, rep);
}

fn norm_case(idx: usize, c: &Value, rep: &mut Report) {
    let (k, n, exp) = (jint(c, "k"), jint(c, "n"), jint(c, "exp"));
    if k < 0 || k >= n {
        rep.nontrivial += 1;
    }
    rep.steps += 1;
    let a = (k as f64 * 2.0 * PI / n as f64) as f32;
    let e = exp as f64 * 2.0 * PI / n as f64;
    let mut out: Vec<(String, Value)> = vec![];
    match catch_unwind(|| normalize_angle(a)) {
        Err(p) => out.push(("norm:panic".into(), json!({"panic": panic_text(&p)}))),
        Ok(r) => {
            let r = r as f64;
            let det = json!({"angle": a, "spec": e, "impl": r});
            // a normalised angle may equal 2*pi after rounding
            if !(r >= 0.0 && r <= (2.0 * std::f32::consts::PI) as f64 + 1e-6) {
                out.push(("norm:range".into(), det.clone()));
            } else {
                let d = (r - e).abs() % (2.0 * PI);
                if d.min(2.0 * PI - d) > IOU_TOL {
                    out.push(("norm:value".into(), det));
                }
            }
        }
    }
    report_once(idx, c, out, rep);
}

pub fn main(opts: &Opts) {
    let seed = opts.u64("seed", 1);
    let mut rep = Report::new();
    rep.keep = opts.usize("keep", 3);
    for_each_case(opts, |idx, c| {
        rep.cases += 1;
        rep.sample(&c);
        match jstr(&c, "kind") {
            "pair" => pair_case(idx, &c, seed, &mut rep),
            "own" => own_case(idx, &c, seed, &mut rep),
            "conv" => conv_case(idx, &c, &mut rep),
            "poly" => poly_case(idx, &c, seed, &mut rep),
            "eq" => eq_case(idx, &c, &mut rep),
            "norm" => norm_case(idx, &c, &mut rep),
            o => {
                eprintln!("vh geom: unknown case kind {}", o);
                std::process::exit(2);
            }
        }
    });
    rep.finish();
}
