//! spec -> impl replay for the Kalman filters - property C07 (restricted scope).
//!
//! Three kinds of TLC-generated cases (spec/kalman):
//!  * `gate`  (GenGate.tla): distances in 1/10000 units with the direct and inverted cost the specification
//!    requires for the box (5 dof), point and point-vector (2 dof) filters -> `calculate_cost(d, inverted)`;
//!  * `proto` (GenKP.tla): operation sequences initiate(m_i0); (predict | update(m_j) | distance(m_j))* with
//!    flags telling where the stationary outcome is mandated -> box filter, and the vector filter against one
//!    point filter per point (bitwise through `verif_raw`); covariance symmetric / positive-definite after
//!    every operation;
//!  * `exact` (GenK.tla): two predict/update cycles of the textbook recurrence in exact rationals -> box
//!    filter (x or y moving, everything else stationary) and point filter, 1e-3 relative.
use crate::common::*;
use serde_json::{json, Value};
use similari::utils::bbox::Universal2DBox;
use similari::utils::kalman::kalman_2d_box::Universal2DBoxKalmanFilter;
use similari::utils::kalman::kalman_2d_point::Point2DKalmanFilter;
use similari::utils::kalman::kalman_2d_point_vec::Vec2DKalmanFilter;

type Mis = Option<(String, Value)>;

/// any point type the filters accept (nalgebra's Point2<f32>) - named only through inference
fn pt<P: From<[f32; 2]>>(x: f32, y: f32) -> P {
    P::from([x, y])
}

fn milli(v: &Value) -> f32 {
    (ji(v) as f64 / 1000.0) as f32
}

fn rat(v: &Value) -> f64 {
    ji(&v[0]) as f64 / ji(&v[1]) as f64
}

fn bits(v: &[f32]) -> Vec<u32> {
    v.iter().map(|x| x.to_bits()).collect()
}

// ------------------------------------------------------------------------------------------------ gate

/// the decimal text of d / 10000, parsed the way a Rust literal is (so 59915 is exactly the table entry 5.9915)
fn dist_f32(d: i64) -> f32 {
    format!("{}.{:04}", d / 10000, d % 10000).parse::<f32>().unwrap()
}

fn gate_state(cost: f64, d: f64, upper: f64, inverted: bool) -> &'static str {
    let (gated, open) = if inverted { (0.0, upper - d) } else { (upper, d) };
    // at d = upper / 2 ... the two coincide only for direct d = upper; ambiguity is harmless (label only)
    if (cost - open).abs() <= 1e-4 {
        "open"
    } else if (cost - gated).abs() <= 1e-4 {
        "gated"
    } else {
        "other"
    }
}

fn replay_gate(idx: usize, c: &Value, rep: &mut Report, perturb: usize) {
    let filter = jstr(c, "filter").to_string();
    let ds: Vec<i64> = jarr(c, "d").iter().map(ji).collect();
    let upper = jint(c, "upper") as f64 / 1e4;
    let dof = jint(c, "dof");
    let gate = if dof == 2 { 59915 } else { 110700 };
    if ds.iter().any(|d| (d - gate).abs() <= 10000 || (d - 59915).abs() <= 10000 || (d - 110700).abs() <= 10000) {
        rep.nontrivial += 1;
        rep.count("gate_near_a_gate", 1);
    }
    let fs: Vec<f32> = ds.iter().map(|d| dist_f32(*d)).collect();
    for inverted in [false, true] {
        let key = if inverted { "inverted" } else { "direct" };
        let exp: Vec<f64> = jarr(c, key).iter().map(|e| ji(e) as f64 / 1e4 * if perturb == 1 { 1.01 } else { 1.0 }).collect();
        let fs2 = fs.clone();
        let flt = filter.clone();
        let got = std::panic::catch_unwind(move || -> Vec<f32> {
            match flt.as_str() {
                "box" => fs2.iter().map(|d| Universal2DBoxKalmanFilter::calculate_cost(*d, inverted)).collect(),
                "point" => fs2.iter().map(|d| Point2DKalmanFilter::calculate_cost(*d, inverted)).collect(),
                "vec" => Vec2DKalmanFilter::calculate_cost(&fs2, inverted),
                o => panic!("filter {}", o),
            }
        });
        let got = match got {
            Ok(g) => g,
            Err(_) => return rep.mismatch(&format!("{}:calculate_cost:panic", filter), idx, c, json!({"inverted": inverted})),
        };
        if got.len() != exp.len() {
            return rep.mismatch(&format!("{}:calculate_cost:length", filter), idx, c, json!({"impl": got}));
        }
        for i in 0..exp.len() {
            rep.steps += 1;
            if !((got[i] as f64 - exp[i]).abs() <= 1e-4) {
                let d = ds[i] as f64 / 1e4;
                let sig = format!(
                    "{}:calculate_cost:{}:spec={}:impl={}",
                    filter,
                    key,
                    gate_state(exp[i], d, upper, inverted),
                    gate_state(got[i] as f64, d, upper, inverted)
                );
                return rep.mismatch(&sig, idx, c, json!({"d": d, "inverted": inverted, "spec": exp[i], "impl": got[i], "dof": dof}));
            }
        }
    }
}

// ------------------------------------------------------------------------------------------------ covariance facts

/// symmetric and positive-definite (Cholesky in f64 on the f32 values).
/// Symmetry tolerance for entry (i, j): 1e-4 relative to sqrt(P_ii P_jj) plus 1e-5 relative to the largest
/// sqrt(P_ii P_jj) seen so far in the sequence (`seen` = running maximum of every diagonal entry): an update
/// subtracts numbers of the prior's magnitude, so the rounding error of the difference scales with the prior,
/// not with the (possibly much smaller) posterior.  Numeric accuracy itself is outside this check's scope.
fn cov_facts(who: &str, cov: &[f32], perturb: usize, seen: &mut Vec<f64>) -> Mis {
    let n = (cov.len() as f64).sqrt().round() as usize;
    seen.resize(n, 0.0);
    let mut a: Vec<f64> = cov.iter().map(|x| *x as f64).collect();
    if perturb == 3 {
        // symmetric, positive diagonal, but correlation 2 between position 0 and its velocity
        let h = n / 2;
        let v = 2.0 * (a[0] * a[h * n + h]).sqrt();
        a[h] = v;
        a[h * n] = v;
    }
    if perturb == 4 {
        a[1] += a[0];
    }
    if a.iter().any(|x| !x.is_finite()) {
        return Some((format!("{}:covariance:not finite", who), json!({"cov": cov})));
    }
    for i in 0..n {
        if !(a[i * n + i] > 0.0) {
            return Some((format!("{}:covariance:diagonal not positive", who), json!({"i": i, "value": a[i * n + i]})));
        }
        seen[i] = seen[i].max(a[i * n + i]);
    }
    for i in 0..n {
        for j in 0..i {
            let scale = (a[i * n + i] * a[j * n + j]).sqrt();
            if (a[i * n + j] - a[j * n + i]).abs() > 1e-4 * scale + 1e-5 * (seen[i] * seen[j]).sqrt() {
                return Some((
                    format!("{}:covariance:asymmetric", who),
                    json!({"i": i, "j": j, "ij": a[i * n + j], "ji": a[j * n + i]}),
                ));
            }
        }
    }
    // Cholesky on the symmetrised matrix
    let mut l = vec![0.0f64; n * n];
    for i in 0..n {
        for j in 0..=i {
            let mut s = 0.5 * (a[i * n + j] + a[j * n + i]);
            for k in 0..j {
                s -= l[i * n + k] * l[j * n + k];
            }
            if i == j {
                if !(s > 0.0) {
                    return Some((format!("{}:covariance:not positive-definite", who), json!({"pivot": i, "value": s})));
                }
                l[i * n + i] = s.sqrt();
            } else {
                l[i * n + j] = s / l[j * n + j];
            }
        }
    }
    None
}

fn near(got: f64, exp: f64, abs: f64) -> bool {
    got.is_finite() && (got - exp).abs() <= 1e-3 * exp.abs() + abs
}

/// stationary outcome: position = measurement, velocity = 0
fn stationary(who: &str, mean: &[f32], meas: &[f32], perturb: usize) -> Mis {
    let n = meas.len();
    for i in 0..n {
        let exp = meas[i] as f64 * if perturb == 1 { 1.01 } else { 1.0 };
        if !near(mean[i] as f64, exp, 1e-6) {
            return Some((format!("{}:stationary:mean moved", who), json!({"coordinate": i, "spec": exp, "impl": mean[i]})));
        }
        if !((mean[n + i] as f64).abs() <= 1e-4) {
            return Some((format!("{}:stationary:velocity not 0", who), json!({"coordinate": i, "impl": mean[n + i]})));
        }
    }
    None
}

fn dist_facts(who: &str, d: f32, zero: bool) -> Mis {
    if !(d.is_finite() && d >= 0.0) {
        return Some((format!("{}:distance:negative or not finite", who), json!({"impl": d})));
    }
    if zero && d.abs() > 1e-4 {
        return Some((format!("{}:stationary:distance not 0", who), json!({"impl": d})));
    }
    None
}

// ------------------------------------------------------------------------------------------------ proto

fn box_of(m: &Value) -> (Universal2DBox, Vec<f32>) {
    let v: Vec<f32> = m.as_array().expect("box").iter().map(milli).collect();
    let angle = if ji(&m[2]) == 0 { None } else { Some(v[2]) };
    (Universal2DBox::new(v[0], v[1], angle, v[3], v[4]), v)
}

fn weights(c: &Value) -> (f32, f32, bool) {
    let w = jarr(c, "w");
    let (a, b) = (ji(&w[0]), ji(&w[1]));
    (1.0 / a as f32, 1.0 / b as f32, a == 20 && b == 160)
}

fn proto_box(c: &Value, rep: &mut Report, perturb: usize) -> Mis {
    let (wp, wv, dflt) = weights(c);
    let f = if dflt { Universal2DBoxKalmanFilter::default() } else { Universal2DBoxKalmanFilter::new(wp, wv) };
    let meas: Vec<(Universal2DBox, Vec<f32>)> = jarr(c, "meas").iter().map(box_of).collect();
    let i0 = jint(c, "i0") as usize - 1;
    let (stat, dzero) = (jarr(c, "stat"), jarr(c, "dzero"));
    let mut s = f.initiate(&meas[i0].0);
    // the specification has one measurement "angle 0": a box without angle and a box with angle Some(0.0) are that same
    // measurement, so a second filter state fed with the other encoding must stay equal to the first
    let twin = |b: &Universal2DBox| if b.angle.is_none() { Universal2DBox::new(b.xc, b.yc, Some(0.0), b.aspect, b.height) } else { b.clone() };
    let mut s2 = f.initiate(&twin(&meas[i0].0));
    let mut seen: Vec<f64> = vec![];
    let (m0, c0) = s.verif_raw();
    if let Some(m) = stationary("box:initiate", &m0, &meas[i0].1, perturb).or_else(|| cov_facts("box:initiate", &c0, perturb, &mut seen)) {
        return Some(m);
    }
    for (k, op) in jarr(c, "ops").iter().enumerate() {
        rep.steps += 1;
        let name = op[0].as_str().expect("op name");
        let j = ji(&op[1]) as usize;
        let who = format!("box:{}", match name { "p" => "predict", "u" => "update", _ => "distance" });
        match name {
            "p" => s2 = f.predict(&s2),
            "u" => s2 = f.update(&s2, &twin(&meas[j - 1].0)),
            _ => {
                let (d1, d2) = (f.distance(s, &meas[j - 1].0), f.distance(s2, &twin(&meas[j - 1].0)));
                if d1.to_bits() != d2.to_bits() && !(d1.is_nan() && d2.is_nan()) {
                    return Some((format!("{}:a box without angle is not measured as angle 0", who), json!({"none": d1, "zero": d2, "op": k})));
                }
            }
        }
        match name {
            "p" => s = f.predict(&s),
            "u" => s = f.update(&s, &meas[j - 1].0),
            "d" => {
                let d = f.distance(s, &meas[j - 1].0);
                if let Some(m) = dist_facts(&who, d, ji(&dzero[k]) == 1) {
                    return Some(m);
                }
                if ji(&dzero[k]) == 1 {
                    rep.count("proto_zero_distance_checked", 1);
                }
            }
            o => panic!("op {}", o),
        }
        let (mean, cov) = s.verif_raw();
        let (mean2, cov2) = s2.verif_raw();
        if mean.iter().zip(mean2.iter()).chain(cov.iter().zip(cov2.iter())).any(|(a, b)| a.to_bits() != b.to_bits() && !(a.is_nan() && b.is_nan())) {
            return Some((format!("{}:a box without angle is not measured as angle 0", who), json!({"none": mean, "zero": mean2, "op": k})));
        }
        if ji(&stat[k]) == 1 {
            rep.count("proto_stationary_state_checked", 1);
            if let Some(m) = stationary(&who, &mean, &meas[i0].1, perturb) {
                return Some(m);
            }
        }
        if let Some(m) = cov_facts(&who, &cov, perturb, &mut seen) {
            return Some(m);
        }
    }
    None
}

fn proto_vec(c: &Value, rep: &mut Report, perturb: usize) -> Mis {
    let (wp, wv, dflt) = weights(c);
    let vf = if dflt { Vec2DKalmanFilter::default() } else { Vec2DKalmanFilter::new(wp, wv) };
    let pf = if perturb == 2 {
        Point2DKalmanFilter::new(wp * 1.001, wv)
    } else if dflt {
        Point2DKalmanFilter::default()
    } else {
        Point2DKalmanFilter::new(wp, wv)
    };
    // measurement sets: raw coordinates, and the same as points
    let raw: Vec<Vec<[f32; 2]>> = jarr(c, "meas")
        .iter()
        .map(|set| set.as_array().expect("point set").iter().map(|p| [milli(&p[0]), milli(&p[1])]).collect())
        .collect();
    let sets: Vec<Vec<_>> = raw.iter().map(|set| set.iter().map(|p| pt(p[0], p[1])).collect()).collect();
    let i0 = jint(c, "i0") as usize - 1;
    let (stat, dzero) = (jarr(c, "stat"), jarr(c, "dzero"));
    let np = raw[i0].len();
    let mut vs = vf.initiate(sets[i0].as_slice());
    let mut ps: Vec<_> = (0..np).map(|i| pf.initiate(&sets[i0][i])).collect();
    if vs.len() != np {
        return Some(("vec:initiate:number of states".into(), json!({"impl": vs.len(), "points": np})));
    }
    let ops = jarr(c, "ops");
    let mut seen: Vec<Vec<f64>> = vec![vec![]; np];
    for k in 0..=ops.len() {
        // k = 0: the state after initiate; k >= 1: after operation k
        let mut who = "vec:initiate".to_string();
        let mut vd: Vec<f32> = vec![];
        let mut pd: Vec<f32> = vec![];
        let mut zero = false;
        let mut st = true;
        if k > 0 {
            rep.steps += 1;
            let op = &ops[k - 1];
            let name = op[0].as_str().expect("op name");
            let j = ji(&op[1]) as usize;
            who = format!("vec:{}", match name { "p" => "predict", "u" => "update", "r" => "reinitiate-one-point", _ => "distance" });
            st = ji(&stat[k - 1]) == 1;
            zero = ji(&dzero[k - 1]) == 1;
            match name {
                "p" => {
                    vs = vf.predict(&vs);
                    ps = ps.iter().map(|s| pf.predict(s)).collect();
                }
                "u" => {
                    vs = vf.update(&vs, sets[j - 1].as_slice());
                    ps = ps.iter().zip(sets[j - 1].iter()).map(|(s, p)| pf.update(s, p)).collect();
                }
                "d" => {
                    vd = vf.distance(&vs, sets[j - 1].as_slice());
                    pd = ps.iter().zip(sets[j - 1].iter()).map(|(s, p)| pf.distance(s, p)).collect();
                }
                "r" => {
                    // one element of the state vector gets a fresh history; the others keep theirs
                    let fresh = vf.initiate(&sets[j - 1][0..1]);
                    vs[0] = fresh[0];
                    ps[0] = pf.initiate(&sets[j - 1][0]);
                }
                o => panic!("op {}", o),
            }
        }
        if vs.len() != np {
            return Some((format!("{}:number of states", who), json!({"impl": vs.len(), "points": np})));
        }
        if bits(&vd) != bits(&pd) {
            return Some((format!("{}:differs from the point filter", who), json!({"vec": vd, "point": pd})));
        }
        for i in 0..np {
            let (vm, vc) = vs[i].verif_raw();
            let (pm, pc) = ps[i].verif_raw();
            if bits(&vm) != bits(&pm) || bits(&vc) != bits(&pc) {
                return Some((
                    format!("{}:state differs from the point filter", who),
                    json!({"point_index": i, "vec_mean": vm, "point_mean": pm}),
                ));
            }
            // facts of the property on the point filter state (= the vector filter's, bit for bit)
            let pwho = who.replace("vec:", "point:");
            if st {
                rep.count("proto_stationary_state_checked", 1);
                if let Some(m) = stationary(&pwho, &pm, &raw[i0][i], perturb) {
                    return Some(m);
                }
            }
            if let Some(m) = cov_facts(&pwho, &pc, perturb, &mut seen[i]) {
                return Some(m);
            }
            if !pd.is_empty() {
                if let Some(m) = dist_facts(&pwho, pd[i], zero) {
                    return Some(m);
                }
                if zero {
                    rep.count("proto_zero_distance_checked", 1);
                }
            }
        }
    }
    None
}

fn replay_proto(idx: usize, c: &Value, rep: &mut Report, perturb: usize) {
    let ops = jarr(c, "ops");
    let has = |n: &str| ops.iter().any(|o| o[0] == n);
    // non-trivial: the covariance evolves under a gain (a predict and an update both occur)
    if has("p") && has("u") {
        rep.nontrivial += 1;
    }
    if jarr(c, "stat").iter().any(|s| ji(s) == 0) {
        rep.count("proto_moving_object", 1);
    }
    let filter = jstr(c, "filter").to_string();
    let r = std::panic::catch_unwind(std::panic::AssertUnwindSafe(|| match filter.as_str() {
        "box" => proto_box(c, rep, perturb),
        "vec" => proto_vec(c, rep, perturb),
        o => panic!("filter {}", o),
    }));
    match r {
        Ok(None) => {}
        Ok(Some((sig, d))) => rep.mismatch(&sig, idx, c, d),
        Err(_) => rep.mismatch(&format!("{}:proto:panic", filter), idx, c, json!({})),
    }
}

// ------------------------------------------------------------------------------------------------ exact

/// (mean position, mean velocity, pp, pv, vv) of coordinate `i` out of `n` measured coordinates
fn coord(raw: &(Vec<f32>, Vec<f32>), i: usize, n: usize) -> [f64; 5] {
    let (m, c) = raw;
    let d = 2 * n;
    [m[i] as f64, m[n + i] as f64, c[i * d + i] as f64, c[i * d + n + i] as f64, c[(n + i) * d + n + i] as f64]
}

const PARTS: [&str; 5] = ["mean", "velocity", "cov(p,p)", "cov(p,v)", "cov(v,v)"];

/// expected state (mean, velocity, three covariance entries) of the run seen `k` times smaller around `c`
fn scaled_exp(exp: &Value, c: f64, k: f64) -> [f64; 5] {
    [c + k * (rat(&exp[0]) - c), k * rat(&exp[1]), k * k * rat(&exp[2]), k * k * rat(&exp[3]), k * k * rat(&exp[4])]
}

fn cmp_exact(who: &str, step: usize, got: [f64; 5], exp: [f64; 5], perturb: usize, k: f64, c: f64) -> Mis {
    for q in 0..5 {
        let e = exp[q] * if perturb == 1 { 1.01 } else { 1.0 };
        let ok = if q == 0 && k < 1.0 {
            // the shrunk scene: the estimate is judged on its offset from the centre of the shrinking (f32 carries
            // about 1e-5 at this magnitude)
            got[q].is_finite() && (got[q] - e).abs() <= 1e-3 * (e - c).abs() + 3e-5
        } else {
            near(got[q], e, (if q < 2 { 1e-4 } else { 1e-6 }) * if q < 2 { k.min(1.0) } else { (k * k).min(1.0) })
        };
        if !ok {
            return Some((format!("{}:exact:{}", who, PARTS[q]), json!({"after_op": step + 1, "spec": e, "impl": got[q]})));
        }
    }
    None
}

fn exact_targets(c: &Value, rep: &mut Report, perturb: usize) -> Mis {
    let z: Vec<f32> = jarr(c, "z").iter().map(|v| ji(v) as f32).collect();
    let ops: Vec<&str> = jarr(c, "ops").iter().map(|o| o.as_str().expect("op")).collect();
    let st = jarr(c, "st");
    let dexp = rat(jget(c, "d")) * if perturb == 1 { 1.01 } else { 1.0 };
    const OTHER: f32 = 50.0;
    // the parameter set of the specification and its equivalent one (same sigma = w * h): same expected numbers
    // (height, position weight, velocity weight, tag, shrink factor of the scene around the first measurement)
    let mut psets = vec![(rat(jget(c, "h")), rat(jget(c, "wp")), rat(jget(c, "wv")), "", 1.0f64)];
    if let Some(a) = c.get("alt") {
        psets.push((rat(jget(a, "h")), rat(jget(a, "wp")), rat(jget(a, "wv")), "alt-", 1.0));
    }
    if let Some(k) = c.get("shrink") {
        // the same scene seen smaller: measurements z0 + k (z - z0), box height k h (so every sigma = w h shrinks by k);
        // TLC checked that the exact recurrence scales accordingly on this very case (KalmanExact!ScaledOK)
        let k = rat(k);
        psets.push((rat(jget(c, "h")) * k, rat(jget(c, "wp")), rat(jget(c, "wv")), "small-", k));
    }
    let z0 = z[0];
    let zs = |k: f64| -> Vec<f32> { z.iter().map(|v| (z0 as f64 + k * (*v as f64 - z0 as f64)) as f32).collect() };
    for (h, wp, wv, tag, k) in psets.clone() {
        let z = zs(k);
        // ---- through a tracker: initiate(z0); predict; update(z0); predict; update(z2) is what Sort does with the
        //      detections z0, z2 - the run of the specification with z1 = z0 (estimates after the two updates)
        // (z3 is not used by the trackers: one case per (z0, z2); building a tracker starts threads, so not under the
        // covariance perturbations of the binding demonstration either)
        if z[1] == z[0] && z[3] == z[2] && perturb < 2 {
            if let Some(m) = exact_through_tracker(&z, h, wp, wv, tag, st, perturb, z0 as f64, k) {
                return Some(m);
            }
        }
    }
    for (h, wp, wv, tag, shrink) in psets {
    let z = zs(shrink);
    for axis in 0..2usize {
        // ---- box filter: the chosen centre coordinate moves, everything else is stationary
        let who = format!("{}box-{}", tag, if axis == 0 { "x" } else { "y" });
        let f = Universal2DBoxKalmanFilter::new(wp as f32, wv as f32);
        let bx = |v: f32| {
            if axis == 0 {
                Universal2DBox::new(v, OTHER, None, 1.0, h as f32)
            } else {
                Universal2DBox::new(OTHER, v, None, 1.0, h as f32)
            }
        };
        let mut s = f.initiate(&bx(z[0]));
        let mut seen: Vec<f64> = vec![];
        let mut nu = 0;
        for (k, op) in ops.iter().enumerate() {
            rep.steps += 1;
            if *op == "p" {
                s = f.predict(&s);
            } else {
                nu += 1;
                s = f.update(&s, &bx(z[nu]));
            }
            let raw = s.verif_raw();
            if let Some(m) = cmp_exact(&who, k, coord(&raw, axis, 5), scaled_exp(&st[k], z0 as f64, shrink), perturb, shrink, z0 as f64).or_else(|| cov_facts(&who, &raw.1, perturb, &mut seen)) {
                return Some(m);
            }
            // the stationary coordinates stay where they are
            let other = coord(&raw, 1 - axis, 5);
            if !near(other[0], OTHER as f64, 1e-6) || !near(raw.0[4] as f64, h, 1e-6) {
                return Some((format!("{}:exact:stationary coordinate moved", who), json!({"mean": raw.0})));
            }
        }
        let d = f.distance(s, &bx(z[3])) as f64;
        if !near(d, dexp, 1e-4) {
            return Some((format!("{}:exact:distance", who), json!({"spec": dexp, "impl": d})));
        }
        // ---- point filter: no height scaling, so the weights are w * h
        if !tag.is_empty() {
            continue; // the point filter has no height: one parameter set
        }
        let who = format!("point-{}", if axis == 0 { "x" } else { "y" });
        let f = Point2DKalmanFilter::new((wp * h) as f32, (wv * h) as f32);
        let p = |v: f32| if axis == 0 { (v, OTHER) } else { (OTHER, v) };
        let mut s = f.initiate(&pt(p(z[0]).0, p(z[0]).1));
        let mut seen: Vec<f64> = vec![];
        let mut nu = 0;
        for (k, op) in ops.iter().enumerate() {
            rep.steps += 1;
            if *op == "p" {
                s = f.predict(&s);
            } else {
                nu += 1;
                s = f.update(&s, &pt(p(z[nu]).0, p(z[nu]).1));
            }
            let raw = s.verif_raw();
            if let Some(m) = cmp_exact(&who, k, coord(&raw, axis, 2), scaled_exp(&st[k], z0 as f64, 1.0), perturb, 1.0, z0 as f64).or_else(|| cov_facts(&who, &raw.1, perturb, &mut seen)) {
                return Some(m);
            }
        }
        let d = f.distance(&s, &pt(p(z[3]).0, p(z[3]).1)) as f64;
        if !near(d, dexp, 1e-4) {
            return Some((format!("{}:exact:distance", who), json!({"spec": dexp, "impl": d})));
        }
    }
    }
    None
}

/// the same recurrence observed through the trackers (each tracker is built with its own Kalman weights; several
/// trackers with different weights live in this process one after the other)
fn exact_through_tracker(z: &[f32], h: f64, wp: f64, wv: f64, tag: &str, st: &[Value], perturb: usize, c: f64, k: f64) -> Mis {
    use similari::prelude::{PositionalMetricType, Sort, VisualSort, VisualSortObservation, VisualSortOptions};
    let bx = |v: f32| Universal2DBox::new(v, 50.0, None, 1.0, h as f32);
    let p = |i: usize| (c + k * (rat(&st[i][0]) - c)) * if perturb == 1 { 1.01 } else { 1.0 };
    let check = |who: &str, step: usize, got: f32, exp: f64, len: usize| -> Mis {
        if len != step + 1 {
            return Some((format!("{}{}:exact:track not continued", tag, who), json!({"detection": step + 1, "track_length": len})));
        }
        if !(got.is_finite() && (got as f64 - exp).abs() <= 1e-3 * (exp - c).abs() * if perturb == 1 { 0.0 } else { 1.0 } + 1e-4 * k.min(1.0) + 3e-5) {
            return Some((format!("{}{}:exact:estimate", tag, who), json!({"detection": step + 1, "spec": exp, "impl": got, "weights": [wp, wv], "height": h})));
        }
        None
    };
    let mut t = Sort::new(1, 2, 5, PositionalMetricType::IoU(0.01), 0.05, None, wp as f32, wv as f32);
    for (step, (zi, k)) in [(z[0], 1usize), (z[2], 3usize)].iter().enumerate() {
        let r = t.predict(&[(bx(*zi), None)]);
        if let Some(m) = check("sort", step, r[0].predicted_bbox.xc, p(*k), r[0].length) {
            return Some(m);
        }
    }
    let opts = VisualSortOptions::default()
        .positional_metric(PositionalMetricType::IoU(0.01))
        .kalman_position_weight(wp as f32)
        .kalman_velocity_weight(wv as f32)
        .max_idle_epochs(5);
    let mut t = VisualSort::new(1, &opts);
    for (step, (zi, k)) in [(z[0], 1usize), (z[2], 3usize)].iter().enumerate() {
        let r = t.predict(&[VisualSortObservation::new(None, None, bx(*zi), None)]);
        if let Some(m) = check("visualsort", step, r[0].predicted_bbox.xc, p(*k), r[0].length) {
            return Some(m);
        }
    }
    None
}

fn replay_exact(idx: usize, c: &Value, rep: &mut Report, perturb: usize) {
    // non-trivial: the object really moves (not all four measurements equal)
    let z = jarr(c, "z");
    if z.iter().any(|v| v != &z[0]) {
        rep.nontrivial += 1;
    }
    let r = std::panic::catch_unwind(std::panic::AssertUnwindSafe(|| exact_targets(c, rep, perturb)));
    match r {
        Ok(None) => {}
        Ok(Some((sig, d))) => rep.mismatch(&sig, idx, c, d),
        Err(_) => rep.mismatch("exact:panic", idx, c, json!({})),
    }
}

/// exact run with a changing box height (spec/kalman/KalmanExactH.tla): box filter only
fn exact_height(c: &Value, perturb: usize) -> Mis {
    let xs: Vec<f32> = jarr(c, "x").iter().map(|v| ji(v) as f32).collect();
    let hs: Vec<f32> = jarr(c, "hs").iter().map(|v| ji(v) as f32).collect();
    let (wp, wv) = (rat(jget(c, "wp")), rat(jget(c, "wv")));
    let f = Universal2DBoxKalmanFilter::new(wp as f32, wv as f32);
    let bx = |x: f32, h: f32| Universal2DBox::new(x, 50.0, None, 0.5, h);
    let s0 = f.initiate(&bx(xs[0], hs[0]));
    let s1 = f.predict(&s0);
    let s2 = f.update(&s1, &bx(xs[1], hs[1]));
    let raw2 = s2.verif_raw();
    if let Some(m) = cmp_exact("box:x", 2, coord(&raw2, 0, 5), scaled_exp(jget(c, "x2"), 0.0, 1.0), perturb, 1.0, 0.0) {
        return Some(m);
    }
    if let Some(m) = cmp_exact("box:height", 2, coord(&raw2, 4, 5), scaled_exp(jget(c, "h2"), 0.0, 1.0), perturb, 1.0, 0.0) {
        return Some(m);
    }
    let s3 = f.predict(&s2);
    let raw3 = s3.verif_raw();
    if let Some(m) = cmp_exact("box:x", 3, coord(&raw3, 0, 5), scaled_exp(jget(c, "x3"), 0.0, 1.0), perturb, 1.0, 0.0) {
        return Some(m);
    }
    if let Some(m) = cmp_exact("box:height", 3, coord(&raw3, 4, 5), scaled_exp(jget(c, "h3"), 0.0, 1.0), perturb, 1.0, 0.0) {
        return Some(m);
    }
    let d = f.distance(s3, &bx(xs[2], hs[2])) as f64;
    let e = rat(jget(c, "d")) * if perturb == 1 { 1.01 } else { 1.0 };
    if !near(d, e, 1e-4) {
        return Some(("box:exact:distance(changing height)".into(), json!({"spec": e, "impl": d})));
    }
    None
}

pub fn replay_case(idx: usize, c: &Value, rep: &mut Report, perturb: usize) {
    rep.cases += 1;
    rep.sample(c);
    match jstr(c, "kind") {
        "gate" => {
            rep.count("gate_cases", 1);
            replay_gate(idx, c, rep, perturb)
        }
        "proto" => {
            rep.count("proto_cases", 1);
            replay_proto(idx, c, rep, perturb)
        }
        "exact" => {
            rep.count("exact_cases", 1);
            replay_exact(idx, c, rep, perturb)
        }
        "exacth" => {
            rep.count("exact_height_cases", 1);
            rep.nontrivial += 1;
            match std::panic::catch_unwind(|| exact_height(c, perturb)) {
                Ok(None) => {}
                Ok(Some((sig, d))) => rep.mismatch(&sig, idx, c, d),
                Err(_) => rep.mismatch("exacth:panic", idx, c, json!({})),
            }
        }
        o => panic!("kind {}", o),
    }
}

pub fn main(opts: &Opts) {
    // --perturb 1: every expected number * 1.01; 2: the point filter gets a slightly different weight than the
    // vector filter; 3 / 4: the covariance is made indefinite / asymmetric before the covariance facts (liveness
    // demonstrations only)
    let perturb = opts.usize("perturb", 0);
    let mut rep = Report::new();
    for_each_case(opts, |idx, c| replay_case(idx, &c, &mut rep, perturb));
    rep.finish();
}
