//! `vh` - conformance harness binding the TLA+ specifications in /verif/spec to the
//! implementation in /repo.  `vh replay <kind>`: spec -> impl; `vh record <kind>`: impl -> spec.
#![allow(dead_code)]
mod batch_record;
mod boxobj_replay;
mod common;
mod conc_replay;
mod gates;
mod constraints_replay;
mod doubles;
mod drv;
mod feature_replay;
mod geom_replay;
mod kalman_replay;
mod nms_replay;
mod pydump;
mod r2_record;
mod store_replay;
mod track_replay;
mod visvote_replay;
mod tracker_replay;
mod voting_replay;

fn main() {
    // panics in code under test are data; keep stderr quiet
    std::panic::set_hook(Box::new(|_| {}));
    let args: Vec<String> = std::env::args().skip(1).collect();
    if args.len() < 2 {
        eprintln!("usage: vh replay|record <kind> [--opt v]... <files>");
        std::process::exit(2);
    }
    let opts = common::Opts::parse(&args[2..]);
    match (args[0].as_str(), args[1].as_str()) {
        ("replay", "store") => store_replay::main(&opts),
        ("replay", "track") => track_replay::main(&opts),
        ("replay", "tracker") => tracker_replay::main(&opts),
        ("replay", "conc") => conc_replay::main(&opts),
        ("record", "batch") => batch_record::main(&opts),
        ("record", "r2") => r2_record::main(&opts),
        ("record", "conc") => conc_replay::record(&opts),
        ("replay", "boxobj") => boxobj_replay::main(&opts),
        ("replay", "geom") => geom_replay::main(&opts),
        ("replay", "nms") => nms_replay::main(&opts),
        ("replay", "feature") => feature_replay::main(&opts),
        ("replay", "kalman") => kalman_replay::main(&opts),
        ("replay", "constraints") => constraints_replay::main(&opts),
        ("replay", "visvote") => visvote_replay::main(&opts),
        ("replay", "voting") => voting_replay::main(&opts),
        ("dump", k) => pydump::main(k, &opts),
        (a, b) => {
            eprintln!("vh: unknown command {} {}", a, b);
            std::process::exit(2);
        }
    }
}
