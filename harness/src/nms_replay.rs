//! spec -> impl replay of non-maximum suppression (spec/geom/GenN.tla) - property C14.
//!
//! A case is `{dets: [{box: {x, y, w, h, k, na}, score}], thr: [num, den], sthr, outs: [[i, ...], ...], nt}`:
//! lattice boxes (centre (x/2, y/2), width w/2, height h/2, angle k * pi/2, or None when na = 1), scores in
//! hundredths of any sign (-100000 = None), nms threshold num/den, score threshold in hundredths of any sign (-100000 = None), and `outs` = every list
//! of 1-based input indices the specification admits (a single list unless ranks tie).
//!
//! The real `similari::utils::nms::nms` is called on the list in several input orders (identity, reversed, rotated,
//! seeded shuffle); each returned reference is identified by its position in the input slice and mapped back to the
//! case's index; the list must be a member of `outs`.  Then nms is applied to its own output (same thresholds) and
//! must return it unchanged (idempotence).  No property logic here: the expected lists come from TLC.
use crate::common::*;
use rand::seq::SliceRandom;
use rand::SeedableRng;
use serde_json::{json, Value};
use similari::utils::bbox::Universal2DBox;
use similari::utils::nms::nms;

type Det = (Universal2DBox, Option<f32>);
/// marker of `Nms.tla` for "no score" / "no score threshold" (scores themselves may be zero or negative)
pub const NO_SCORE: i64 = -100000;

fn mk_det(d: &Value) -> Det {
    let b = jget(d, "box");
    let (x, y, w, h, k) = (jint(b, "x"), jint(b, "y"), jint(b, "w"), jint(b, "h"), jint(b, "k"));
    let na = b.get("na").map(|v| ji(v) == 1).unwrap_or(false);
    let width = w as f32 / 2.0;
    let height = h as f32 / 2.0;
    // (xc, yc, angle, aspect, height): aspect = width / height; for h = 0 the box is invalid whatever the aspect is
    let aspect = if h != 0 { width / height } else { width };
    let angle = if na { None } else { Some(k as f32 * std::f32::consts::FRAC_PI_2) };
    let s = jint(d, "score");
    (
        Universal2DBox::new(x as f32 / 2.0, y as f32 / 2.0, angle, aspect, height),
        if s <= NO_SCORE { None } else { Some(s as f32 / 100.0) },
    )
}

/// position of the returned reference in the input slice
fn index_of(dets: &[Det], r: &Universal2DBox) -> Option<usize> {
    dets.iter().position(|d| std::ptr::eq(&d.0, r))
}

fn call(dets: &[Det], thr: f32, sthr: Option<f32>) -> Result<Vec<Option<usize>>, ()> {
    std::panic::catch_unwind(std::panic::AssertUnwindSafe(|| {
        nms(dets, thr, sthr).into_iter().map(|r| index_of(dets, r)).collect::<Vec<_>>()
    }))
    .map_err(|_| ())
}

pub fn main(opts: &Opts) {
    let mut rep = Report::new();
    let seed = opts.u64("seed", 1);
    let nperm = opts.usize("perms", 4);
    // liveness demonstration only: scales the nms threshold handed to the implementation
    let perturb = opts.f64("perturb-thr", 1.0) as f32;
    for_each_case(opts, |idx, c| {
        rep.cases += 1;
        rep.sample(&c);
        let jd = jarr(&c, "dets");
        let n = jd.len();
        let thr_v = jarr(&c, "thr");
        let thr = ji(&thr_v[0]) as f32 / ji(&thr_v[1]) as f32 * perturb;
        let st = jint(&c, "sthr");
        let sthr = if st <= NO_SCORE { None } else { Some(st as f32 / 100.0) };
        let outs: Vec<Vec<usize>> =
            jarr(&c, "outs").iter().map(|l| l.as_array().unwrap().iter().map(|i| ji(i) as usize).collect()).collect();
        if jint(&c, "nt") == 1 {
            rep.nontrivial += 1;
        }
        if outs.len() > 1 {
            rep.count("rank_tie_cases", 1);
        }
        rep.count(&format!("len{}", if n > 4 { ">4".to_string() } else { n.to_string() }), 1);
        // input orders: perm[p] = case index (0-based) placed at position p
        let id: Vec<usize> = (0..n).collect();
        let mut perms: Vec<Vec<usize>> = vec![id.clone()];
        if n >= 2 && nperm >= 2 {
            perms.push(id.iter().rev().cloned().collect());
        }
        if n >= 3 && nperm >= 3 {
            let mut r = id.clone();
            r.rotate_left(1);
            perms.push(r);
        }
        if n >= 4 && nperm >= 4 {
            let mut rng = rand::rngs::StdRng::seed_from_u64(seed ^ (idx as u64).wrapping_mul(0x9E37_79B9_7F4A_7C15));
            let mut r = id.clone();
            r.shuffle(&mut rng);
            perms.push(r);
        }
        for (pi, perm) in perms.iter().enumerate() {
            rep.steps += 1;
            let dets: Vec<Det> = perm.iter().map(|&i| mk_det(&jd[i])).collect();
            let got = match call(&dets, thr, sthr) {
                Ok(g) => g,
                Err(_) => {
                    rep.mismatch("nms:panic", idx, &c, json!({"perm": perm}));
                    return;
                }
            };
            if got.iter().any(|g| g.is_none()) {
                rep.mismatch("nms:result is not a reference into the input", idx, &c, json!({"perm": perm}));
                return;
            }
            // back to 1-based case indices
            let list: Vec<usize> = got.iter().map(|g| perm[g.unwrap()] + 1).collect();
            if !outs.iter().any(|o| *o == list) {
                let mut a = list.clone();
                a.sort();
                let same_set = outs.iter().any(|o| {
                    let mut b = o.clone();
                    b.sort();
                    a == b
                });
                let sig = if same_set {
                    "nms:order"
                } else if outs.iter().any(|o| o.len() < list.len()) {
                    "nms:box kept that the specification drops"
                } else if outs.iter().any(|o| o.len() > list.len()) {
                    "nms:box dropped that the specification keeps"
                } else {
                    "nms:different set"
                };
                rep.mismatch(sig, idx, &c, json!({"perm": perm, "impl": list, "spec": outs}));
                return;
            }
            // idempotence: nms of its own output, identity expected
            if pi == 0 {
                let d2: Vec<Det> = got.iter().map(|g| dets[g.unwrap()].clone()).collect();
                match call(&d2, thr, sthr) {
                    Ok(g2) => {
                        let want: Vec<Option<usize>> = (0..d2.len()).map(Some).collect();
                        if g2 != want {
                            rep.mismatch("nms:not idempotent", idx, &c, json!({"first": list, "second": g2}));
                            return;
                        }
                    }
                    Err(_) => {
                        rep.mismatch("nms:panic (second application)", idx, &c, json!({"first": list}));
                        return;
                    }
                }
            }
        }
    });
    rep.finish();
}
