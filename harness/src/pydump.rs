//! `vh dump <area>` - the Rust half of property C18 (Python bindings are a faithful projection of the Rust API).
//!
//! Executes the TLC-generated API scripts of the other engines (tracker behaviours of GenTR / GenVis, constraint
//! tables of GenC, NMS lists of GenN, lattice pairs / conversions / polygons of GenL / GenE, Kalman gate grids,
//! operation sequences and exact runs of GenGate / GenKP / GenK, option-builder scripts of GenPyOpt) through the
//! Rust API the Python classes wrap and prints, per case, `{"i": index, "o": observed}` - the same projection,
//! getter by getter, that `pydrv/run.py` prints through the extension module.  Nothing is compared here; the
//! only expected values looked at are the track ids of the specification, which name the tracks (the batch
//! trackers issue ids in a scheduling-dependent order).
//!
//! Numeric convention (identical in pydrv/run.py): every input number is computed in f64 from the integers of
//! the case and rounded to f32 at the API; every observed f32 is printed as the f64 of the same value.
use crate::common::*;
use serde_json::{json, Map, Value};
use similari::prelude::*;
use similari::trackers::sort::batch_api::SortPredictionBatchRequest;
use similari::trackers::sort::{VotingType, WastedSortTrack};
use similari::trackers::tracker_api::TrackerAPI;
use similari::trackers::visual_sort::batch_api::{BatchVisualSort, VisualSortPredictionBatchRequest};
use similari::trackers::visual_sort::WastedVisualSortTrack;
use similari::utils::kalman::kalman_2d_box::Universal2DBoxKalmanFilter;
use similari::utils::kalman::kalman_2d_point::Point2DKalmanFilter;
use similari::utils::kalman::kalman_2d_point_vec::Vec2DKalmanFilter;
use std::collections::HashMap;
use std::f64::consts::PI;
use std::io::Write;

// ------------------------------------------------------------------------------------------------ projections
fn num(x: f32) -> Value {
    num64(x as f64)
}
fn num64(x: f64) -> Value {
    if x.is_nan() {
        json!("nan")
    } else if x.is_infinite() {
        json!(if x > 0.0 { "inf" } else { "-inf" })
    } else {
        json!(x)
    }
}
fn box6(b: &Universal2DBox) -> Value {
    json!([num(b.xc), num(b.yc), b.angle.map(num).unwrap_or(Value::Null), num(b.aspect), num(b.height), num(b.confidence)])
}
fn ltwh5(b: &BoundingBox) -> Value {
    json!([num(b.left), num(b.top), num(b.width), num(b.height), num(b.confidence)])
}
fn ring_of<I: Iterator<Item = (f64, f64)>>(it: I) -> Vec<(f64, f64)> {
    it.collect()
}
fn points(p: &[(f64, f64)]) -> Value {
    json!(p.iter().map(|c| json!([num64(c.0), num64(c.1)])).collect::<Vec<_>>())
}
/// unsigned area of a closed ring the way geo computes it (shoelace relative to the first vertex)
fn ring_area(p: &[(f64, f64)]) -> f64 {
    if p.len() < 3 || p[0] != p[p.len() - 1] {
        return 0.0;
    }
    let s = p[0];
    let mut t = 0.0;
    for w in p.windows(2) {
        let (a, b) = ((w[0].0 - s.0, w[0].1 - s.1), (w[1].0 - s.0, w[1].1 - s.1));
        t += a.0 * b.1 - a.1 * b.0;
    }
    (t / 2.0).abs()
}

// ------------------------------------------------------------------------------------------------ slot world
fn ubox(xc: f64, yc: f64, angle: Option<f64>, aspect: f64, height: f64, conf: f64) -> Universal2DBox {
    Universal2DBox::new_with_confidence(xc as f32, yc as f32, angle.map(|a| a as f32), aspect as f32, height as f32, conf as f32)
}
fn slot(s: i64) -> (f64, f64, Option<f64>, f64, f64) {
    match s {
        1 => (100.0, 100.0, None, 0.5, 80.0),
        2 => (600.0, 400.0, Some(0.7), 1.5, 40.0),
        3 => (1200.0, 900.0, None, 1.0, 50.0),
        4 => (300.0, 1500.0, Some(2.0), 0.8, 60.0),
        o => panic!("slot {}", o),
    }
}
fn feat(sym: i64) -> Option<Vec<f32>> {
    match sym {
        0 => None,
        1 => Some(vec![0.0, 0.0]),
        2 => Some(vec![3.0, 0.0]),
        3 => Some(vec![0.0, 4.0]),
        o => panic!("feature symbol {}", o),
    }
}
#[derive(Clone)]
struct PDet {
    bbox: Universal2DBox,
    cid: Option<i64>,
    feature: Option<Vec<f32>>,
    quality: Option<f32>,
}
fn pdet(d: &Value) -> PDet {
    let (xc, yc, a, asp, h) = slot(jint(d, "slot"));
    let cid = jint(d, "cid");
    PDet {
        bbox: ubox(xc, yc, a, asp, h, jint(d, "conf") as f64 / 1000.0),
        cid: if cid == 0 { None } else { Some(cid) },
        feature: feat(d.get("f").map(ji).unwrap_or(0)),
        quality: d.get("q").map(|q| (ji(q) as f64 / 100.0) as f32),
    }
}
fn vobs(d: &PDet) -> VisualSortObservation<'_> {
    VisualSortObservation::new(d.feature.as_deref(), d.quality, d.bbox.clone(), d.cid)
}

// ------------------------------------------------------------------------------------------------ trackers
enum Tr {
    Sort(Sort),
    BSort(BatchSort),
    Vis(VisualSort),
    BVis(BatchVisualSort),
}

macro_rules! each {
    ($self:expr, $t:ident => $e:expr) => {
        match $self {
            Tr::Sort($t) => $e,
            Tr::BSort($t) => $e,
            Tr::Vis($t) => $e,
            Tr::BVis($t) => $e,
        }
    };
}

struct BatchOut {
    extra: Map<String, Value>,
    scenes: Vec<(u64, Vec<SortTrack>)>,
}

enum Pred {
    Simple(Vec<SortTrack>),
    Batch(BatchOut),
}

struct Tk {
    t: Tr,
    batch: bool,
    visual: bool,
    alt: usize,
}

fn kvf(o: &Opts, k: &str, d: &str) -> f64 {
    o.get(k).unwrap_or(d).parse::<f64>().expect("float option")
}

impl Tk {
    fn new(o: &Opts, idx: usize) -> Tk {
        let kind = o.str("kind", "sort");
        let batch = kind.starts_with("batch");
        let visual = kind == "visual" || kind == "batchvisual";
        let shards = o.usize("shards", 2);
        let voters = o.usize("voters", 2);
        let history = o.usize("history", 2);
        let max_idle = o.usize("max-idle", 1);
        let min_conf = kvf(o, "min-conf", "0.05") as f32;
        let metric = if o.str("metric", "iou") == "iou" { PositionalMetricType::IoU(kvf(o, "thr", "0.3") as f32) } else { PositionalMetricType::Mahalanobis };
        let cons = if o.str("loose-constraints", "0") == "1" && idx % 2 == 1 {
            let mut c = SpatioTemporalConstraints::new();
            c.add_constraints(vec![(1, 1000.0), (3, 1000.0)]);
            Some(c)
        } else {
            None
        };
        let (wp, wv) = ((1.0f64 / 20.0) as f32, (1.0f64 / 160.0) as f32);
        let t = if !visual {
            // in `defaults` mode the command line carries the documented defaults: this side always passes them explicitly
            if batch {
                Tr::BSort(BatchSort::new(shards, voters, history, max_idle, metric, min_conf, cons, wp, wv))
            } else {
                Tr::Sort(Sort::new(shards, history, max_idle, metric, min_conf, cons, wp, wv))
            }
        } else {
            // every builder method is called with an explicit value (in `defaults` mode the command line carries
            // the documented defaults and only the Python side leaves the object untouched)
            let mut op = VisualSortOptions::default()
                .max_idle_epochs(max_idle)
                .kept_history_length(history)
                .visual_metric(VisualSortMetricType::Euclidean(kvf(o, "vis-thr", "3.5") as f32))
                .positional_metric(metric)
                .positional_min_confidence(min_conf)
                .visual_minimal_track_length(o.usize("min-track-len", 1))
                .visual_minimal_area(0.0)
                .visual_minimal_quality_use(kvf(o, "q-use", "0.5") as f32)
                .visual_minimal_quality_collect(kvf(o, "q-collect", "0.6") as f32)
                .visual_max_observations(o.usize("max-obs", 2))
                .visual_min_votes(o.usize("min-votes", 1))
                .kalman_position_weight(wp)
                .kalman_velocity_weight(wv);
            if let Some(c) = cons {
                op = op.spatio_temporal_constraints(c);
            }
            if batch {
                Tr::BVis(BatchVisualSort::new(shards, voters, &op))
            } else {
                Tr::Vis(VisualSort::new(shards, &op))
            }
        };
        Tk { t, batch, visual, alt: idx }
    }

    fn literal(&self) -> bool {
        !self.batch
    }

    fn predict(&mut self, scene: u64, dets: &[PDet]) -> Pred {
        self.alt += 1;
        if self.batch {
            return Pred::Batch(self.predict_batch(&[(scene, dets.to_vec())]));
        }
        let short = scene == 0 && self.alt % 2 == 0;
        match &mut self.t {
            Tr::Sort(t) => {
                let arg: Vec<(Universal2DBox, Option<i64>)> = dets.iter().map(|d| (d.bbox.clone(), d.cid)).collect();
                Pred::Simple(if short { t.predict(&arg) } else { t.predict_with_scene(scene, &arg) })
            }
            Tr::Vis(t) => {
                let arg: Vec<VisualSortObservation> = dets.iter().map(vobs).collect();
                Pred::Simple(if short { t.predict(&arg) } else { t.predict_with_scene(scene, &arg) })
            }
            _ => unreachable!(),
        }
    }

    fn predict_batch(&mut self, entries: &[(u64, Vec<PDet>)]) -> BatchOut {
        let mut extra = Map::new();
        let res = match &mut self.t {
            Tr::BVis(t) => {
                let mut req = VisualSortPredictionBatchRequest::new();
                for (scene, dets) in entries {
                    for d in dets {
                        req.add(*scene, vobs(d));
                    }
                }
                let pre = req.prediction().expect("first prediction()");
                extra.insert("req_prediction_bs".into(), json!(pre.batch_size()));
                extra.insert("req_prediction_ready".into(), json!(pre.ready()));
                extra.insert("req_prediction_twice_none".into(), json!(req.prediction().is_none()));
                t.predict(req.batch);
                pre
            }
            Tr::BSort(t) => {
                let mut req = SortPredictionBatchRequest::new();
                for (scene, dets) in entries {
                    for d in dets {
                        req.add(*scene, d.bbox.clone(), d.cid);
                    }
                }
                t.predict(req.batch);
                req.result.take().expect("result of the request")
            }
            _ => unreachable!(),
        };
        let bs = res.batch_size();
        let mut scenes = vec![];
        for _ in 0..bs {
            scenes.push(res.get());
        }
        scenes.sort_by_key(|x| x.0);
        extra.insert("bs".into(), json!(bs));
        extra.insert("ready_after".into(), json!(res.ready()));
        BatchOut { extra, scenes }
    }

    fn skip(&mut self, scene: u64, n: usize) {
        self.alt += 1;
        let short = scene == 0 && self.alt % 2 == 0;
        each!(&mut self.t, t => if short { t.skip_epochs(n) } else { t.skip_epochs_for_scene(scene, n) })
    }

    fn idle(&mut self, scene: u64) -> Vec<SortTrack> {
        self.alt += 1;
        let short = !self.batch && scene == 0 && self.alt % 2 == 0;
        each!(&mut self.t, t => if short { t.idle_tracks() } else { t.idle_tracks_with_scene(scene) })
    }

    fn epoch(&mut self, scene: u64) -> usize {
        self.alt += 1;
        let short = scene == 0 && self.alt % 2 == 0;
        each!(&self.t, t => if short { t.current_epoch() } else { t.current_epoch_with_scene(scene) })
    }

    fn epoch_of(&self, scene: u64) -> usize {
        each!(&self.t, t => t.current_epoch_with_scene(scene))
    }

    fn clear(&mut self) {
        each!(&mut self.t, t => t.clear_wasted())
    }

    fn stats(&self) -> Vec<usize> {
        each!(&self.t, t => t.active_shard_stats())
    }
}

struct Names {
    to_spec: HashMap<u64, i64>,
    to_real: HashMap<i64, u64>,
}

impl Names {
    fn bind(&mut self, real: u64, spec: i64) {
        if !self.to_spec.contains_key(&real) && !self.to_real.contains_key(&spec) {
            self.to_spec.insert(real, spec);
            self.to_real.insert(spec, real);
        }
    }
    fn name(&self, real: u64) -> i64 {
        self.to_spec.get(&real).copied().unwrap_or(-1 - real as i64)
    }
}

fn rec(t: &SortTrack, names: &Names, literal: bool) -> Value {
    let mut r = json!({"id": names.name(t.id), "scene": t.scene_id, "ep": t.epoch, "len": t.length, "cid": t.custom_object_id,
        "vt": if matches!(t.voting_type, VotingType::Visual) { "vis" } else { "pos" },
        "obs": box6(&t.observed_bbox), "pred": box6(&t.predicted_bbox)});
    if literal {
        r["rid"] = json!(t.id);
    }
    r
}

fn recs(tracks: &[SortTrack], spec: Option<&Value>, names: &mut Names, literal: bool) -> Value {
    if let Some(Value::Array(sp)) = spec {
        if sp.len() == tracks.len() {
            for (t, s) in tracks.iter().zip(sp.iter()) {
                names.bind(t.id, jint(s, "id"));
            }
        }
    }
    json!(tracks.iter().map(|t| rec(t, names, literal)).collect::<Vec<_>>())
}

fn sorted_by_id(mut v: Vec<Value>) -> Value {
    v.sort_by_key(|r| jint(r, "id"));
    json!(v)
}

#[allow(clippy::too_many_arguments)]
fn wasted_view(id: u64, scene: u64, ep: usize, len: usize, ob: &Universal2DBox, pb: &Universal2DBox, obs: &[Universal2DBox],
               pbs: &[Universal2DBox], feats: Option<&Vec<Option<Vec<f32>>>>, names: &Names, literal: bool) -> Value {
    let mut r = json!({"id": names.name(id), "scene": scene, "ep": ep, "len": len, "obs": box6(ob), "pred": box6(pb),
        "obs_boxes": obs.iter().map(box6).collect::<Vec<_>>(), "pred_boxes": pbs.iter().map(box6).collect::<Vec<_>>()});
    if let Some(f) = feats {
        r["feats"] = json!(f.iter().map(|x| x.as_ref().map(|v| json!(v.iter().map(|y| num(*y)).collect::<Vec<_>>())).unwrap_or(Value::Null)).collect::<Vec<_>>());
    }
    if literal {
        r["rid"] = json!(id);
    }
    r
}

fn batch_out(b: BatchOut, spec_by_scene: &HashMap<u64, Value>, names: &mut Names, literal: bool, out: &mut Value) {
    for (k, v) in b.extra {
        out[k] = v;
    }
    let sc: Vec<Value> = b.scenes.iter().map(|(s, tr)| json!({"scene": s, "recs": recs(tr, spec_by_scene.get(s), names, literal)})).collect();
    out["scenes"] = json!(sc);
}

fn dump_tracker(o: &Opts, idx: usize, beh: &Value) -> Value {
    let steps_in = beh.as_array().expect("behaviour = array of steps");
    let batch_kind = o.str("kind", "sort").starts_with("batch");
    if steps_in.iter().any(|s| jstr(jget(s, "o"), "op") == "setaw") {
        return json!({"skip": "set_auto_waste is not exposed to Python"});
    }
    for s in steps_in {
        let op = jget(s, "o");
        let name = jstr(op, "op");
        if batch_kind && ((name == "predict" && jarr(op, "dets").is_empty()) || (name == "batch" && jarr(op, "b").iter().any(|e| jarr(e, "dets").is_empty()))) {
            return json!({"skip": "a batch cannot express a scene without detections"});
        }
        if !batch_kind && name == "batch" {
            return json!({"skip": "batch call on a simple tracker"});
        }
    }
    let mut t = Tk::new(o, idx);
    let literal = t.literal();
    let mut names = Names { to_spec: HashMap::new(), to_real: HashMap::new() };
    let mut steps: Vec<Value> = vec![];
    for s in steps_in {
        let op = jget(s, "o");
        let ret = jget(s, "ret");
        let name = jstr(op, "op");
        let mut out = json!({"op": name});
        match name {
            "predict" => {
                let dets: Vec<PDet> = jarr(op, "dets").iter().map(pdet).collect();
                let scene = jint(op, "scene") as u64;
                match t.predict(scene, &dets) {
                    Pred::Simple(r) => out["recs"] = recs(&r, Some(ret), &mut names, literal),
                    Pred::Batch(b) => {
                        let mut m = HashMap::new();
                        m.insert(scene, ret.clone());
                        batch_out(b, &m, &mut names, literal, &mut out);
                    }
                }
            }
            "batch" => {
                let entries: Vec<(u64, Vec<PDet>)> = jarr(op, "b").iter().map(|e| (jint(e, "scene") as u64, jarr(e, "dets").iter().map(pdet).collect())).collect();
                let b = t.predict_batch(&entries);
                let mut m = HashMap::new();
                if let Value::Array(a) = ret {
                    for e in a {
                        m.insert(jint(e, "scene") as u64, jget(e, "recs").clone());
                    }
                }
                batch_out(b, &m, &mut names, literal, &mut out);
            }
            "skip" => t.skip(jint(op, "scene") as u64, jint(op, "n") as usize),
            "idle" => {
                let r = t.idle(jint(op, "scene") as u64);
                out["idle"] = sorted_by_id(r.iter().map(|x| rec(x, &names, literal)).collect());
            }
            "epoch" => out["epoch"] = json!(t.epoch(jint(op, "scene") as u64)),
            "clear" => t.clear(),
            "stats" => {
                let st = t.stats();
                out["shards"] = if literal { json!(st) } else { Value::Null };
                out["active"] = json!(st.iter().sum::<usize>());
                out["nshards"] = json!(st.len());
            }
            "wasted" => {
                let v: Vec<Value> = match &mut t.t {
                    Tr::Sort(x) => x.wasted().into_iter().map(WastedSortTrack::from).map(|w| wasted_view(w.id, w.scene_id, w.epoch, w.length, &w.observed_bbox, &w.predicted_bbox, &w.observed_boxes, &w.predicted_boxes, None, &names, literal)).collect(),
                    Tr::BSort(x) => x.wasted().into_iter().map(WastedSortTrack::from).map(|w| wasted_view(w.id, w.scene_id, w.epoch, w.length, &w.observed_bbox, &w.predicted_bbox, &w.observed_boxes, &w.predicted_boxes, None, &names, literal)).collect(),
                    Tr::Vis(x) => x.wasted().into_iter().map(WastedVisualSortTrack::from).map(|w| wasted_view(w.id, w.scene_id, w.epoch, w.length, &w.observed_bbox, &w.predicted_bbox, &w.observed_boxes, &w.predicted_boxes, Some(&w.observed_features), &names, literal)).collect(),
                    Tr::BVis(x) => x.wasted().into_iter().map(WastedVisualSortTrack::from).map(|w| wasted_view(w.id, w.scene_id, w.epoch, w.length, &w.observed_bbox, &w.predicted_bbox, &w.observed_boxes, &w.predicted_boxes, Some(&w.observed_features), &names, literal)).collect(),
                };
                out["wasted"] = sorted_by_id(v);
            }
            other => panic!("op {}", other),
        }
        let eps: Vec<Value> = jarr(jget(s, "proj"), "epochs").iter().map(|e| json!([e[0], t.epoch_of(ji(&e[0]) as u64)])).collect();
        out["epochs"] = json!(eps);
        steps.push(out);
    }
    let mut res = json!({"steps": steps});
    // epilogue of every script: what the tracker holds after the last call (live tracks, then everything wasted() hands out)
    let active: usize = t.stats().iter().sum();
    let mut ws: Vec<(u64, usize, usize)> = match &mut t.t {
        Tr::Sort(x) => x.wasted().into_iter().map(WastedSortTrack::from).map(|w| (w.scene_id, w.epoch, w.length)).collect(),
        Tr::BSort(x) => x.wasted().into_iter().map(WastedSortTrack::from).map(|w| (w.scene_id, w.epoch, w.length)).collect(),
        Tr::Vis(x) => x.wasted().into_iter().map(WastedVisualSortTrack::from).map(|w| (w.scene_id, w.epoch, w.length)).collect(),
        Tr::BVis(x) => x.wasted().into_iter().map(WastedVisualSortTrack::from).map(|w| (w.scene_id, w.epoch, w.length)).collect(),
    };
    ws.sort();
    let after: usize = t.stats().iter().sum();
    res["final"] = json!({"active": active, "wasted": ws.iter().map(|w| json!([w.0, w.1, w.2])).collect::<Vec<_>>(), "active_after": after});
    if o.str("probe", "0") == "1" {
        res["probe"] = probe(&mut t);
    }
    res
}

const PROBE_SCENE: u64 = 9;
// (xc, yc, aspect, height, confidence milli, custom id) per detection - the same table as in pydrv/run.py
const PROBE: [&[(f64, f64, f64, f64, i64, i64)]; 4] = [
    &[(100.0, 100.0, 0.5, 80.0, 900, 5), (600.0, 400.0, 1.5, 40.0, 20, 0)],
    &[(112.0, 105.0, 0.5, 80.0, 900, 5), (602.0, 401.0, 1.5, 40.0, 20, 0)],
    &[(136.0, 105.0, 0.5, 80.0, 900, 5), (603.0, 402.0, 1.5, 40.0, 20, 0)],
    &[(137.0, 106.0, 0.5, 80.0, 900, 5), (604.0, 402.0, 1.5, 40.0, 200, 0), (609.0, 404.0, 1.5, 40.0, 60, 0)],
];

fn probe(t: &mut Tk) -> Value {
    let mut names: HashMap<u64, usize> = HashMap::new();
    let mut out: Vec<Value> = vec![];
    let prec = |x: &SortTrack, names: &mut HashMap<u64, usize>| {
        let n = names.len();
        let id = *names.entry(x.id).or_insert(n);
        json!({"id": id, "scene": x.scene_id, "ep": x.epoch, "len": x.length, "cid": x.custom_object_id,
               "obs": box6(&x.observed_bbox), "pred": box6(&x.predicted_bbox)})
    };
    for call in PROBE.iter() {
        let dets: Vec<PDet> = call
            .iter()
            .map(|(x, y, a, h, c, cid)| PDet {
                bbox: ubox(*x, *y, None, *a, *h, *c as f64 / 1000.0),
                cid: if *cid == 0 { None } else { Some(*cid) },
                feature: None, // no appearance: positional only
                quality: None,
            })
            .collect();
        let tracks = match t.predict(PROBE_SCENE, &dets) {
            Pred::Simple(r) => r,
            Pred::Batch(mut b) => b.scenes.remove(0).1,
        };
        out.push(json!(tracks.iter().map(|x| prec(x, &mut names)).collect::<Vec<_>>()));
    }
    t.skip(PROBE_SCENE, 1);
    let idle = t.idle(PROBE_SCENE);
    out.push(sorted_by_id(idle.iter().map(|x| prec(x, &mut names)).collect()));
    // let the probe's tracks expire and read them back as wasted tracks: the histories of a MOVING object
    t.skip(PROBE_SCENE, 40);
    let view = |scene: u64, ep: usize, len: usize, ob: &Universal2DBox, pb: &Universal2DBox, obs: &[Universal2DBox], pbs: &[Universal2DBox]| {
        json!({"scene": scene, "ep": ep, "len": len, "obs": box6(ob), "pred": box6(pb),
               "obs_boxes": obs.iter().map(box6).collect::<Vec<_>>(), "pred_boxes": pbs.iter().map(box6).collect::<Vec<_>>()})
    };
    let mut ws: Vec<Value> = match &mut t.t {
        Tr::Sort(x) => x.wasted().into_iter().map(WastedSortTrack::from).filter(|w| w.scene_id == PROBE_SCENE)
            .map(|w| view(w.scene_id, w.epoch, w.length, &w.observed_bbox, &w.predicted_bbox, &w.observed_boxes, &w.predicted_boxes)).collect(),
        Tr::BSort(x) => x.wasted().into_iter().map(WastedSortTrack::from).filter(|w| w.scene_id == PROBE_SCENE)
            .map(|w| view(w.scene_id, w.epoch, w.length, &w.observed_bbox, &w.predicted_bbox, &w.observed_boxes, &w.predicted_boxes)).collect(),
        Tr::Vis(x) => x.wasted().into_iter().map(WastedVisualSortTrack::from).filter(|w| w.scene_id == PROBE_SCENE)
            .map(|w| view(w.scene_id, w.epoch, w.length, &w.observed_bbox, &w.predicted_bbox, &w.observed_boxes, &w.predicted_boxes)).collect(),
        Tr::BVis(x) => x.wasted().into_iter().map(WastedVisualSortTrack::from).filter(|w| w.scene_id == PROBE_SCENE)
            .map(|w| view(w.scene_id, w.epoch, w.length, &w.observed_bbox, &w.predicted_bbox, &w.observed_boxes, &w.predicted_boxes)).collect(),
    };
    ws.sort_by(|a, b| {
        let k = |r: &Value| (r["obs"][0].as_f64().unwrap_or(0.0), r["obs"][1].as_f64().unwrap_or(0.0), r["len"].as_f64().unwrap_or(0.0));
        k(a).partial_cmp(&k(b)).unwrap()
    });
    out.push(json!(ws));
    json!(out)
}

// ------------------------------------------------------------------------------------------------ constraints
fn dump_cons(_o: &Opts, _idx: usize, c: &Value) -> Value {
    let mut t = SpatioTemporalConstraints::new();
    for call in jarr(c, "calls") {
        t.add_constraints(call.as_array().expect("call").iter().map(|p| (ji(&p[0]) as usize, (ji(&p[1]) as f64 / 2.0) as f32)).collect());
    }
    let dists: Vec<i64> = jarr(c, "dists").iter().map(ji).collect();
    let adm: Vec<Value> = (0..jarr(c, "adm").len())
        .map(|g| json!(dists.iter().map(|d| if t.validate(g, (*d as f64 / 2.0) as f32) { 1 } else { 0 }).collect::<Vec<i32>>()))
        .collect();
    json!({"adm": adm})
}

// ------------------------------------------------------------------------------------------------ lattice boxes
/// (xc, yc, angle, aspect, height) of a lattice box {x, y, w, h, k[, na]} (half units, quarter turns)
fn lattice_args(b: &Value, none_for_k0: bool) -> (f64, f64, Option<f64>, f64, f64) {
    let (w, h, k) = (jint(b, "w"), jint(b, "h"), jint(b, "k"));
    let (width, height) = (w as f64 / 2.0, h as f64 / 2.0);
    let aspect = if h != 0 { width / height } else { width };
    let na = b.get("na").map(|v| ji(v) == 1).unwrap_or(false) || (none_for_k0 && k == 0);
    let angle = if na { None } else { Some(k as f64 * PI / 2.0) };
    (jint(b, "x") as f64 / 2.0, jint(b, "y") as f64 / 2.0, angle, aspect, height)
}
fn lbox(b: &Value, none_for_k0: bool) -> Universal2DBox {
    let (xc, yc, angle, aspect, height) = lattice_args(b, none_for_k0);
    Universal2DBox::new(xc as f32, yc as f32, angle.map(|a| a as f32), aspect as f32, height as f32)
}

fn dump_nms(_o: &Opts, idx: usize, c: &Value) -> Value {
    let jd = jarr(c, "dets");
    let n = jd.len();
    let order: Vec<usize> = if idx % 2 == 0 { (0..n).collect() } else { (0..n).rev().collect() };
    let dets: Vec<(Universal2DBox, Option<f32>)> = order
        .iter()
        .map(|&i| {
            let d = &jd[i];
            let (xc, yc, angle, aspect, height) = lattice_args(jget(d, "box"), false);
            let s = jint(d, "score");
            (ubox(xc, yc, angle, aspect, height, (i + 1) as f64 / 64.0), if s <= crate::nms_replay::NO_SCORE { None } else { Some((s as f64 / 100.0) as f32) })
        })
        .collect();
    let thr_v = jarr(c, "thr");
    let thr = (ji(&thr_v[0]) as f64 / ji(&thr_v[1]) as f64) as f32;
    let st = jint(c, "sthr");
    let sthr = if st <= crate::nms_replay::NO_SCORE { None } else { Some((st as f64 / 100.0) as f32) };
    let res = similari::utils::nms::nms(&dets, thr, sthr);
    json!({"order": order.iter().map(|i| i + 1).collect::<Vec<_>>(),
           "idx": res.iter().map(|b| (b.confidence as f64 * 64.0).round() as i64).collect::<Vec<_>>(),
           "boxes": res.iter().map(|b| box6(b)).collect::<Vec<_>>()})
}

fn vertices(b: &Universal2DBox) -> Vec<(f64, f64)> {
    ring_of(b.get_vertices().exterior().0.iter().map(|c| (c.x, c.y)))
}
fn cached_or_vertices(b: &Universal2DBox) -> Vec<(f64, f64)> {
    // Python's get_vertices() after gen_vertices(): the same public call
    vertices(b)
}
fn clip(a: &Universal2DBox, b: &Universal2DBox) -> Vec<(f64, f64)> {
    ring_of(a.clone().sutherland_hodgman_clip(b.clone()).exterior().0.iter().map(|c| (c.x, c.y)))
}
fn back(u: &Universal2DBox) -> Value {
    match BoundingBox::try_from(u) {
        Ok(b) => ltwh5(&b),
        Err(_) => json!("error"),
    }
}

fn dump_geom(_o: &Opts, idx: usize, c: &Value) -> Value {
    let kind = jstr(c, "kind");
    match kind {
        "pair" => {
            let none0 = idx % 2 == 0;
            let (a, b) = (lbox(jget(c, "a"), none0), lbox(jget(c, "b"), none0));
            let (ab, ba) = (clip(&a, &b), clip(&b, &a));
            json!({"kind": kind, "a": box6(&a), "b": box6(&b), "clip_ab": points(&ab), "clip_ba": points(&ba),
                   "area_ab": num64(ring_area(&ab)), "area_ba": num64(ring_area(&ba))})
        }
        "conv" => {
            let r = jget(c, "ltwh");
            let q = |n: &str| (jint(r, n) as f64 / 4.0) as f32;
            let (l, t, w, h) = (q("l"), q("t"), q("w"), q("h"));
            let mut out = json!({"kind": kind});
            out["bbox"] = ltwh5(&BoundingBox::new(l, t, w, h));
            let bc = BoundingBox::new_with_confidence(l, t, w, h, 0.75);
            out["bbox_conf"] = ltwh5(&bc);
            let mut bs = BoundingBox::new(0.0, 0.0, 1.0, 1.0);
            bs.left = l;
            bs.top = t;
            bs.width = w;
            bs.height = h;
            bs.confidence = 0.75;
            out["bbox_set"] = ltwh5(&bs);
            let src = bc.as_xyaah();
            let mut us = Universal2DBox::new(0.0, 0.0, Some(1.0), 1.0, 1.0);
            us.xc = src.xc;
            us.yc = src.yc;
            us.angle = None;
            us.aspect = src.aspect;
            us.height = src.height;
            us.set_confidence(0.75);
            let forms: [(&str, Universal2DBox); 4] = [
                ("as_xyaah", bc.as_xyaah()),
                ("ltwh", Universal2DBox::ltwh(l, t, w, h)),
                ("ltwh_conf", Universal2DBox::ltwh_with_confidence(l, t, w, h, 0.75)),
                ("set", us),
            ];
            for (n, u) in forms.iter() {
                out[*n] = box6(u);
                out[format!("{}.back", n)] = back(u);
            }
            out
        }
        "poly" => {
            let bj = jget(c, "box");
            let (xc, yc, angle, aspect, height) = lattice_args(bj, idx % 2 == 0);
            let mut u = Universal2DBox::new(xc as f32, yc as f32, angle.map(|a| a as f32), aspect as f32, height as f32);
            let mut out = json!({"kind": kind, "box": box6(&u), "radius": num(u.get_radius()), "area": num(u.area()),
                                 "vertices": points(&vertices(&u))});
            u.gen_vertices();
            out["vertices_cached"] = points(&cached_or_vertices(&u));
            let mut v = Universal2DBox::new(xc as f32, yc as f32, None, aspect as f32, height as f32);
            v.rotate_mut((jint(bj, "k") as f64 * PI / 2.0) as f32);
            out["rotated"] = box6(&v);
            out["rotated_vertices"] = points(&vertices(&v));
            out["as_ltwh"] = back(&v);
            let mut w = ubox(xc, yc, angle, aspect, height, 0.25);
            w.set_confidence(0.5);
            out["conf_box"] = box6(&w);
            out
        }
        "boxobj" => {
            // one box OBJECT under in-place operations (spec/geom/GenObj.tla), as pydrv/run.py does it
            let fin = jget(c, "final");
            let ops: Vec<&str> = jarr(c, "ops").iter().map(|o| o.as_str().expect("op")).collect();
            let (mut x, mut h, mut k) = (jint(fin, "x"), jint(fin, "h"), jint(fin, "k"));
            for o in ops.iter().rev() {
                match *o {
                    "turn" => k -= 1,
                    "move" => x -= 2,
                    "resize" => h = if h == 2 { 4 } else { 2 },
                    _ => {}
                }
            }
            let mut u = Universal2DBox::new((x as f64 / 2.0) as f32, (jint(fin, "y") as f64 / 2.0) as f32, Some((k as f64 * PI / 2.0) as f32),
                                            (jint(fin, "w") as f64 / h as f64) as f32, (h as f64 / 2.0) as f32);
            let mut steps: Vec<Value> = vec![];
            for o in ops.iter() {
                match *o {
                    "gen" => {
                        u.gen_vertices();
                    }
                    "turn" => {
                        k += 1;
                        u.rotate_mut((k as f64 * PI / 2.0) as f32);
                    }
                    "move" => u.xc = ((u.xc as f64) + 1.0) as f32,
                    "resize" => {
                        let width = u.aspect as f64 * u.height as f64;
                        let nh = if (u.height as f64 - 1.0).abs() < 1e-6 { 2.0 } else { 1.0 };
                        u.height = nh as f32;
                        u.aspect = (width / nh) as f32;
                    }
                    _ => {}
                }
                steps.push(json!({"op": o, "box": box6(&u), "vertices": points(&vertices(&u)), "area": num(u.area()), "radius": num(u.get_radius())}));
            }
            let pb = jget(c, "probe");
            let p = Universal2DBox::new((jint(pb, "x") as f64 / 2.0) as f32, (jint(pb, "y") as f64 / 2.0) as f32, Some((jint(pb, "k") as f64 * PI / 2.0) as f32),
                                        (jint(pb, "w") as f64 / jint(pb, "h") as f64) as f32, (jint(pb, "h") as f64 / 2.0) as f32);
            let (up, pu) = (clip(&u, &p), clip(&p, &u));
            json!({"kind": kind, "steps": steps, "area_up": num64(ring_area(&up)), "area_pu": num64(ring_area(&pu))})
        }
        other => json!({"skip": format!("kind {} has no Python counterpart", other)}),
    }
}

// ------------------------------------------------------------------------------------------------ Kalman filters
fn pt<P: From<[f32; 2]>>(x: f32, y: f32) -> P {
    P::from([x, y])
}

fn box_state(s: &similari::utils::kalman::KalmanState<{ similari::utils::kalman::kalman_2d_box::DIM_2D_BOX_X2 }>) -> (Value, Value) {
    let u = Universal2DBox::try_from(*s).expect("state -> box");
    (box6(&u), back(&u))
}

fn weights(c: &Value) -> (f32, f32) {
    let w = jarr(c, "w");
    ((1.0 / ji(&w[0]) as f64) as f32, (1.0 / ji(&w[1]) as f64) as f32)
}

fn dump_kalman(_o: &Opts, _idx: usize, c: &Value) -> Value {
    let kind = jstr(c, "kind");
    match kind {
        "gate" => {
            let ds: Vec<f32> = jarr(c, "d").iter().map(|d| format!("{}.{:04}", ji(d) / 10000, ji(d) % 10000).parse::<f64>().unwrap() as f32).collect();
            let mut out = json!({"kind": kind});
            for (inv, key) in [(false, "direct"), (true, "inverted")] {
                let v: Vec<f32> = match jstr(c, "filter") {
                    "box" => ds.iter().map(|d| Universal2DBoxKalmanFilter::calculate_cost(*d, inv)).collect(),
                    "point" => ds.iter().map(|d| Point2DKalmanFilter::calculate_cost(*d, inv)).collect(),
                    _ => Vec2DKalmanFilter::calculate_cost(&ds, inv),
                };
                out[key] = json!(v.iter().map(|x| num(*x)).collect::<Vec<_>>());
            }
            out
        }
        "proto" => {
            // the documented default weights (1/20, 1/160) are passed explicitly on this side
            let (wp, wv) = weights(c);
            let i0 = jint(c, "i0") as usize - 1;
            if jstr(c, "filter") == "box" {
                let f = Universal2DBoxKalmanFilter::new(wp, wv);
                let meas: Vec<Universal2DBox> = jarr(c, "meas")
                    .iter()
                    .map(|m| {
                        let v: Vec<f32> = m.as_array().unwrap().iter().map(|x| (ji(x) as f64 / 1000.0) as f32).collect();
                        Universal2DBox::new(v[0], v[1], if ji(&m[2]) == 0 { None } else { Some(v[2]) }, v[3], v[4])
                    })
                    .collect();
                let mut st = f.initiate(&meas[i0]);
                let (u, b) = box_state(&st);
                let mut steps = vec![json!({"u": u, "b": b})];
                for op in jarr(c, "ops") {
                    let name = op[0].as_str().unwrap();
                    let j = ji(&op[1]) as usize;
                    let mut o = json!({});
                    match name {
                        "p" => st = f.predict(&st),
                        "u" => st = f.update(&st, &meas[j - 1]),
                        _ => {
                            let d = f.distance(st, &meas[j - 1]);
                            o["d"] = num(d);
                            o["cost"] = json!([num(Universal2DBoxKalmanFilter::calculate_cost(d, false)), num(Universal2DBoxKalmanFilter::calculate_cost(d, true))]);
                        }
                    }
                    let (u, b) = box_state(&st);
                    o["u"] = u;
                    o["b"] = b;
                    steps.push(o);
                }
                return json!({"kind": kind, "filter": "box", "steps": steps});
            }
            let vf = Vec2DKalmanFilter::new(wp, wv);
            let pf = Point2DKalmanFilter::new(wp, wv);
            let raw: Vec<Vec<[f32; 2]>> = jarr(c, "meas")
                .iter()
                .map(|s| s.as_array().unwrap().iter().map(|p| [(ji(&p[0]) as f64 / 1000.0) as f32, (ji(&p[1]) as f64 / 1000.0) as f32]).collect())
                .collect();
            let sets: Vec<Vec<_>> = raw.iter().map(|s| s.iter().map(|p| pt(p[0], p[1])).collect()).collect();
            let mut vs = vf.initiate(sets[i0].as_slice());
            let mut ps = pf.initiate(&sets[i0][0]);
            let xy = |s: &similari::utils::kalman::KalmanState<{ similari::utils::kalman::kalman_2d_point::DIM_2D_POINT_X2 }>| {
                let m = s.verif_raw().0;
                json!([num(m[0]), num(m[1])])
            };
            let mut steps = vec![json!({"vec": vs.iter().map(|s| xy(s)).collect::<Vec<_>>(), "point": xy(&ps)})];
            for op in jarr(c, "ops") {
                let name = op[0].as_str().unwrap();
                let j = ji(&op[1]) as usize;
                let mut o = json!({});
                match name {
                    "p" => {
                        vs = vf.predict(&vs);
                        ps = pf.predict(&ps);
                    }
                    "u" => {
                        vs = vf.update(&vs, sets[j - 1].as_slice());
                        ps = pf.update(&ps, &sets[j - 1][0]);
                    }
                    _ => {
                        let dv = vf.distance(&vs, sets[j - 1].as_slice());
                        let dp = pf.distance(&ps, &sets[j - 1][0]);
                        let nums = |v: &[f32]| json!(v.iter().map(|x| num(*x)).collect::<Vec<_>>());
                        o["d"] = nums(&dv);
                        o["dp"] = num(dp);
                        o["cost"] = json!([nums(&Vec2DKalmanFilter::calculate_cost(&dv, false)), nums(&Vec2DKalmanFilter::calculate_cost(&dv, true))]);
                        o["costp"] = json!([num(Point2DKalmanFilter::calculate_cost(dp, false)), num(Point2DKalmanFilter::calculate_cost(dp, true))]);
                    }
                }
                o["vec"] = json!(vs.iter().map(|s| xy(s)).collect::<Vec<_>>());
                o["point"] = xy(&ps);
                steps.push(o);
            }
            json!({"kind": kind, "filter": "vec", "steps": steps})
        }
        "exact" => {
            let z: Vec<f64> = jarr(c, "z").iter().map(|v| ji(v) as f64).collect();
            let rat = |v: &Value| ji(&v[0]) as f64 / ji(&v[1]) as f64;
            let h = rat(jget(c, "h"));
            let (wp, wv) = (rat(jget(c, "wp")), rat(jget(c, "wv")));
            let ops: Vec<&str> = jarr(c, "ops").iter().map(|o| o.as_str().unwrap()).collect();
            let mut out = json!({"kind": kind});
            for axis in 0..2usize {
                let f = Universal2DBoxKalmanFilter::new(wp as f32, wv as f32);
                let bx = |v: f64| if axis == 0 { Universal2DBox::new(v as f32, 50.0, None, 1.0, h as f32) } else { Universal2DBox::new(50.0, v as f32, None, 1.0, h as f32) };
                let mut st = f.initiate(&bx(z[0]));
                let (mut nu, mut steps) = (0, vec![]);
                for op in &ops {
                    if *op == "p" {
                        st = f.predict(&st);
                    } else {
                        nu += 1;
                        st = f.update(&st, &bx(z[nu]));
                    }
                    steps.push(box_state(&st).0);
                }
                out[format!("box-{}", if axis == 0 { "x" } else { "y" })] = json!({"steps": steps, "d": num(f.distance(st, &bx(z[3])))});
                let f = Point2DKalmanFilter::new((wp * h) as f32, (wv * h) as f32);
                let p = |v: f64| if axis == 0 { (v as f32, 50.0f32) } else { (50.0f32, v as f32) };
                let mut st = f.initiate(&pt(p(z[0]).0, p(z[0]).1));
                let (mut nu, mut steps) = (0, vec![]);
                for op in &ops {
                    if *op == "p" {
                        st = f.predict(&st);
                    } else {
                        nu += 1;
                        st = f.update(&st, &pt(p(z[nu]).0, p(z[nu]).1));
                    }
                    let m = st.verif_raw().0;
                    steps.push(json!([num(m[0]), num(m[1])]));
                }
                out[format!("point-{}", if axis == 0 { "x" } else { "y" })] = json!({"steps": steps, "d": num(f.distance(&st, &pt(p(z[3]).0, p(z[3]).1)))});
            }
            out
        }
        other => panic!("kind {}", other),
    }
}

// ------------------------------------------------------------------------------------------------ option objects
fn dump_opts(_o: &Opts, _idx: usize, c: &Value) -> Value {
    if jstr(c, "kind") != "opts" {
        return json!({"skip": "not a script"});
    }
    let mut o = VisualSortOptions::default();
    for call in jarr(c, "calls") {
        let v: Vec<i64> = jarr(call, "v").iter().map(ji).collect();
        let n = || v[0] as usize;
        let pct = || (v[0] as f64 / 100.0) as f32;
        o = match jstr(call, "m") {
            "max_idle_epochs" => o.max_idle_epochs(n()),
            "kept_history_length" => o.kept_history_length(n()),
            "visual_min_votes" => o.visual_min_votes(n()),
            "visual_max_observations" => o.visual_max_observations(n()),
            "visual_minimal_track_length" => o.visual_minimal_track_length(n()),
            "kalman_position_weight" => o.kalman_position_weight((1.0 / v[0] as f64) as f32),
            "kalman_velocity_weight" => o.kalman_velocity_weight((1.0 / v[0] as f64) as f32),
            "visual_metric" => o.visual_metric(if v[0] == 0 { VisualSortMetricType::euclidean((v[1] as f64 / 100.0) as f32) } else { VisualSortMetricType::cosine((v[1] as f64 / 100.0) as f32) }),
            "positional_metric" => o.positional_metric(if v[0] == 0 { PositionalMetricType::Mahalanobis } else { PositionalMetricType::IoU((v[1] as f64 / 100.0) as f32) }),
            "spatio_temporal_constraints" => {
                let mut t = SpatioTemporalConstraints::new();
                t.add_constraints(v.chunks(2).map(|p| (p[0] as usize, (p[1] as f64 / 2.0) as f32)).collect());
                o.spatio_temporal_constraints(t)
            }
            "visual_minimal_area" => o.visual_minimal_area(pct()),
            "visual_minimal_quality_use" => o.visual_minimal_quality_use(pct()),
            "visual_minimal_quality_collect" => o.visual_minimal_quality_collect(pct()),
            "visual_minimal_own_area_percentage_use" => o.visual_minimal_own_area_percentage_use(pct()),
            "visual_minimal_own_area_percentage_collect" => o.visual_minimal_own_area_percentage_collect(pct()),
            "positional_min_confidence" => o.positional_min_confidence(pct()),
            other => panic!("builder method {}", other),
        };
    }
    json!({"repr": format!("{:?}", o)})
}

pub fn main(area: &str, opts: &Opts) {
    let f: fn(&Opts, usize, &Value) -> Value = match area {
        "tracker" => dump_tracker,
        "cons" => dump_cons,
        "nms" => dump_nms,
        "geom" => dump_geom,
        "kalman" => dump_kalman,
        "opts" => dump_opts,
        o => {
            eprintln!("vh dump: unknown area {}", o);
            std::process::exit(2);
        }
    };
    let stdout = std::io::stdout();
    let mut w = std::io::BufWriter::with_capacity(1 << 20, stdout.lock());
    // --index-offset n: a stored script is replayed under its original case index (the drivers vary the spelling of
    // equivalent calls with the index)
    let off = opts.usize("index-offset", 0);
    for_each_case(opts, |idx, c| {
        let idx = idx + off;
        let o = match std::panic::catch_unwind(std::panic::AssertUnwindSafe(|| f(opts, idx, &c))) {
            Ok(v) => v,
            Err(_) => json!({"panic": true}),
        };
        writeln!(w, "{}", json!({"i": idx, "o": o})).expect("write");
    });
    w.flush().expect("flush");
}
