//! impl -> spec, regime R2 ("free world"): drives a real tracker with random moving / crossing /
//! occluding objects, measures before every predict call the integer-scaled positional weight of
//! every (detection, stored track) pair with the library's own public primitives, and writes one
//! ndjson event per API call for spec/tracker/TrackerTrace.tla (properties C01-C04, C20; C05 and
//! C04 run-against-run through Pairing.tla).
use crate::common::*;
use crate::drv::*;
use crate::tracker_replay::cfg_from_opts;
use rand::rngs::StdRng;
use rand::seq::SliceRandom;
use rand::{Rng, SeedableRng};
use serde_json::{json, Value};
use similari::prelude::*;
use similari::track::ObservationAttributes;
use similari::utils::kalman::kalman_2d_box::Universal2DBoxKalmanFilter;
use std::io::Write;

#[derive(Clone)]
struct Obj {
    x: f32,
    y: f32,
    vx: f32,
    vy: f32,
    w: f32,
    h: f32,
    angle: Option<f32>,
    cid: i64,
    /// appearance family (0 = the object never shows a feature); objects of one family look alike
    fam: usize,
}

/// Feature symbols of the free-world visual runs: three families of look-alike appearances.  Euclidean: points whose
/// pairwise distances stay clear of the threshold 2.8; cosine: unit vectors whose similarities stay clear of 0.85.
pub fn vis_symbols(cosine: bool) -> Vec<Vec<f32>> {
    let pts: Vec<(f32, f32)> = if cosine {
        [0.0f32, 10.0, 20.0, 90.0, 100.0, 115.0, 45.0].iter().map(|d| (d.to_radians().cos(), d.to_radians().sin())).collect()
    } else {
        vec![(0.0, 0.0), (1.0, 0.0), (0.0, 2.0), (10.0, 10.0), (11.0, 10.0), (10.0, 12.5), (2.5, 0.0)]
    };
    // ten components: the two coordinates sit in different 8-lane blocks of the packed feature
    pts.iter()
        .map(|(x, y)| {
            let mut v = vec![0.0f32; 10];
            v[0] = *x;
            v[9] = *y;
            v
        })
        .collect()
}
/// symbols (1-based) of a family: 1 = {1,2,3}, 2 = {4,5,6}, 3 = {7} (close to some of family 1, far from others)
fn family_symbols(fam: usize) -> &'static [usize] {
    match fam {
        1 => &[1, 2, 3],
        2 => &[4, 5, 6],
        3 => &[7],
        _ => &[],
    }
}
/// below the use gate, between the gates, above; some differ by less than a hundredth (the order of eviction is by quality,
/// however close the qualities are)
pub const QUALITIES: [f32; 10] = [0.3, 0.55, 0.7, 0.703, 0.706, 0.8, 0.871, 0.874, 0.879, 0.9];

pub struct World {
    spread: f32,
    fast: bool,
    scenes: Vec<(u64, Vec<Obj>)>,
    rng: StdRng,
    miss: f64,
    jitter: f32,
    /// Some(cosine?) = detections carry appearance features
    pub features: Option<bool>,
}

impl World {
    pub fn new(seed: u64, scenes: &[u64], nobj: usize, rotated: bool, spread: f32, jump: f32) -> World {
        let fast = jump > 0.0;
        let mut rng = StdRng::seed_from_u64(seed);
        let mut sc = vec![];
        for s in scenes {
            let mut objs = vec![];
            for k in 0..nobj {
                // objects on a ring heading towards the centre region so that they approach, cross and separate
                let a = rng.gen_range(0.0..std::f32::consts::TAU);
                let r = rng.gen_range(0.3 * spread..spread);
                let (cx, cy) = (400.0, 400.0);
                let x = cx + r * a.cos();
                let y = cy + r * a.sin();
                let speed = if fast { rng.gen_range(8.0..28.0) * jump } else { rng.gen_range(2.0..7.0) };
                let tx = cx + rng.gen_range(-40.0..40.0);
                let ty = cy + rng.gen_range(-40.0..40.0);
                let d = ((tx - x).powi(2) + (ty - y).powi(2)).sqrt().max(1.0);
                objs.push(Obj {
                    x,
                    y,
                    vx: (tx - x) / d * speed,
                    vy: (ty - y) / d * speed,
                    w: rng.gen_range(30.0..60.0),
                    h: rng.gen_range(50.0..90.0),
                    angle: if rotated && k % 2 == 1 { Some(rng.gen_range(-1.5..1.5)) } else { None },
                    cid: (*s as i64) * 100 + k as i64 + 1,
                    fam: [1usize, 1, 2, 3, 0, 2][k % 6],
                });
            }
            sc.push((*s, objs));
        }
        World { spread, fast, scenes: sc, rng, miss: 0.15, jitter: 1.0, features: None }
    }

    /// advances the objects of one scene and returns the detections (shuffled, with misses)
    pub fn step(&mut self, scene: u64) -> Vec<Det> {
        let jitter = self.jitter;
        let spread = self.spread;
        let miss = self.miss;
        let idx = self.scenes.iter().position(|s| s.0 == scene).unwrap();
        let mut dets = vec![];
        let n = self.scenes[idx].1.len();
        for k in 0..n {
            let (jx, jy, jw, c, m) = (
                self.rng.gen_range(-jitter..=jitter),
                self.rng.gen_range(-jitter..=jitter),
                self.rng.gen_range(-jitter..=jitter),
                self.rng.gen_range(0.45..1.0f32),
                self.rng.gen_bool(miss),
            );
            // appearance draws (only in runs with features, so that the other runs keep their random streams)
            let features = self.features;
            let (fr, fs, fq) = if features.is_some() {
                (self.rng.gen_bool(0.85), self.rng.gen_range(0..6usize), self.rng.gen_range(0..QUALITIES.len() + 2))
            } else {
                (false, 0, 0)
            };
            let grow = self.fast && self.rng.gen_bool(0.3);
            let up = self.rng.gen_bool(0.5);
            let o = &mut self.scenes[idx].1[k];
            if grow {
                // objects change size abruptly (approaching / receding): radii of detection and track differ
                let f = if up { 1.3 } else { 1.0 / 1.3 };
                if o.h * f > 35.0 && o.h * f < 140.0 {
                    o.h *= f;
                    o.w *= f;
                }
            }
            o.x += o.vx;
            o.y += o.vy;
            if o.x < 400.0 - 1.5 * spread || o.x > 400.0 + 1.5 * spread {
                o.vx = -o.vx;
            }
            if o.y < 400.0 - 1.5 * spread || o.y > 400.0 + 1.5 * spread {
                o.vy = -o.vy;
            }
            if m {
                continue;
            }
            let h = (o.h + jw).max(10.0);
            let b = Universal2DBox::new_with_confidence(o.x + jx, o.y + jy, o.angle, o.w / o.h, h, c);
            let fam = o.fam;
            let (feature, quality) = match features {
                Some(cosine) if fam > 0 && fr => {
                    let syms = family_symbols(fam);
                    let sym = syms[fs % syms.len()];
                    // now and then a feature comes without a quality: the documented default is 1.0
                    (Some(vis_symbols(cosine)[sym - 1].clone()), if fq < QUALITIES.len() { Some(QUALITIES[fq]) } else { None })
                }
                _ => (None, None),
            };
            dets.push(Det { bbox: b, cid: Some(o.cid), feature, quality });
        }
        dets.shuffle(&mut self.rng);
        dets
    }
}

/// the candidate's own estimated box, computed as the tracker does (initiate, predict, update)
pub fn candidate_box(cfg: &Cfg, det: &Universal2DBox) -> Universal2DBox {
    let f = Universal2DBoxKalmanFilter::new(cfg.pos_w, cfg.vel_w);
    let s = f.initiate(det);
    let p = f.predict(&s);
    let u = f.update(&p, det);
    let mut b = Universal2DBox::try_from(u).unwrap();
    b.confidence = det.confidence;
    if let PositionalMetricType::IoU(_) = cfg.metric {
        b.gen_vertices();
    }
    b
}

/// integer weight of (candidate, track) exactly as the positional metric computes it; None = no pair
pub fn measure(cfg: &Cfg, cand: &Universal2DBox, t: &TrackView) -> Option<i64> {
    // the track's last ESTIMATED box: the newest entry of its predicted-box history (what the tracker is supposed
    // to have stored as the track's observation as well)
    let mut est_box = t.predicted.last()?.clone();
    if let PositionalMetricType::IoU(_) = cfg.metric {
        est_box.gen_vertices();
    }
    let est = &est_box;
    if Universal2DBox::too_far(cand, est) {
        return None;
    }
    let conf = if cand.confidence < cfg.min_conf { cfg.min_conf } else { cand.confidence };
    match cfg.metric {
        PositionalMetricType::IoU(thr) => {
            let iou = Universal2DBox::calculate_metric_object(&Some(cand), &Some(est))?;
            let w = iou * conf;
            if w >= thr {
                Some((w * 1_000_000.0) as i64)
            } else {
                None
            }
        }
        PositionalMetricType::Mahalanobis => {
            let f = Universal2DBoxKalmanFilter::new(cfg.pos_w, cfg.vel_w);
            let d = f.distance(t.kstate?, cand);
            // Gate.tla (Inverted, 5 degrees of freedom): the gate is the 0.95 quantile of chi-square, 11.070; inside it the
            // cost is 100 - d.  Written out here instead of calling the library's calculate_cost, so that the recorded
            // weights do not follow a change of the library's gate.
            let cost: f32 = if d > 11.070 { 0.0 } else { 100.0 - d };
            let w = cost / conf;
            let i = (w * 10_000.0) as i64;
            if i > 0 {
                Some(i)
            } else {
                None
            }
        }
    }
}

fn ids_of(v: &[TrackView]) -> Vec<u64> {
    let mut x: Vec<u64> = v.iter().map(|t| t.id).collect();
    x.sort();
    x
}

fn bits(b: &Universal2DBox) -> String {
    format!("{:08x}{:08x}{:08x}{:08x}{:08x}", b.xc.to_bits(), b.yc.to_bits(), b.angle.unwrap_or(0.0).to_bits(), b.aspect.to_bits(), b.height.to_bits())
}

pub struct Recorder {
    pub cfg: Cfg,
    pub drv: Box<dyn Drv>,
    pub lines: Vec<Value>,
    /// Some(symbol table) = appearance features are logged for spec/tracker/VisualTrace.tla
    pub vis: Option<Vec<Vec<f32>>>,
    /// a simple tracker skips calls without detections as well (to be comparable with a batch tracker, whose requests
    /// cannot express a scene without detections)
    pub skip_empty: bool,
}

fn symbol_of(table: &[Vec<f32>], f: &Option<Vec<f32>>) -> i64 {
    match f {
        None => 0,
        Some(v) => table
            .iter()
            .position(|s| v.len() >= s.len() && s.iter().zip(v.iter()).all(|(a, b)| a == b) && v[s.len()..].iter().all(|x| *x == 0.0))
            .map(|p| p as i64 + 1)
            .unwrap_or(99),
    }
}
fn qmilli(q: f32) -> i64 {
    (q as f64 * 1000.0).round() as i64
}
fn gallery_json(table: &[Vec<f32>], t: &TrackView) -> Value {
    let g: Vec<Value> = t.gallery.as_ref().map(|g| g.iter().map(|(f, q)| json!([symbol_of(table, f), qmilli(*q)])).collect()).unwrap_or_default();
    json!([t.id, t.collected.unwrap_or(0), g])
}

impl Recorder {
    pub fn new(cfg: Cfg) -> Recorder {
        let (thr, margin) = match cfg.metric {
            PositionalMetricType::IoU(t) => ((t * 1_000_000.0) as i64, 8),
            PositionalMetricType::Mahalanobis => (10_000, 64),
        };
        let cons: Vec<Value> = cfg
            .constraints
            .clone()
            .unwrap_or_default()
            .iter()
            .map(|(g, l)| json!([g, (l * 10_000.0).round() as i64]))
            .collect();
        let header = json!({"ev": "config", "max_idle": cfg.max_idle, "thr": thr, "margin": margin, "cons": cons, "eps": 3,
                            "kind": cfg.kind, "shards": cfg.shards});
        let drv = cfg.build();
        Recorder { cfg, drv, lines: vec![header], vis: None, skip_empty: false }
    }

    /// switches the logging of appearance features on (VisualSort kinds): the configuration line gets the record "v"
    pub fn with_features(mut self) -> Recorder {
        let cos = matches!(self.cfg.vis_metric, VisualSortMetricType::Cosine(_));
        let table = vis_symbols(cos);
        // the textbook formulas on the symbol vectors (what Feature.tla states about the library's functions: C16)
        let eu = |a: &Vec<f32>, b: &Vec<f32>| a.iter().zip(b.iter()).map(|(x, y)| (*x as f64 - *y as f64).powi(2)).sum::<f64>().sqrt();
        let dot = |a: &Vec<f32>, b: &Vec<f32>| a.iter().zip(b.iter()).map(|(x, y)| *x as f64 * *y as f64).sum::<f64>();
        let dist: Vec<Vec<i64>> = table
            .iter()
            .map(|a| table.iter().map(|b| ((if cos { dot(a, b) / (dot(a, a) * dot(b, b)).sqrt() } else { eu(a, b) }) * 1000.0).round() as i64).collect())
            .collect();
        let c = &self.cfg;
        self.lines[0]["vis"] = json!(1);
        self.lines[0]["v"] = json!({"kind": if cos { "cosine" } else { "euclid" }, "thr": qmilli(c.vis_metric.threshold()), "dist": dist,
            "minvotes": c.min_votes, "mintracklen": c.min_track_len, "maxobs": c.max_obs, "quse": qmilli(c.q_use), "qcollect": qmilli(c.q_collect),
            "minarea": c.min_area as i64, "ownuse": (c.own_use as f64 * 10000.0).round() as i64, "owncollect": (c.own_collect as f64 * 10000.0).round() as i64,
            "wmargin": 12, "qeps": 2, "aeps": 3, "seps": 40, "deps": 30});
        self.vis = Some(table);
        self
    }

    pub fn predict(&mut self, scene: u64, dets: &[Det]) {
        if dets.is_empty() && (self.drv.is_batch() || self.skip_empty) {
            // a batch request cannot express a scene without detections: no call, no event
            return;
        }
        let main = self.drv.content(false);
        let e = self.drv.epoch(scene) + 1;
        let mut w = vec![];
        let mut c = vec![];
        for d in dets {
            let cand = candidate_box(&self.cfg, &d.bbox);
            let mut row = vec![];
            let mut crow = vec![];
            for t in main.iter().filter(|t| t.scene == scene) {
                if let Some(x) = measure(&self.cfg, &cand, t) {
                    row.push(json!([t.id, x]));
                }
                if let Some(p) = t.predicted.last() {
                    let gap = (e as i64 - t.last as i64).abs();
                    // centre distance in units of the sum of the two bounding radii, computed from the box
                    // fields (the definition in C20), not with the library's own helper
                    let rad = |b: &Universal2DBox| {
                        let (hw, hh) = (b.aspect as f64 * b.height as f64 / 2.0, b.height as f64 / 2.0);
                        (hw * hw + hh * hh).sqrt()
                    };
                    let (dx, dy) = (cand.xc as f64 - p.xc as f64, cand.yc as f64 - p.yc as f64);
                    let dist = (dx * dx + dy * dy).sqrt() / (rad(&cand) + rad(p));
                    crow.push(json!([t.id, gap, (dist * 10_000.0) as i64]));
                }
            }
            w.push(json!(row));
            c.push(json!(crow));
        }
        // appearance part of the call (VisualTrace.tla): symbols, qualities, areas, exclusively-owned shares of the detections
        // and the galleries of the scene's stored tracks before the call
        let vis_pre = self.vis.as_ref().map(|table| {
            let own_on = self.cfg.own_use + self.cfg.own_collect > 0.0;
            let shares: Vec<i64> = if own_on {
                use similari::utils::clipping::bbox_own_areas::{exclusively_owned_areas, exclusively_owned_areas_normalized_shares};
                let boxes: Vec<&Universal2DBox> = dets.iter().map(|d| &d.bbox).collect();
                let areas = exclusively_owned_areas(&boxes);
                exclusively_owned_areas_normalized_shares(&boxes, &areas).iter().map(|s| (*s as f64 * 10000.0).round() as i64).collect()
            } else {
                dets.iter().map(|_| -1).collect()
            };
            json!({
                "f": dets.iter().map(|d| symbol_of(table, &d.feature)).collect::<Vec<_>>(),
                "q": dets.iter().map(|d| qmilli(d.quality.unwrap_or(1.0))).collect::<Vec<_>>(),
                "area": dets.iter().map(|d| d.bbox.area() as i64).collect::<Vec<_>>(),
                "share": shares,
                "g": main.iter().filter(|t| t.scene == scene).map(|t| gallery_json(table, t)).collect::<Vec<_>>(),
            })
        });
        let recs = self.drv.predict(scene, dets);
        let echo_ok = recs.len() == dets.len()
            && recs.iter().zip(dets.iter()).all(|(r, d)| bits(&r.obs) == bits(&d.bbox) && r.obs.confidence == d.bbox.confidence && r.cid == d.cid && r.scene == scene);
        self.lines.push(json!({"ev": "predict", "scene": scene,
            "cids": dets.iter().map(|d| d.cid.unwrap_or(0)).collect::<Vec<_>>(),
            "w": w, "c": c,
            "ids": recs.iter().map(|r| r.id).collect::<Vec<_>>(),
            "eps": recs.iter().map(|r| r.ep).collect::<Vec<_>>(),
            "lens": recs.iter().map(|r| r.len).collect::<Vec<_>>(),
            "boxes": dets.iter().map(|d| bits(&d.bbox)).collect::<Vec<_>>(),
            "echo": if echo_ok { 1 } else { 0 },
            "main": ids_of(&self.drv.content(false)), "coll": ids_of(&self.drv.content(true))}));
        if let (Some(table), Some(pre)) = (self.vis.as_ref(), vis_pre) {
            let after = self.drv.content(false);
            let g2: Vec<Value> = recs.iter().map(|r| after.iter().find(|t| t.id == r.id).map(|t| gallery_json(table, t)).unwrap_or(json!([r.id, -1, []]))).collect();
            let line = self.lines.last_mut().unwrap();
            for k in ["f", "q", "area", "share", "g"] {
                line[k] = pre[k].clone();
            }
            line["vt"] = json!(recs.iter().map(|r| if r.visual { 1 } else { 0 }).collect::<Vec<_>>());
            line["g2"] = json!(g2);
        }
    }
    pub fn skip(&mut self, scene: u64, n: usize) {
        self.drv.skip(scene, n);
        self.lines.push(json!({"ev": "skip", "scene": scene, "n": n, "main": ids_of(&self.drv.content(false)), "coll": ids_of(&self.drv.content(true))}));
    }
    pub fn wasted(&mut self) {
        let w = self.drv.wasted();
        self.lines.push(json!({"ev": "wasted", "ids": ids_of(&w), "main": ids_of(&self.drv.content(false)), "coll": ids_of(&self.drv.content(true))}));
    }
    pub fn idle(&mut self, scene: u64) {
        let mut ids: Vec<u64> = self.drv.idle(scene).iter().map(|r| r.id).collect();
        ids.sort();
        self.lines.push(json!({"ev": "idle", "scene": scene, "ids": ids}));
    }
    pub fn stats(&mut self) {
        let (a, w) = self.drv.stats();
        self.lines.push(json!({"ev": "stats", "active": a.iter().sum::<usize>(), "wasted": w.iter().sum::<usize>()}));
    }
    pub fn clear(&mut self) {
        self.drv.clear();
        self.lines.push(json!({"ev": "clear"}));
    }
    pub fn set_aw(&mut self, p: usize) {
        self.drv.set_aw(p);
        self.lines.push(json!({"ev": "setaw", "p": p}));
    }
    pub fn write(&self, path: &str) {
        let mut f = std::io::BufWriter::new(std::fs::File::create(path).expect("create out"));
        for l in &self.lines {
            writeln!(f, "{}", l).unwrap();
        }
    }
}

/// the list of API calls of a run, generated from the seed only (so that the same history can be
/// replayed under another shard count / schedule / scene projection)
#[derive(Clone)]
pub enum Call {
    Predict(u64, Vec<Det>),
    Skip(u64, usize),
    Wasted,
    Idle(u64),
    Stats,
    Clear,
    SetAw(usize),
}

pub fn history(seed: u64, steps: usize, scenes: &[u64], nobj: usize, rotated: bool, lifecycle: bool, spread: f32, crafted: bool, jump: f32, features: Option<bool>) -> Vec<Call> {
    // jump: 0 = slow objects; k > 0 = fast objects (8..28 px per step, times k) that also change size abruptly
    let mut world = World::new(seed, scenes, nobj, rotated, spread, jump);
    world.features = features;
    let mut rng = StdRng::seed_from_u64(seed ^ 0x5eed);
    let mut calls = vec![];
    let mut crafted_k = 0usize;
    for _ in 0..steps {
        // a dedicated scene replays a crafted contest in which the greedy choice is not optimal:
        // two half-overlapping stationary tracks T1, T2; then detection A between them (best with T1,
        // good with T2) and detection B on the far side of T1 (acceptable with T1 only)
        if crafted && rng.gen_bool(0.3) {
            let cycle = crafted_k / 5;
            let phase = crafted_k % 5;
            crafted_k += 1;
            let bx = 200.0 + 400.0 * (cycle % 3) as f32;
            let by = 200.0 + 300.0 * ((cycle / 3) % 3) as f32;
            let (w, h) = (60.0f32, 90.0f32);
            let mk = |x: f32, cid: i64| Det {
                bbox: Universal2DBox::new_with_confidence(x, by, None, w / h, h, 1.0),
                cid: Some(cid),
                feature: None,
                quality: None,
            };
            let j: f32 = rng.gen_range(-0.02..0.02);
            let dets = match phase {
                0 | 1 | 2 => vec![mk(bx, 9001), mk(bx + 0.5 * w, 9002)],
                3 => {
                    let mut v = vec![mk(bx + (0.2 + j) * w, 9003), mk(bx - (0.35 + j) * w, 9004)];
                    if rng.gen_bool(0.5) {
                        v.reverse();
                    }
                    v
                }
                _ => vec![],
            };
            calls.push(Call::Predict(99, dets));
            continue;
        }
        let s = scenes[rng.gen_range(0..scenes.len())];
        let r: f64 = rng.gen();
        if !lifecycle || r < 0.78 {
            let dets = world.step(s);
            calls.push(Call::Predict(s, if rng.gen_bool(0.04) { vec![] } else { dets }));
        } else if r < 0.83 {
            calls.push(Call::Skip(s, rng.gen_range(1..=2)));
        } else if r < 0.89 {
            calls.push(Call::Wasted);
        } else if r < 0.95 {
            calls.push(Call::Idle(s));
        } else if r < 0.98 {
            calls.push(Call::Stats);
        } else if r < 0.99 {
            calls.push(Call::Clear);
        } else {
            calls.push(Call::SetAw([0usize, 1, 3][rng.gen_range(0..3)]));
        }
    }
    calls
}

pub fn run_history(rec: &mut Recorder, calls: &[Call], only_scene: Option<u64>) {
    for (k, c) in calls.iter().enumerate() {
        // a panic in the code under test is data: it ends the run with a PANIC event (no behaviour of the
        // specification contains one)
        let r = std::panic::catch_unwind(std::panic::AssertUnwindSafe(|| match c {
            Call::Predict(s, d) => {
                if only_scene.map(|o| o == *s).unwrap_or(true) {
                    rec.predict(*s, d)
                }
            }
            Call::Skip(s, n) => {
                if only_scene.map(|o| o == *s).unwrap_or(true) {
                    rec.skip(*s, *n)
                }
            }
            Call::Wasted => rec.wasted(),
            Call::Idle(s) => {
                if only_scene.map(|o| o == *s).unwrap_or(true) {
                    rec.idle(*s)
                }
            }
            Call::Stats => rec.stats(),
            Call::Clear => rec.clear(),
            Call::SetAw(p) => rec.set_aw(*p),
        }));
        if r.is_err() {
            let what = match c {
                Call::Predict(..) => "predict",
                Call::Skip(..) => "skip",
                Call::Wasted => "wasted",
                Call::Idle(..) => "idle",
                Call::Stats => "stats",
                Call::Clear => "clear",
                Call::SetAw(..) => "setaw",
            };
            rec.lines.push(json!({"ev": "PANIC", "call": what, "index": k}));
            return;
        }
    }
}

pub fn main(opts: &Opts) {
    let mut cfg = cfg_from_opts(opts);
    if let Some(c) = opts.get("constraints") {
        // "gap:limit,gap:limit"
        cfg.constraints = Some(
            c.split(',')
                .filter(|x| !x.is_empty())
                .map(|p| {
                    let (g, l) = p.split_once(':').expect("gap:limit");
                    (g.parse().unwrap(), l.parse().unwrap())
                })
                .collect(),
        );
    }
    let seed = opts.u64("seed", 1);
    let steps = opts.usize("steps", 120);
    let scenes: Vec<u64> = opts.str("scenes", "0,7").split(',').map(|x| x.parse().unwrap()).collect();
    let nobj = opts.usize("objects", 3);
    let calls = history(seed, steps, &scenes, nobj, opts.get("rotated").is_some(), opts.get("no-lifecycle").is_none(), opts.f64("spread", 160.0) as f32, opts.get("crafted").is_some(), opts.f64("jump", 0.0) as f32,
                        opts.get("features").map(|_| matches!(cfg.vis_metric, VisualSortMetricType::Cosine(_))));
    let mut calls = calls;
    if let Some(ps) = opts.get("pre-skip") {
        // "scene:n": the scene is skipped ahead by n epochs before anything else happens (one scene far ahead of the others)
        let (sc, n) = ps.split_once(':').expect("scene:n");
        calls.insert(0, Call::Skip(sc.parse().unwrap(), n.parse().unwrap()));
    }
    let only = opts.get("only-scene").map(|s| s.parse::<u64>().unwrap());
    let delay_ctl = if opts.u64("delay-us", 0) > 0 {
        let c = crate::gates::Ctl::install();
        c.set_delays(seed, opts.u64("delay-us", 0));
        Some(c)
    } else {
        None
    };
    let mut rec = if opts.get("features").is_some() { Recorder::new(cfg).with_features() } else { Recorder::new(cfg) };
    rec.skip_empty = opts.get("skip-empty").is_some();
    if let Some(p) = opts.get("aw") {
        // collection periodicity set at the start of the run (the counter is shared by all scenes)
        rec.set_aw(p.parse().unwrap());
    }
    run_history(&mut rec, &calls, only);
    if delay_ctl.is_some() {
        crate::gates::Ctl::uninstall();
    }
    rec.write(&opts.str("out", "/dev/stdout"));
}
