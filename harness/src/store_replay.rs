//! spec -> impl replay of TrackStore behaviours (spec/store/GenTS.tla) - properties C09, C11.
use std::sync::atomic::Ordering;
use crate::common::*;
use crate::doubles::*;
use serde_json::{json, Map, Value};
use similari::prelude::{ObservationBuilder, TrackStoreBuilder};
use similari::store::TrackStore;
use similari::track::{Track, TrackStatus};
use std::sync::Arc;

pub type DTrack = Track<Attrs, Metric, Val, CountNotifier>;
pub type DStore = TrackStore<Attrs, Metric, Val, CountNotifier>;

pub struct Universe {
    pub plan: Arc<Plan>,
    pub notifier: CountNotifier,
    pub store: DStore,
    pub probe: DTrack,
    pub shards: usize,
    pub classes: Vec<u64>,
}

pub fn status_name(r: &anyhow::Result<TrackStatus>) -> &'static str {
    match r {
        Ok(TrackStatus::Ready) => "r",
        Ok(TrackStatus::Pending) => "p",
        Ok(TrackStatus::Wasted) => "w",
        Err(_) => "e",
    }
}

impl Universe {
    pub fn new(shards: usize, cap: usize, classes: &[u64]) -> Universe {
        let plan = Plan::new();
        let notifier = CountNotifier::default();
        let store: DStore = TrackStoreBuilder::new(shards)
            .default_attributes(Attrs::new(plan.clone()))
            .metric(Metric::new(cap, plan.clone()))
            .notifier(notifier.clone())
            .build();
        let mut probe_attrs = Attrs::new(plan.clone());
        probe_attrs.tag = i64::MAX;
        let mut b = similari::prelude::TrackBuilder::new(u64::MAX)
            .attributes(probe_attrs)
            .metric(Metric::new(1000, plan.clone()))
            .notifier(CountNotifier::default());
        for c in classes {
            b = b.observation(ObservationBuilder::new(*c).observation_attributes(Val(PROBE_VAL)).build());
        }
        let probe = b.build().expect("probe");
        Universe { plan, notifier, store, probe, shards, classes: classes.to_vec() }
    }

    pub fn build_track(&self, id: u64, cls: u64, v: i64, upd: Option<Upd>) -> anyhow::Result<DTrack> {
        let mut ob = ObservationBuilder::new(cls);
        if v != 0 {
            ob = ob.observation_attributes(Val(v));
        }
        if let Some(u) = upd {
            ob = ob.track_attributes_update(u);
        }
        self.store.new_track(id).observation(ob.build()).build()
    }

    pub fn proj_track(&self, t: &DTrack) -> Value {
        let a = t.get_attributes();
        let mut obs = Map::new();
        let mut calls: i64 = -1;
        for c in &self.classes {
            let l: Vec<Value> = match t.get_observations(*c) {
                Some(v) => v.iter().map(|o| json!(o.attr().as_ref().map(|x| x.0).unwrap_or(0))).collect(),
                None => vec![],
            };
            if !l.is_empty() && calls < 0 {
                if let Ok(d) = t.distances(&self.probe, *c) {
                    if let Some(f) = d.first() {
                        if let Some(m) = &f.attribute_metric {
                            calls = m.calls as i64;
                        }
                    }
                }
            }
            obs.insert(c.to_string(), Value::Array(l));
        }
        // classes outside the alphabet would be a defect too
        let extra: Vec<u64> = t.get_feature_classes().into_iter().filter(|c| !self.classes.contains(c)).collect();
        let mut cls: Vec<u64> = t.get_feature_classes().into_iter().filter(|c| self.classes.contains(c)).collect();
        cls.sort();
        let mut m = json!({"id": t.get_track_id(), "cnt": a.cnt, "tag": a.tag, "st": a.st.name(),
               "obs": Value::Object(obs), "cls": cls, "calls": calls, "hist": t.get_merge_history()});
        if !extra.is_empty() {
            m["extra_classes"] = json!(extra);
        }
        m
    }

    pub fn proj(&mut self) -> Value {
        let mut tracks: Vec<(u64, Value)> = vec![];
        let mut wrong_shard = vec![];
        for s in 0..self.shards {
            let g = self.store.get_store(s);
            for (id, t) in g.iter() {
                if (*id as usize) % self.shards != s || t.get_track_id() != *id {
                    wrong_shard.push(*id);
                }
                tracks.push((*id, self.proj_track(t)));
            }
        }
        tracks.sort_by_key(|p| p.0);
        let stats: Vec<usize> = self.store.shard_stats();
        let mut usable: Vec<Value> =
            self.store.find_usable().iter().map(|(id, r)| json!([id, status_name(r)])).collect();
        usable = sorted(&usable);
        let mut p = json!({
            "ids": tracks.iter().map(|p| p.0).collect::<Vec<_>>(),
            "tr": tracks.into_iter().map(|p| p.1).collect::<Vec<_>>(),
            "stats": stats, "usable": usable});
        if !wrong_shard.is_empty() {
            p["wrong_shard"] = json!(wrong_shard);
        }
        p
    }

    /// Executes one operation, returns (ret, notifications emitted by the store call).
    pub fn exec(&mut self, o: &Value) -> (Value, u64) {
        let op = jstr(o, "op");
        let classes: Vec<u64> = jarr(o, "classes").iter().map(|c| ji(c) as u64).collect();
        let n0;
        let ret: Value;
        match op {
            "add_track" => {
                let upd = o.get("u").and_then(|u| u.as_str()).and_then(Upd::parse);
                let t = self.build_track(jint(o, "id") as u64, jint(o, "cls") as u64, jint(o, "v"), upd).expect("build");
                n0 = self.notifier.get();
                ret = match self.store.add_track(t) {
                    Ok(_) => json!("ok"),
                    Err(_) => json!("err"),
                };
            }
            "add" => {
                let v = jint(o, "v");
                if jbool(o, "optfail") {
                    self.plan.set_fault("opt1");
                }
                n0 = self.notifier.get();
                let r = self.store.add(
                    jint(o, "id") as u64,
                    jint(o, "cls") as u64,
                    if v != 0 { Some(Val(v)) } else { None },
                    None,
                    Upd::parse(jstr(o, "u")),
                );
                ret = json!(if r.is_ok() { "ok" } else { "err" });
            }
            "fetch" => {
                let ids: Vec<u64> = jarr(o, "ids").iter().map(|c| ji(c) as u64).collect();
                n0 = self.notifier.get();
                let got = self.store.fetch_tracks(&ids);
                let mut g: Vec<u64> = got.iter().map(|t| t.get_track_id()).collect();
                g.sort();
                ret = json!(g);
            }
            "merge_owned" => {
                self.plan.set_fault(jstr(o, "fault"));
                n0 = self.notifier.get();
                let r = self.store.merge_owned(
                    jint(o, "dst") as u64,
                    jint(o, "src") as u64,
                    if jbool(o, "all") { None } else { Some(&classes) },
                    jbool(o, "remove"),
                    jbool(o, "hist"),
                );
                ret = json!(match r {
                    Ok(None) => "ok",
                    Ok(Some(_)) => "okremoved",
                    Err(_) => "err",
                });
            }
            "merge_external" => {
                let ext = self.build_track(jint(o, "ext") as u64, jint(o, "ecls") as u64, jint(o, "ev"), None).expect("build ext");
                self.plan.set_fault(jstr(o, "fault"));
                n0 = self.notifier.get();
                let cl = if jbool(o, "all") { None } else { Some(&classes[..]) };
                let mut probe_bad: Option<(usize, usize)> = None;
                // (merge_external is merge_external_noblock followed by get(): operations with an even destination + external
                //  id are issued in that form as well, so that the merge in flight can be probed)
                let r = if jbool(o, "noblock") || (jint(o, "dst") + jint(o, "ext")) % 2 == 0 {
                    // while the merge is in flight the store is still the map it was: a count taken in the middle of the
                    // merge (the optimise callback lingers) sees every stored track (TrackStore.tla: merge_external is one
                    // action; it never changes the set of stored ids)
                    let before: usize = self.store.shard_stats().iter().sum();
                    self.plan.in_merge.store(false, Ordering::SeqCst);
                    self.plan.probe_merge.store(true, Ordering::SeqCst);
                    let r = match self.store.merge_external_noblock(jint(o, "dst") as u64, ext, cl, jbool(o, "hist")) {
                        Ok(f) => {
                            let t0 = std::time::Instant::now();
                            while !self.plan.in_merge.load(Ordering::SeqCst) && !f.is_ready() && t0.elapsed().as_millis() < 20 {
                                std::thread::yield_now();
                            }
                            if self.plan.in_merge.load(Ordering::SeqCst) {
                                let during: usize = self.store.shard_stats().iter().sum();
                                if during != before {
                                    probe_bad = Some((before, during));
                                }
                            }
                            f.get()
                        }
                        Err(e) => Err(e),
                    };
                    self.plan.probe_merge.store(false, Ordering::SeqCst);
                    r
                } else {
                    self.store.merge_external(jint(o, "dst") as u64, &ext, cl, jbool(o, "hist"))
                };
                ret = match probe_bad {
                    Some((b, d)) => json!(format!("stored tracks counted during the merge: {} (before it: {})", d, b)),
                    None => json!(if r.is_ok() { "ok" } else { "err" }),
                };
            }
            "lookup" => {
                n0 = self.notifier.get();
                let r = self.store.lookup(TagLookup(jint(o, "tag")));
                let l: Vec<Value> = r.iter().map(|(id, s)| json!([id, status_name(s)])).collect();
                ret = json!(sorted(&l));
            }
            "clear" => {
                n0 = self.notifier.get();
                self.store.clear();
                ret = json!("ok");
            }
            o => panic!("unknown op {}", o),
        }
        let n1 = self.notifier.get();
        self.plan.clear();
        (ret, n1 - n0)
    }
}

fn canon_ret(v: &Value) -> Value {
    match v {
        Value::Array(a) => json!(sorted(a)),
        o => o.clone(),
    }
}

/// first differing part of two projections
fn diff_proj(spec: &Value, imp: &Value) -> Option<String> {
    if imp.get("wrong_shard").is_some() {
        return Some("wrong_shard".into());
    }
    if jget(spec, "ids") != jget(imp, "ids") {
        return Some("ids".into());
    }
    if jget(spec, "stats") != jget(imp, "stats") {
        return Some("stats".into());
    }
    if json!(sorted(jarr(spec, "usable"))) != *jget(imp, "usable") {
        return Some("usable".into());
    }
    let a = jarr(spec, "tr");
    let b = jarr(imp, "tr");
    for (x, y) in a.iter().zip(b.iter()) {
        if y.get("extra_classes").is_some() {
            return Some("track.extra_classes".into());
        }
        for k in ["id", "cnt", "tag", "st", "obs", "cls", "hist", "calls"] {
            if jget(x, k) != jget(y, k) {
                return Some(format!("track.{}", k));
            }
        }
    }
    None
}

fn nontrivial(beh: &[Value]) -> bool {
    // a behaviour with at least one failing operation and tracks in >= 2 shards at some point
    let failing = beh.iter().any(|s| jget(s, "ret") == "err");
    let two = beh.iter().any(|s| jarr(jget(s, "proj"), "stats").iter().filter(|c| ji(c) > 0).count() >= 2);
    failing || two
}

#[derive(Clone, Copy, PartialEq)]
pub enum Focus {
    All,
    /// C09: return values, membership, shards, statistics, lookups, creation by `add`, frame of merges
    C09,
    /// C11: content of tracks and notifications after add / merge operations on existing tracks
    C11,
}

fn track_of<'a>(proj: &'a Value, id: i64) -> Option<&'a Value> {
    jarr(proj, "tr").iter().find(|t| jint(t, "id") == id)
}

pub fn replay_behaviour(idx: usize, beh: &Value, shards: usize, cap: usize, focus: Focus, rep: &mut Report) {
    let steps = beh.as_array().expect("behaviour = array of steps");
    let mut u = Universe::new(shards, cap, &[0, 1]);
    rep.cases += 1;
    if nontrivial(steps) {
        rep.nontrivial += 1;
    }
    rep.sample(beh);
    let mut prev_ids: Vec<i64> = vec![];
    for (k, s) in steps.iter().enumerate() {
        rep.steps += 1;
        let o = jget(s, "o");
        let op = jstr(o, "op").to_string();
        let r = std::panic::catch_unwind(std::panic::AssertUnwindSafe(|| {
            let (ret, notes) = u.exec(o);
            let proj = u.proj();
            (ret, notes, proj)
        }));
        let (ret, notes, proj) = match r {
            Ok(x) => x,
            Err(_) => {
                rep.mismatch(&format!("{}:panic", op), idx, beh, json!({"step": k}));
                return;
            }
        };
        let sproj = jget(s, "proj");
        let sret = canon_ret(jget(s, "ret"));
        let ret_bad = sret != ret;
        let notes_bad = !jarr(s, "notes").iter().any(|n| ji(n) as u64 == notes);
        let pd = diff_proj(sproj, &proj);
        if !ret_bad && !notes_bad && pd.is_none() {
            prev_ids = jarr(sproj, "ids").iter().map(ji).collect();
            continue;
        }
        // something differs: decide whether it is this focus' business
        let is_merge = op == "merge_owned" || op == "merge_external";
        let existed = op == "add" && prev_ids.contains(&jint(o, "id"));
        let creation = op == "add" && !existed;
        let report = |rep: &mut Report, what: String, detail: Value| {
            rep.mismatch(&format!("{}:{}", op, what), idx, beh, detail);
        };
        let det = json!({"step": k, "spec": {"ret": sret, "notes": jget(s, "notes"), "proj": sproj},
                         "impl": {"ret": ret, "notes": notes, "proj": proj}});
        match focus {
            Focus::All => {
                if ret_bad {
                    report(rep, format!("ret:spec={}:impl={}", short(&sret), short(&ret)), det);
                } else if notes_bad {
                    report(rep, "notes".into(), det);
                } else {
                    report(rep, format!("proj:{}", pd.unwrap()), det);
                }
                return;
            }
            Focus::C09 => {
                if ret_bad {
                    report(rep, format!("ret:spec={}:impl={}", short(&sret), short(&ret)), det);
                    return;
                }
                if let Some(d) = &pd {
                    if !d.starts_with("track.") {
                        report(rep, format!("proj:{}", d), det);
                        return;
                    }
                    // content of tracks: the property speaks about every track a merge must not touch
                    // and about a track created by `add`
                    let exempt: Option<i64> = if is_merge { Some(jint(o, "dst")) } else if existed { Some(jint(o, "id")) } else { None };
                    for st in jarr(sproj, "tr") {
                        let id = jint(st, "id");
                        if Some(id) == exempt {
                            continue;
                        }
                        if track_of(&proj, id) != Some(st) {
                            report(rep, format!("proj:{}{}", d, if creation { ":creation" } else { ":frame" }), det);
                            return;
                        }
                    }
                }
                if notes_bad && creation && notes == 0 && ret == "ok" {
                    report(rep, "notes:creation".into(), det);
                    return;
                }
                rep.count("abandoned_outside_focus", 1);
                return;
            }
            Focus::C11 => {
                if (is_merge || existed) && jget(sproj, "ids") == jget(&proj, "ids") {
                    if let Some(d) = &pd {
                        if d.starts_with("track.") {
                            report(rep, format!("proj:{}", d), det);
                            return;
                        }
                    }
                    if notes_bad {
                        report(rep, "notes".into(), det);
                        return;
                    }
                } else if op == "merge_owned" && jget(sproj, "ids") != jget(&proj, "ids") && sret == "err" {
                    // a failed owned merge must leave both tracks stored
                    report(rep, "proj:ids:failed-owned-merge".into(), det);
                    return;
                } else if existed && jget(sproj, "ids") != jget(&proj, "ids") && sret == "err" {
                    // a failed add to a stored track leaves the track as it was - stored, in particular
                    report(rep, "proj:ids:failed-add".into(), det);
                    return;
                }
                rep.count("abandoned_outside_focus", 1);
                return;
            }
        }
    }
}

fn short(v: &Value) -> String {
    match v {
        Value::String(s) => s.clone(),
        Value::Array(_) => "set".into(),
        o => o.to_string(),
    }
}

pub fn main(opts: &Opts) {
    let shards = opts.usize("shards", 2);
    let cap = opts.usize("cap", 2);
    let focus = match opts.str("focus", "all").as_str() {
        "all" => Focus::All,
        "c09" => Focus::C09,
        "c11" => Focus::C11,
        o => panic!("focus {}", o),
    };
    let mut rep = Report::new();
    for_each_case(opts, |idx, beh| replay_behaviour(idx, &beh, shards, cap, focus, &mut rep));
    rep.finish();
}
