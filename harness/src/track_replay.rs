//! spec -> impl replay of single-track fault enumeration (spec/store/GenTrack.tla) - property C11.
use crate::common::*;
use crate::doubles::*;
use crate::store_replay::{DTrack, Universe};
use serde_json::{json, Value};
use similari::prelude::ObservationBuilder;

fn mk(u: &Universe, id: u64, shape: &Value) -> DTrack {
    let mut b = u.store.new_track(id);
    for c in &u.classes {
        let n = jint(shape, &c.to_string());
        for v in 1..=n {
            b = b.observation(
                ObservationBuilder::new(*c)
                    .observation_attributes(Val(v))
                    .track_attributes_update(Upd::Ok)
                    .build(),
            );
        }
    }
    b.build().expect("shape build")
}

fn classes_of(v: &Value, k: &str) -> Vec<u64> {
    jarr(v, k).iter().map(|c| ji(c) as u64).collect()
}

/// compares one operation result with the specification's expectation
fn cmp(u: &Universe, exp: &Value, ok: bool, notes: u64, t: &DTrack) -> Option<(String, Value)> {
    let p = u.proj_track(t);
    if jbool(exp, "ok") != ok {
        return Some((format!("ret:spec={}:impl={}", jbool(exp, "ok"), ok), json!({"impl": p})));
    }
    if !jarr(exp, "notes").iter().any(|n| ji(n) as u64 == notes) {
        return Some(("notes".into(), json!({"spec": jget(exp, "notes"), "impl": notes})));
    }
    let e = jget(exp, "t");
    for k in ["id", "cnt", "tag", "st", "obs", "cls", "hist", "calls"] {
        if jget(e, k) != jget(&p, k) {
            return Some((format!("track.{}", k), json!({"spec": e, "impl": p})));
        }
    }
    None
}

fn merge_op(u: &Universe, d: &mut DTrack, s: &DTrack, cl: &[u64], hf: bool, fault: &str) -> (bool, u64) {
    u.plan.set_fault(fault);
    let n0 = u.notifier.get();
    let r = d.merge(s, cl, hf);
    let n1 = u.notifier.get();
    u.plan.clear();
    (r.is_ok(), n1 - n0)
}

pub fn replay_case(idx: usize, c: &Value, u: &Universe, rep: &mut Report) {
    rep.cases += 1;
    rep.steps += 1;
    rep.sample(c);
    let kind = jstr(c, "kind").to_string();
    let r = std::panic::catch_unwind(std::panic::AssertUnwindSafe(|| -> Option<(String, Value)> {
        let mut d = mk(u, 1, jget(c, "ds"));
        match kind.as_str() {
            "merge" => {
                let s = mk(u, 2, jget(c, "ss"));
                let s0 = u.proj_track(&s);
                let (ok, notes) = merge_op(u, &mut d, &s, &classes_of(c, "classes"), jbool(c, "hist"), jstr(c, "fault"));
                if u.proj_track(&s) != s0 {
                    return Some(("source changed".into(), json!({})));
                }
                cmp(u, jget(c, "exp"), ok, notes, &d)
            }
            "add" => {
                let v = jint(c, "v");
                if jbool(c, "optfail") {
                    u.plan.set_fault("opt1");
                }
                let n0 = u.notifier.get();
                let r = d.add_observation(
                    jint(c, "cls") as u64,
                    if v != 0 { Some(Val(v)) } else { None },
                    None,
                    Upd::parse(jstr(c, "u")),
                );
                let n1 = u.notifier.get();
                u.plan.clear();
                cmp(u, jget(c, "exp"), r.is_ok(), n1 - n0, &d)
            }
            "build" => {
                // TrackBuilder: observations in order; Err as soon as one fails
                let mut b = u.store.new_track(1);
                for o in jarr(c, "obs") {
                    let mut ob = ObservationBuilder::new(jint(o, "cls") as u64).observation_attributes(Val(jint(o, "v")));
                    if let Some(up) = Upd::parse(jstr(o, "u")) {
                        ob = ob.track_attributes_update(up);
                    }
                    b = b.observation(ob.build());
                }
                u.plan.set_fault(jstr(c, "fault"));
                let r = b.build();
                u.plan.clear();
                let exp = jget(c, "exp");
                match r {
                    Ok(t) => {
                        if !jbool(exp, "ok") {
                            return Some(("ret:spec=false:impl=true".into(), json!({"impl": u.proj_track(&t)})));
                        }
                        let p = u.proj_track(&t);
                        let e = jget(exp, "t");
                        for k in ["id", "cnt", "tag", "st", "obs", "cls", "hist", "calls"] {
                            if jget(e, k) != jget(&p, k) {
                                return Some((format!("track.{}", k), json!({"spec": e, "impl": p})));
                            }
                        }
                        None
                    }
                    Err(_) => {
                        if jbool(exp, "ok") {
                            Some(("ret:spec=true:impl=false".into(), json!({})))
                        } else {
                            None
                        }
                    }
                }
            }
            "merge2" => {
                let a = mk(u, 2, jget(c, "s1"));
                let b = mk(u, 3, jget(c, "s2"));
                let (ok, notes) = merge_op(u, &mut d, &a, &classes_of(c, "cl1"), jbool(c, "h1"), jstr(c, "f1"));
                if let Some((s, v)) = cmp(u, jget(c, "exp1"), ok, notes, &d) {
                    return Some((format!("first:{}", s), v));
                }
                let (ok, notes) = merge_op(u, &mut d, &b, &classes_of(c, "cl2"), jbool(c, "h2"), jstr(c, "f2"));
                cmp(u, jget(c, "exp2"), ok, notes, &d).map(|(s, v)| (format!("second:{}", s), v))
            }
            o => panic!("kind {}", o),
        }
    }));
    // non-trivial: a fault position other than "none", or a merge over >= 2 present classes
    let faulty = ["fault", "f1", "f2"].iter().any(|k| c.get(*k).map(|f| f != "none").unwrap_or(false))
        || c.get("optfail").map(|b| b == &json!(true)).unwrap_or(false)
        || c.get("u").map(|b| b == "fail").unwrap_or(false);
    let multi = kind == "merge" && {
        let ds = jget(c, "ds");
        let ss = jget(c, "ss");
        jarr(c, "classes").iter().filter(|k| jint(ds, &k.to_string()) + jint(ss, &k.to_string()) > 0).count() >= 2
    };
    if faulty || multi {
        rep.nontrivial += 1;
    }
    if faulty {
        rep.count("faulty", 1);
    }
    match r {
        Ok(None) => {}
        Ok(Some((sig, detail))) => rep.mismatch(&format!("{}:{}", kind, sig), idx, c, detail),
        Err(_) => {
            u.plan.clear();
            rep.mismatch(&format!("{}:panic", kind), idx, c, json!({}))
        }
    }
}

pub fn main(opts: &Opts) {
    let cap = opts.usize("cap", 2);
    let u = Universe::new(1, cap, &[0, 1, 2]);
    let mut rep = Report::new();
    for_each_case(opts, |idx, c| replay_case(idx, &c, &u, &mut rep));
    rep.finish();
}
