//! spec -> impl replay of R1 tracker behaviours (spec/tracker/GenTR.tla, GenVis.tla)
//! into the four real trackers - properties C01, C03, C04, C05, C06, C12, C13.
use crate::common::*;
use crate::drv::*;
use serde_json::{json, Value};
use similari::prelude::*;
use std::collections::HashMap;

/// Fixed, mutually far-apart slots of the slot world.
pub fn slot_box(slot: i64, conf_milli: i64) -> Universal2DBox {
    let c = conf_milli as f32 / 1000.0;
    match slot {
        1 => Universal2DBox::new_with_confidence(100.0, 100.0, None, 0.5, 80.0, c),
        2 => Universal2DBox::new_with_confidence(600.0, 400.0, Some(-0.7), 1.5, 40.0, c),
        3 => Universal2DBox::new_with_confidence(1200.0, 900.0, Some(0.9), 1.0, 50.0, c),
        4 => Universal2DBox::new_with_confidence(300.0, 1500.0, Some(2.0), 0.8, 60.0, c),
        // slot 1 seen smaller: same centre and aspect, area x 0.64
        5 => Universal2DBox::new_with_confidence(100.0, 100.0, None, 0.5, 64.0, c),
        o => panic!("slot {}", o),
    }
}
pub fn slot_of(b: &Universal2DBox) -> i64 {
    for s in 1..=5 {
        let sb = slot_box(s, 1000);
        if (sb.xc - b.xc).abs() < 5.0 && (sb.yc - b.yc).abs() < 5.0 && (sb.height - b.height).abs() < 5.0 {
            return s;
        }
    }
    0
}
pub static COSINE: std::sync::atomic::AtomicBool = std::sync::atomic::AtomicBool::new(false);
/// feature symbol -> vector (Euclidean distances: 1-2 = 3, 1-3 = 4, 2-3 = 5; cosine mode: similarities 0.6, 0, 0.8)
pub fn feature_of(sym: i64) -> Option<Vec<f32>> {
    if COSINE.load(std::sync::atomic::Ordering::SeqCst) {
        return match sym {
            0 => None,
            1 => Some(vec![1.0, 0.0]),
            2 => Some(vec![0.6, 0.8]),
            3 => Some(vec![0.0, 1.0]),
            o => panic!("feature symbol {}", o),
        };
    }
    match sym {
        0 => None,
        1 => Some(vec![0.0, 0.0]),
        2 => Some(vec![3.0, 0.0]),
        3 => Some(vec![0.0, 4.0]),
        o => panic!("feature symbol {}", o),
    }
}
pub fn symbol_of(f: &Option<Vec<f32>>) -> i64 {
    match f {
        None => 0,
        Some(v) => {
            for s in 1..=3 {
                let w = feature_of(s).unwrap();
                if (v[0] - w[0]).abs() < 1e-3 && (v[1] - w[1]).abs() < 1e-3 {
                    return s;
                }
            }
            -1
        }
    }
}

pub fn det_of(d: &Value) -> Det {
    let conf = jint(d, "conf");
    let cid = jint(d, "cid");
    let f = d.get("f").map(ji).unwrap_or(0);
    let q = d.get("q").map(ji);
    Det {
        bbox: slot_box(jint(d, "slot"), conf),
        cid: if cid == 0 { None } else { Some(cid) },
        feature: feature_of(f),
        quality: q.map(|x| x as f32 / 100.0),
    }
}

fn same_box(a: &Universal2DBox, b: &Universal2DBox) -> bool {
    a.xc == b.xc
        && a.yc == b.yc
        && a.angle.unwrap_or(0.0) == b.angle.unwrap_or(0.0)
        && a.aspect == b.aspect
        && a.height == b.height
        && a.confidence == b.confidence
}
fn near_box(a: &Universal2DBox, b: &Universal2DBox, tol: f32) -> bool {
    (a.xc - b.xc).abs() <= tol
        && (a.yc - b.yc).abs() <= tol
        && (a.angle.unwrap_or(0.0) - b.angle.unwrap_or(0.0)).abs() <= tol * 0.01
        && (a.aspect - b.aspect).abs() <= tol * 0.01
        && (a.height - b.height).abs() <= tol
}

/// which properties a disagreement of a given aspect concerns
fn props_of(aspect: &str) -> &'static [&'static str] {
    match aspect {
        "predict:count" | "predict:echo" | "predict:dup-id" | "predict:stale-id" | "predict:ep" | "predict:len"
        | "batch:scenes" => &["C01", "C06"],
        "predict:id:foreign-scene" => &["C04"],
        // the epoch counter of a scene that the operation does not name has moved (frame condition of C04)
        "proj:epochs:foreign-scene" => &["C04", "C03"],
        "predict:id:expired" => &["C03"],
        "predict:id:assoc" => &["C02", "C12"],
        "predict:vt" => &["C12"],
        "predict:pred" => &["C07"],
        "idle" | "wasted:ids" | "wasted:fields" | "stats" | "epoch" | "proj:tracks" | "proj:place" | "proj:fields"
        | "proj:epochs" | "proj:unknown-track" => &["C03"],
        "proj:ring" | "wasted:ring" | "proj:gallery" | "proj:collected" | "proj:feat-hist" => &["C13"],
        "panic" | "hang" => &["C01", "C03", "C06"],
        "panic:multi-scene-batch" => &["C01", "C03", "C04", "C06"],
        _ => &[],
    }
}

pub struct Interp {
    pub cfg: Cfg,
    pub focus: String,
    pub max_idle: usize,
    /// gate controller when worker steps are serialised by a scheduler policy
    pub ctl: Option<std::sync::Arc<crate::gates::Ctl>>,
}

struct Run {
    drv: Box<dyn Drv>,
    to_spec: HashMap<u64, i64>,
    to_real: HashMap<i64, u64>,
    literal: bool,
    first_slot: HashMap<i64, i64>,
    resized: std::collections::HashSet<i64>,
}

impl Run {
    fn bind(&mut self, real: u64, spec: i64) -> bool {
        if self.literal && real as i64 != spec {
            return false;
        }
        match (self.to_spec.get(&real), self.to_real.get(&spec)) {
            (Some(s), Some(r)) => *s == spec && *r == real,
            (None, None) => {
                self.to_spec.insert(real, spec);
                self.to_real.insert(spec, real);
                true
            }
            _ => false,
        }
    }
}

type Mis = Option<(String, Value)>;

fn ring_of(v: &TrackView) -> Value {
    json!(v.observed.iter().map(|b| json!([slot_of(b), (b.confidence * 1000.0).round() as i64])).collect::<Vec<_>>())
}

impl Interp {
    fn cmp_recs(&self, run: &mut Run, spec: &[Value], real: &[Rec], dets: &[Value], before: &Value) -> Mis {
        if spec.len() != real.len() {
            return Some(("predict:count".into(), json!({"spec": spec.len(), "impl": real.len()})));
        }
        for i in 0..real.len() {
            for j in 0..i {
                if real[i].id == real[j].id {
                    return Some(("predict:dup-id".into(), json!({"i": i, "j": j, "id": real[i].id})));
                }
            }
        }
        let known_before: Vec<i64> = jarr(before, "tracks").iter().map(|t| jint(t, "id")).collect();
        let issued_before = before.get("issued").map(ji).unwrap_or(0);
        for (i, (s, r)) in spec.iter().zip(real.iter()).enumerate() {
            let d = det_of(&dets[i]);
            if !same_box(&r.obs, &d.bbox) || r.cid != d.cid {
                return Some(("predict:echo".into(), json!({"i": i, "impl": format!("{:?}", r)})));
            }
            if r.scene as i64 != jint(s, "scene") {
                // the record for this detection carries another scene: the detection went to a track of that scene
                return Some(("predict:id:foreign-scene".into(), json!({"i": i, "impl": format!("{:?}", r)})));
            }
            let sid = jint(s, "id");
            if !run.bind(r.id, sid) {
                // attribute the disagreement in grouping
                let real_as_spec = run.to_spec.get(&r.id).copied();
                let detail = json!({"i": i, "spec_id": sid, "impl_id": r.id, "impl_id_as_spec": real_as_spec});
                if let Some(k) = real_as_spec {
                    // implementation continued the known track k where the specification did not
                    if let Some(t) = jarr(before, "tracks").iter().find(|t| jint(t, "id") == k) {
                        if jint(t, "scene") != jint(s, "scene") {
                            return Some(("predict:id:foreign-scene".into(), detail));
                        }
                        if jint(t, "last") + (self.max_idle as i64) < jint(s, "ep") {
                            return Some(("predict:id:expired".into(), detail));
                        }
                        return Some(("predict:id:assoc".into(), detail));
                    }
                    // a track that is no longer held (handed out / cleared) was continued, or a stale id reused
                    if k <= issued_before {
                        return Some(("predict:stale-id".into(), detail));
                    }
                }
                if !known_before.contains(&sid) && real_as_spec.is_none() && run.literal {
                    // both sides start a new track but the literal id differs
                    return Some(("predict:stale-id".into(), detail));
                }
                return Some(("predict:id:assoc".into(), detail));
            }
            if r.ep as i64 != jint(s, "ep") {
                return Some(("predict:ep".into(), json!({"i": i, "spec": jint(s, "ep"), "impl": r.ep})));
            }
            if r.len as i64 != jint(s, "len") {
                return Some(("predict:len".into(), json!({"i": i, "spec": jint(s, "len"), "impl": r.len})));
            }
            let vis = s.get("vt").map(|v| v == "vis").unwrap_or(false);
            if r.visual != vis {
                return Some(("predict:vt".into(), json!({"i": i, "spec_visual": vis, "impl_visual": r.visual})));
            }
            // a track that saw two sizes of its place has a smoothed size in between: no expectation in the slot world
            let first = *run.first_slot.entry(sid).or_insert(jint(s, "slot"));
            if first != jint(s, "slot") {
                run.resized.insert(sid);
            }
            if !run.resized.contains(&sid) && !near_box(&r.pred, &d.bbox, 0.05) {
                return Some(("predict:pred".into(), json!({"i": i, "impl": format!("{:?}", r.pred)})));
            }
        }
        None
    }

    fn view_json(&self, run: &Run, v: &TrackView, place: &str) -> Option<Value> {
        let sid = run.to_spec.get(&v.id)?;
        let last = v.observed.last();
        let mut o = json!({"id": sid, "place": place, "scene": v.scene, "last": v.last, "len": v.len,
            "slot": last.map(slot_of).unwrap_or(0), "cid": v.cid.unwrap_or(0), "ring": ring_of(v),
            "pred_len": v.predicted.len()});
        if let Some(g) = &v.gallery {
            o["gal"] = json!(g.iter().map(|(f, q)| json!([symbol_of(f), (q * 100.0).round() as i64])).collect::<Vec<_>>());
        }
        if let Some(c) = v.collected {
            o["coll"] = json!(c);
        }
        if let Some(fh) = &v.feat_hist {
            o["fh"] = json!(fh.iter().map(symbol_of).collect::<Vec<_>>());
        }
        Some(o)
    }

    fn cmp_proj(&self, run: &Run, spec: &Value, touched: &[u64]) -> Mis {
        for e in jarr(spec, "epochs") {
            let s = ji(&e[0]) as u64;
            if run.drv.epoch(s) as i64 != ji(&e[1]) {
                let sig = if touched.contains(&s) { "proj:epochs" } else { "proj:epochs:foreign-scene" };
                return Some((sig.into(), json!({"scene": s, "spec": e[1], "impl": run.drv.epoch(s), "operation_names_scenes": touched})));
            }
        }
        let mut real: Vec<Value> = vec![];
        for (wasted, place) in [(false, "main"), (true, "coll")] {
            for v in run.drv.content(wasted) {
                match self.view_json(run, &v, place) {
                    Some(j) => real.push(j),
                    None => return Some(("proj:unknown-track".into(), json!({"impl_id": v.id, "place": place}))),
                }
            }
        }
        real.sort_by_key(|t| jint(t, "id"));
        let st = jarr(spec, "tracks");
        let ids_s: Vec<i64> = st.iter().map(|t| jint(t, "id")).collect();
        let ids_r: Vec<i64> = real.iter().map(|t| jint(t, "id")).collect();
        if ids_s != ids_r {
            return Some(("proj:tracks".into(), json!({"spec": ids_s, "impl": ids_r})));
        }
        for (s, r) in st.iter().zip(real.iter()) {
            if jget(s, "place") != jget(r, "place") {
                return Some(("proj:place".into(), json!({"spec": s, "impl": r})));
            }
            for k in ["scene", "last", "len", "slot", "cid"] {
                if jget(s, k) != jget(r, k) {
                    return Some(("proj:fields".into(), json!({"field": k, "spec": s, "impl": r})));
                }
            }
            if jget(s, "ring") != jget(r, "ring") || jarr(s, "ring").len() as i64 != jint(r, "pred_len") {
                return Some(("proj:ring".into(), json!({"spec": s, "impl": r})));
            }
            if s.get("gal").is_some() {
                if jget(s, "gal") != jget(r, "gal") {
                    return Some(("proj:gallery".into(), json!({"spec": s, "impl": r})));
                }
                if jget(s, "coll") != jget(r, "coll") {
                    return Some(("proj:collected".into(), json!({"spec": s, "impl": r})));
                }
                if s.get("fh").is_some() && jget(s, "fh") != jget(r, "fh") {
                    return Some(("proj:feat-hist".into(), json!({"spec": s, "impl": r})));
                }
            }
        }
        None
    }

    fn step(&self, run: &mut Run, s: &Value, before: &Value) -> Mis {
        let o = jget(s, "o");
        let op = jstr(o, "op");
        let ret = jget(s, "ret");
        match op {
            "predict" => {
                let dets = jarr(o, "dets");
                let d: Vec<Det> = dets.iter().map(det_of).collect();
                let real = run.drv.predict(jint(o, "scene") as u64, &d);
                let spec: Vec<Value> = ret.as_array().cloned().unwrap_or_default();
                if let Some(m) = self.cmp_recs(run, &spec, &real, dets, before) {
                    return Some(m);
                }
            }
            "batch" => {
                let b = jarr(o, "b");
                let input: Vec<(u64, Vec<Det>)> =
                    b.iter().map(|e| (jint(e, "scene") as u64, jarr(e, "dets").iter().map(det_of).collect())).collect();
                let real = run.drv.predict_batch(&input);
                let mut scenes_r: Vec<u64> = real.iter().map(|x| x.0).collect();
                scenes_r.sort();
                let mut scenes_s: Vec<u64> = b.iter().map(|e| jint(e, "scene") as u64).collect();
                scenes_s.sort();
                if scenes_r != scenes_s {
                    return Some(("batch:scenes".into(), json!({"spec": scenes_s, "impl": scenes_r})));
                }
                for e in ret.as_array().cloned().unwrap_or_default() {
                    let sc = jint(&e, "scene") as u64;
                    let recs = real.iter().find(|x| x.0 == sc).map(|x| x.1.clone()).unwrap_or_default();
                    let dets = jarr(b.iter().find(|x| jint(x, "scene") as u64 == sc).unwrap(), "dets");
                    let spec: Vec<Value> = jarr(&e, "recs").clone();
                    if let Some(m) = self.cmp_recs(run, &spec, &recs, dets, before) {
                        return Some(m);
                    }
                }
            }
            "skip" => run.drv.skip(jint(o, "scene") as u64, jint(o, "n") as usize),
            "idle" => {
                let real = run.drv.idle(jint(o, "scene") as u64);
                let mut ids: Vec<i64> = vec![];
                for r in &real {
                    match run.to_spec.get(&r.id) {
                        Some(k) => ids.push(*k),
                        None => return Some(("idle".into(), json!({"unknown impl id": r.id}))),
                    }
                }
                ids.sort();
                let mut sp: Vec<i64> = ret.as_array().map(|a| a.iter().map(ji).collect()).unwrap_or_default();
                sp.sort();
                if ids != sp {
                    return Some(("idle".into(), json!({"spec": sp, "impl": ids})));
                }
            }
            "epoch" => {
                let e = run.drv.epoch(jint(o, "scene") as u64);
                if e as i64 != ji(ret) {
                    return Some(("epoch".into(), json!({"spec": ret, "impl": e})));
                }
            }
            "setaw" => run.drv.set_aw(jint(o, "p") as usize),
            "clear" => run.drv.clear(),
            "stats" => {
                let (a, w) = run.drv.stats();
                let ta: usize = a.iter().sum();
                let tw: usize = w.iter().sum();
                let bad_tot = ta as i64 != jint(ret, "active") || tw as i64 != jint(ret, "wasted");
                let mut bad_shard = false;
                let spec_shards = jget(ret, "active_shards").as_object().map(|m| m.len()).unwrap_or(0);
                if run.literal && spec_shards == run.drv.shards() {
                    for (k, v) in a.iter().enumerate() {
                        bad_shard |= jget(jget(ret, "active_shards"), &k.to_string()).as_i64() != Some(*v as i64);
                    }
                    for (k, v) in w.iter().enumerate() {
                        bad_shard |= jget(jget(ret, "wasted_shards"), &k.to_string()).as_i64() != Some(*v as i64);
                    }
                }
                if bad_tot || bad_shard || a.len() != run.drv.shards() || w.len() != run.drv.shards() {
                    return Some(("stats".into(), json!({"spec": ret, "impl": {"active": a, "wasted": w}})));
                }
            }
            "wasted" => {
                let real = run.drv.wasted();
                let mut rv: Vec<Value> = vec![];
                for v in &real {
                    match self.view_json(run, v, "out") {
                        Some(j) => rv.push(j),
                        None => return Some(("wasted:ids".into(), json!({"unknown impl id": v.id}))),
                    }
                }
                rv.sort_by_key(|t| jint(t, "id"));
                let mut sv: Vec<Value> = ret.as_array().cloned().unwrap_or_default();
                sv.sort_by_key(|t| jint(t, "id"));
                let ids_s: Vec<i64> = sv.iter().map(|t| jint(t, "id")).collect();
                let ids_r: Vec<i64> = rv.iter().map(|t| jint(t, "id")).collect();
                if ids_s != ids_r {
                    return Some(("wasted:ids".into(), json!({"spec": ids_s, "impl": ids_r})));
                }
                for (s, r) in sv.iter().zip(rv.iter()) {
                    if jget(s, "scene") != jget(r, "scene") || jget(s, "ep") != jget(r, "last") || jget(s, "len") != jget(r, "len") {
                        return Some(("wasted:fields".into(), json!({"spec": s, "impl": r})));
                    }
                    if jget(s, "ring") != jget(r, "ring") || jarr(s, "ring").len() as i64 != jint(r, "pred_len") {
                        return Some(("wasted:ring".into(), json!({"spec": s, "impl": r})));
                    }
                    if s.get("fh").is_some() && jget(s, "fh") != jget(r, "fh") {
                        return Some(("proj:feat-hist".into(), json!({"spec": s, "impl": r})));
                    }
                }
            }
            o => panic!("unknown op {}", o),
        }
        // the scenes the operation names (their epoch counters may move; nobody else's may)
        let touched: Vec<u64> = match op {
            "batch" => jarr(o, "b").iter().map(|e| jint(e, "scene") as u64).collect(),
            _ => o.get("scene").and_then(|x| x.as_i64()).map(|x| vec![x as u64]).unwrap_or_default(),
        };
        self.cmp_proj(run, jget(s, "proj"), &touched)
    }

    /// counts per-property non-triviality of a behaviour (rules of DESIGN.md section 10)
    fn classify(&self, steps: &[Value], rep: &mut Report) {
        let mut c01 = false;
        let mut c03 = false;
        let mut c04 = false;
        let mut c13 = false;
        let mut c06 = false;
        let (mut c12, mut vis, mut c13g) = (false, false, false);
        let empty = json!({"tracks": [], "epochs": []});
        let mut before = &empty;
        for s in steps {
            let o = jget(s, "o");
            let op = jstr(o, "op");
            // expired but uncollected track while an observable call happens
            let ep: HashMap<i64, i64> = jarr(before, "epochs").iter().map(|e| (ji(&e[0]), ji(&e[1]))).collect();
            let pending = jarr(before, "tracks").iter().any(|t| {
                jstr(t, "place") == "main" && jint(t, "last") + (self.max_idle as i64) < *ep.get(&jint(t, "scene")).unwrap_or(&0)
            });
            if pending && ["idle", "wasted", "stats", "predict", "batch"].contains(&op) {
                c03 = true;
            }
            if op == "batch" && jarr(o, "b").len() >= 2 {
                c06 = true;
            }
            if let Some(nt) = s.get("nt") {
                if jint(nt, "lost") > 0 {
                    c12 = true;
                }
                if jint(nt, "vis") > 0 {
                    vis = true;
                }
                if jint(nt, "evicts") > 0 || jint(nt, "refused") > 0 {
                    c13g = true;
                }
            }
            let lists: Vec<(&Value, Vec<Value>)> = match op {
                "predict" => vec![(jget(s, "ret"), jarr(o, "dets").clone())],
                "batch" => jarr(s, "ret").iter().map(|e| (jget(e, "recs"), vec![])).collect(),
                _ => vec![],
            };
            for (recs, dets) in lists {
                let recs = recs.as_array().cloned().unwrap_or_default();
                let cont = recs.iter().filter(|r| jint(r, "len") > 1).count();
                let newt = recs.iter().filter(|r| jint(r, "len") == 1).count();
                let dup = dets.len() == 2 && jget(&dets[0], "slot") == jget(&dets[1], "slot");
                if (recs.len() >= 2 && cont >= 1 && newt >= 1) || dup {
                    c01 = true;
                }
            }
            let tr = jarr(jget(s, "proj"), "tracks");
            for a in tr {
                for b in tr {
                    if jget(a, "scene") != jget(b, "scene") && jget(a, "slot") == jget(b, "slot") {
                        c04 = true;
                    }
                }
                if jint(a, "len") > jarr(a, "ring").len() as i64 {
                    c13 = true;
                }
            }
            before = jget(s, "proj");
        }
        for (k, v) in [("nt_C01", c01), ("nt_C03", c03), ("nt_C04", c04), ("nt_C13", c13), ("nt_C06", c06), ("nt_C12", c12), ("vis_attach", vis), ("nt_C13g", c13g)] {
            if v {
                rep.count(k, 1);
            }
        }
    }

    pub fn replay(&self, idx: usize, beh: &Value, rep: &mut Report) {
        let steps = beh.as_array().expect("behaviour = array of steps");
        // batch trackers cannot express an empty detection list for a scene
        let batch_kind = self.cfg.kind.starts_with("batch");
        if batch_kind {
            let inexpressible = steps.iter().any(|s| {
                let o = jget(s, "o");
                match jstr(o, "op") {
                    "predict" => jarr(o, "dets").is_empty(),
                    "batch" => jarr(o, "b").iter().any(|e| jarr(e, "dets").is_empty()),
                    _ => false,
                }
            });
            if inexpressible {
                rep.count("skipped_inexpressible", 1);
                return;
            }
        }
        if crate::drv::HANGS.load(std::sync::atomic::Ordering::SeqCst) >= 3 {
            // three requests were never answered (each costs the watchdog's 10 s and leaks a tracker): reported, enough
            rep.count("skipped_after_three_hangs", 1);
            return;
        }
        rep.cases += 1;
        rep.sample(beh);
        self.classify(steps, rep);
        let drv = self.cfg.build();
        let reordered0 = self.ctl.as_ref().map(|c| c.reordered.load(std::sync::atomic::Ordering::SeqCst)).unwrap_or(0);
        if let Some(ctl) = &self.ctl {
            ctl.start_gating(drv.main_uid());
        }
        let literal = drv.literal_ids();
        let mut run = Run { drv, to_spec: HashMap::new(), to_real: HashMap::new(), literal, first_slot: HashMap::new(), resized: Default::default() };
        let m0 = rep.mismatches;
        let hangs0 = crate::drv::HANGS.load(std::sync::atomic::Ordering::SeqCst);
        self.replay_steps(idx, beh, steps, &mut run, reordered0, rep);
        if crate::drv::HANGS.load(std::sync::atomic::Ordering::SeqCst) > hangs0 {
            // a batch request was never answered: the destructor would wait for the stuck threads
            std::mem::forget(run);
            return;
        }
        // the tracker's destructor (it stops and joins the worker threads) belongs to the code under test as well
        if std::panic::catch_unwind(std::panic::AssertUnwindSafe(move || drop(run))).is_err() && rep.mismatches == m0 {
            if self.focus == "all" || props_of("panic").contains(&self.focus.as_str()) {
                rep.mismatch(&format!("{}:panic", self.cfg.kind), idx, beh, json!({"where": "drop"}));
            } else {
                rep.count("abandoned_outside_focus", 1);
            }
        }
    }

    fn replay_steps(&self, idx: usize, beh: &Value, steps: &[Value], run: &mut Run, reordered0: u64, rep: &mut Report) {
        let empty = json!({"tracks": [], "epochs": [], "issued": 0});
        let mut before = empty.clone();
        for (k, s) in steps.iter().enumerate() {
            rep.steps += 1;
            let r = std::panic::catch_unwind(std::panic::AssertUnwindSafe(|| self.step(run, s, &before)));
            let m = match r {
                Ok(m) => m,
                Err(e) => {
                    // a batch call for several scenes that panics: the scenes of one batch were not served independently
                    let o = jget(s, "o");
                    let multi = jstr(o, "op") == "batch" && jarr(o, "b").len() >= 2;
                    if crate::geom_replay::panic_text(&e).starts_with("hang:") {
                        Some(("hang".to_string(), json!({"watchdog": crate::geom_replay::panic_text(&e)})))
                    } else {
                        Some(((if multi { "panic:multi-scene-batch" } else { "panic" }).to_string(), json!({})))
                    }
                }
            };
            if let Some((aspect, mut detail)) = m {
                if let Some(ctl) = &self.ctl {
                    ctl.open_all();
                }
                let props = props_of(&aspect);
                if self.focus == "all" || props.contains(&self.focus.as_str()) {
                    detail["step"] = json!(k);
                    detail["op"] = jget(s, "o").clone();
                    rep.mismatch(&format!("{}:{}", self.cfg.kind, aspect), idx, beh, detail);
                    return;
                }
                // outside this check's property: a disagreement in the projected state / statistics does not
                // disturb the id mapping, so the replay goes on (a later consequence may concern this property);
                // a disagreement in the records themselves ends the behaviour
                if aspect.starts_with("proj:") && aspect != "proj:tracks" && aspect != "proj:unknown-track"
                    || ["stats", "idle", "epoch", "wasted:ring", "wasted:fields"].contains(&aspect.as_str())
                {
                    rep.count("continued_outside_focus", 1);
                    if let Some(ctl) = &self.ctl {
                        ctl.start_gating(run.drv.main_uid());
                    }
                } else {
                    rep.count("abandoned_outside_focus", 1);
                    return;
                }
            }
            before = jget(s, "proj").clone();
        }
        if let Some(ctl) = &self.ctl {
            ctl.open_all();
            if ctl.reordered.load(std::sync::atomic::Ordering::SeqCst) > reordered0 {
                rep.count("nt_C05", 1);
            }
        }
        rep.nontrivial += 1; // overwritten per property from the nt_* counters by the check
    }
}

pub fn cfg_from_opts(opts: &Opts) -> Cfg {
    let mut c = Cfg::default();
    c.kind = opts.str("kind", "sort");
    c.shards = opts.usize("shards", 2);
    c.voters = opts.usize("voters", 2);
    c.history = opts.usize("history", 2);
    c.max_idle = opts.usize("max-idle", 1);
    c.min_conf = opts.f64("min-conf", 0.05) as f32;
    c.metric = match opts.str("metric", "iou").as_str() {
        "iou" => PositionalMetricType::IoU(opts.f64("thr", 0.3) as f32),
        "maha" => PositionalMetricType::Mahalanobis,
        o => panic!("metric {}", o),
    };
    if let Some(cs) = opts.get("constraints") {
        // "gap:limit,gap:limit"
        c.constraints = Some(cs.split(',').filter(|x| !x.is_empty()).map(|p| {
            let (g, l) = p.split_once(':').expect("gap:limit");
            (g.parse().unwrap(), l.parse().unwrap())
        }).collect());
    }
    c.pos_w = opts.f64("pos-w", 1.0 / 20.0) as f32;
    c.vel_w = opts.f64("vel-w", 1.0 / 160.0) as f32;
    c.min_votes = opts.usize("min-votes", 1);
    c.max_obs = opts.usize("max-obs", 2);
    c.min_track_len = opts.usize("min-track-len", 1);
    c.q_use = opts.f64("q-use", 0.5) as f32;
    c.q_collect = opts.f64("q-collect", 0.6) as f32;
    c.own_use = opts.f64("own-use", 0.0) as f32;
    c.own_collect = opts.f64("own-collect", 0.0) as f32;
    c.min_area = opts.f64("min-area", 0.0) as f32;
    c.vis_metric = if opts.str("vis-kind", "euclid") == "cosine" {
        // the specification counts in 1 - similarity (x 10): similarity threshold = 1 - thr / 10 ... thr is given / 10 already
        COSINE.store(true, std::sync::atomic::Ordering::SeqCst);
        VisualSortMetricType::Cosine(1.0 - opts.f64("vis-thr", 0.5) as f32)
    } else {
        VisualSortMetricType::Euclidean(opts.f64("vis-thr", 3.5) as f32)
    };
    c
}

pub fn main(opts: &Opts) {
    let cfg = cfg_from_opts(opts);
    let sched = opts.str("sched", "none");
    let delay_us = opts.u64("delay-us", 0);
    let delay_ctl = if sched == "none" && delay_us > 0 {
        // free-running threads with seeded random delays at every hook site
        let c = crate::gates::Ctl::install();
        c.set_delays(opts.u64("seed", 1), delay_us);
        if opts.get("overlap").is_some() {
            c.set_overlap();
        }
        Some(c)
    } else {
        None
    };
    let (ctl, handle) = if sched != "none" {
        let ctl = crate::gates::Ctl::install();
        let h = ctl.spawn_scheduler(&sched, opts.u64("seed", 1));
        (Some(ctl), Some(h))
    } else {
        (None, None)
    };
    let it = Interp { max_idle: cfg.max_idle, cfg, focus: opts.str("focus", "all"), ctl: ctl.clone() };
    let mut rep = Report::new();
    for_each_case(opts, |idx, beh| it.replay(idx, &beh, &mut rep));
    if let (Some(ctl), Some((stop, h))) = (ctl, handle) {
        stop.store(true, std::sync::atomic::Ordering::SeqCst);
        ctl.open_all();
        let _ = h.join();
        crate::gates::Ctl::uninstall();
    }
    if delay_ctl.is_some() {
        crate::gates::Ctl::uninstall();
    }
    rep.finish();
}
