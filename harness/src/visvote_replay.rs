//! spec -> impl replay of the VisualSORT voting cascade (spec/voting/GenVV.tla) into the real
//! `VisualVoting::winners` - property C12, engine level.
use crate::common::*;
use serde_json::{json, Value};
use similari::track::ObservationMetricOk;
use similari::trackers::sort::VotingType;
use similari::trackers::visual_sort::observation_attributes::VisualObservationAttributes;
use similari::trackers::visual_sort::voting::VisualVoting;
use similari::voting::Voting;

fn perms(n: usize, cap: usize) -> Vec<Vec<usize>> {
    // all permutations for n <= 5, else identity / reverse / rotations
    let mut out = vec![];
    if n <= 5 {
        fn rec(cur: &mut Vec<usize>, used: &mut Vec<bool>, n: usize, out: &mut Vec<Vec<usize>>) {
            if cur.len() == n {
                out.push(cur.clone());
                return;
            }
            for i in 0..n {
                if !used[i] {
                    used[i] = true;
                    cur.push(i);
                    rec(cur, used, n, out);
                    cur.pop();
                    used[i] = false;
                }
            }
        }
        rec(&mut vec![], &mut vec![false; n], n, &mut out);
    } else {
        out.push((0..n).collect());
        out.push((0..n).rev().collect());
        for r in 1..n.min(cap) {
            out.push((0..n).map(|i| (i + r) % n).collect());
        }
    }
    out
}

pub fn main(opts: &Opts) {
    let perturb = opts.f64("perturb-thr", 1.0) as f32;
    let mut rep = Report::new();
    for_each_case(opts, |idx, c| {
        rep.cases += 1;
        rep.sample(&c);
        if jint(&c, "contested") == 1 {
            rep.nontrivial += 1;
        }
        let str_ = jarr(&c, "str");
        let thr = jint(&c, "thr") as f32 / 8.0 * perturb;
        let minv = jint(&c, "minv") as usize;
        let out = jget(&c, "out");
        for p in perms(str_.len(), 6) {
            rep.steps += 1;
            let stream: Vec<ObservationMetricOk<VisualObservationAttributes>> = p
                .iter()
                .map(|i| {
                    let e = &str_[*i];
                    let am = jint(e, "am");
                    let fd = jint(e, "fd");
                    ObservationMetricOk::new(
                        jint(e, "q") as u64,
                        jint(e, "t") as u64,
                        if am > 0 { Some(am as f32 / 8.0) } else { None },
                        if fd >= 0 { Some(fd as f32 / 8.0) } else { None },
                    )
                })
                .collect();
            let r = std::panic::catch_unwind(|| VisualVoting::new(thr, f32::MAX, minv).winners(stream));
            let w = match r {
                Ok(w) => w,
                Err(_) => {
                    rep.mismatch("visvote:panic", idx, &c, json!({"perm": p}));
                    return;
                }
            };
            for (q, exp) in out.as_object().expect("out object") {
                let q: u64 = q.parse().unwrap();
                let target = ji(&exp[0]) as u64;
                let vis = exp[1] == "vis";
                let got = w.get(&q).and_then(|v| v.first()).cloned();
                let (gt, gvis) = match got {
                    None => (q, false),
                    Some((d, vt)) => (d, matches!(vt, VotingType::Visual)),
                };
                if gt != target {
                    let sig = if target == q { "visvote:attached-where-spec-starts-new" } else if gt == q { "visvote:new-where-spec-attaches" } else { "visvote:other-track" };
                    rep.mismatch(sig, idx, &c, json!({"perm": p, "query": q, "spec": exp, "impl": [gt, gvis]}));
                    return;
                }
                if target != q && gvis != vis {
                    rep.mismatch("visvote:voting-type", idx, &c, json!({"perm": p, "query": q, "spec": exp, "impl": [gt, gvis]}));
                    return;
                }
            }
            if w.len() > out.as_object().unwrap().len() {
                rep.mismatch("visvote:extra-query", idx, &c, json!({"perm": p}));
                return;
            }
        }
    });
    rep.finish();
}
