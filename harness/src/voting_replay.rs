//! spec -> impl replay of the voting engines (spec/voting/GenV.tla, GenA.tla) - property C17, and C02a.
//!
//! kind "vote": `{str: [{q, t, am, fd}], sc, maxd, minv, topn: [N -> {q: [[track, weight], ..]}], best: {q: [[winner, weight], ..]}}`
//!   distances are integers (real value fd / sc, exact in f32; fd = -1: no distance).  The stream is fed in several
//!   orders (every permutation for <= 5 entries, otherwise identity, reverse and seeded random shuffles) to the real
//!   `TopNVoting` (once per N) and `BestFitVoting`; every order must give exactly the specification's answer
//!   (tracks, order, weights within 1e-6).
//! kind "asg": `{w: [[..]], thr, sc, opt: [[col or 0 per row], ..]}`: the gated pairs (w > 0) are fed to
//!   `SortVoting::new(thr / sc, rows, cols)`; the outcome must have exactly one winner for every query that appears
//!   (a track or the query itself), no track twice, and be a member of `opt` (the set of ALL optimal assignments).
//! kind "asgv": as "asg" but with `val` = the optimum (DP) instead of `opt`: the outcome must be a valid gated
//!   one-to-one assignment whose value (integers of the case) equals `val`.
//! No property logic here: every expected value comes from TLC.
use crate::common::*;
use rand::seq::SliceRandom;
use rand::SeedableRng;
use serde_json::{json, Value};
use similari::track::ObservationMetricOk;
use similari::trackers::sort::voting::SortVoting;
use similari::utils::bbox::Universal2DBox;
use similari::voting::best::BestFitVoting;
use similari::voting::topn::{TopNVoting, TopNVotingElt};
use similari::voting::Voting;
use std::collections::{BTreeMap, HashMap};

const QBASE: u64 = 100; // queries are 101.., tracks 1..

fn permutations(n: usize) -> Vec<Vec<usize>> {
    fn rec(cur: &mut Vec<usize>, used: &mut Vec<bool>, n: usize, out: &mut Vec<Vec<usize>>) {
        if cur.len() == n {
            out.push(cur.clone());
            return;
        }
        for i in 0..n {
            if !used[i] {
                used[i] = true;
                cur.push(i);
                rec(cur, used, n, out);
                cur.pop();
                used[i] = false;
            }
        }
    }
    let mut out = vec![];
    rec(&mut vec![], &mut vec![false; n], n, &mut out);
    out
}

/// input orders: all permutations for n <= 5, else identity, reverse and `extra` seeded shuffles
fn orders(n: usize, extra: usize, seed: u64) -> Vec<Vec<usize>> {
    if n <= 5 {
        return permutations(n);
    }
    let id: Vec<usize> = (0..n).collect();
    let mut v = vec![id.clone(), id.iter().rev().cloned().collect()];
    let mut rng = rand::rngs::StdRng::seed_from_u64(seed);
    for _ in 0..extra {
        let mut p = id.clone();
        p.shuffle(&mut rng);
        v.push(p);
    }
    v
}

/// expected `{q: [[x, w], ..]}` (or `[]` for the empty function) -> map
fn exp_map(v: &Value) -> BTreeMap<u64, Vec<(u64, i64)>> {
    let mut m = BTreeMap::new();
    if let Value::Object(o) = v {
        for (k, l) in o {
            let lst = l.as_array().unwrap().iter().map(|p| (ji(&p[0]) as u64, ji(&p[1]))).collect();
            m.insert(k.parse::<u64>().unwrap(), lst);
        }
    } else if let Value::Array(a) = v {
        // TLC writes a function whose domain is 1..n as an array: entry i belongs to query i + 1 (query ids that
        // start at 1: the instance with overlapping query / track ids)
        for (i, l) in a.iter().enumerate() {
            let lst = l.as_array().unwrap().iter().map(|p| (ji(&p[0]) as u64, ji(&p[1]))).collect();
            m.insert(i as u64 + 1, lst);
        }
    }
    m
}

/// compares a winners map with the expectation; missing key == empty list
fn cmp_lists(exp: &BTreeMap<u64, Vec<(u64, i64)>>, got: &HashMap<u64, Vec<TopNVotingElt>>, sc: f64) -> Option<(String, Value)> {
    let show = |g: &HashMap<u64, Vec<TopNVotingElt>>| {
        let mut b = BTreeMap::new();
        for (k, l) in g {
            b.insert(k.to_string(), l.iter().map(|e| json!([e.winner_track, e.weight * sc])).collect::<Vec<_>>());
        }
        json!(b)
    };
    for (k, l) in got {
        if !exp.contains_key(k) && !l.is_empty() {
            return Some(("query not in the stream".into(), json!({"impl": show(got)})));
        }
        if l.iter().any(|e| e.query_track != *k) {
            return Some(("element under a foreign key".into(), json!({"impl": show(got)})));
        }
    }
    for (q, el) in exp {
        let empty = vec![];
        let gl = got.get(q).unwrap_or(&empty);
        if gl.len() != el.len() {
            let s = if gl.len() > el.len() { "more winners than the specification" } else { "fewer winners than the specification" };
            return Some((s.into(), json!({"q": q, "spec": el, "impl": show(got)})));
        }
        for (g, e) in gl.iter().zip(el.iter()) {
            if g.winner_track != e.0 {
                let mut a: Vec<u64> = gl.iter().map(|x| x.winner_track).collect();
                let mut b: Vec<u64> = el.iter().map(|x| x.0).collect();
                a.sort();
                b.sort();
                let s = if a == b { "order" } else { "different winners" };
                return Some((s.into(), json!({"q": q, "spec": el, "impl": show(got)})));
            }
            if (g.weight * sc - e.1 as f64).abs() > 1e-6 * sc {
                return Some(("weight".into(), json!({"q": q, "spec": el, "impl": show(got)})));
            }
        }
    }
    None
}

fn vote_case(idx: usize, c: &Value, rep: &mut Report, extra: usize, seed: u64, perturb: f32) {
    let sc = jint(c, "sc") as f32;
    let ents: Vec<(u64, u64, Option<f32>)> = jarr(c, "str")
        .iter()
        .map(|e| {
            let fd = jint(e, "fd");
            (jint(e, "q") as u64, jint(e, "t") as u64, if fd < 0 { None } else { Some(fd as f32 / sc) })
        })
        .collect();
    let maxd = jint(c, "maxd") as f32 / sc * perturb;
    let minv = jint(c, "minv") as usize;
    let topn: Vec<BTreeMap<u64, Vec<(u64, i64)>>> = jarr(c, "topn").iter().map(exp_map).collect();
    let best = exp_map(jget(c, "best"));
    if jint(c, "contest") == 1 || jint(c, "cut") == 1 {
        rep.nontrivial += 1;
    }
    rep.count("vote_cases", 1);
    if jint(c, "contest") == 1 {
        rep.count("contested_track", 1);
    }
    if jint(c, "cut") == 1 {
        rep.count("cut_at_N", 1);
    }
    let ords = orders(ents.len(), extra, seed ^ (idx as u64).wrapping_mul(0x9E37_79B9_7F4A_7C15));
    for ord in &ords {
        rep.steps += 1;
        let stream = || ord.iter().map(|&i| ObservationMetricOk::<()>::new(ents[i].0, ents[i].1, None, ents[i].2)).collect::<Vec<_>>();
        for (ni, exp) in topn.iter().enumerate() {
            let n = ni + 1;
            let r = std::panic::catch_unwind(std::panic::AssertUnwindSafe(|| TopNVoting::<()>::new(n, maxd, minv).winners(stream())));
            match r {
                Err(_) => {
                    rep.mismatch("topn:panic", idx, c, json!({"order": ord, "n": n}));
                    return;
                }
                Ok(got) => {
                    if let Some((s, d)) = cmp_lists(exp, &got, sc as f64) {
                        rep.mismatch(&format!("topn:{}", s), idx, c, json!({"order": ord, "n": n, "d": d}));
                        return;
                    }
                }
            }
        }
        let r = std::panic::catch_unwind(std::panic::AssertUnwindSafe(|| BestFitVoting::<()>::new(maxd, minv).winners(stream())));
        match r {
            Err(_) => {
                rep.mismatch("bestfit:panic", idx, c, json!({"order": ord}));
                return;
            }
            Ok(got) => {
                if let Some((s, d)) = cmp_lists(&best, &got, sc as f64) {
                    rep.mismatch(&format!("bestfit:{}", s), idx, c, json!({"order": ord, "d": d}));
                    return;
                }
            }
        }
    }
}

fn asg_case(idx: usize, c: &Value, rep: &mut Report, extra: usize, seed: u64, perturb: f32) {
    let sc = jint(c, "sc") as f32;
    let thr_i = jint(c, "thr");
    let w: Vec<Vec<i64>> = jarr(c, "w").iter().map(|r| r.as_array().unwrap().iter().map(ji).collect()).collect();
    let nr = w.len();
    let nc = w.first().map(|r| r.len()).unwrap_or(0);
    let by_value = jstr(c, "kind") == "asgv";
    let opt: Vec<Vec<i64>> = if by_value {
        vec![]
    } else {
        jarr(c, "opt").iter().map(|a| a.as_array().unwrap().iter().map(ji).collect()).collect()
    };
    if jint(c, "gs") == 1 {
        rep.nontrivial += 1;
    }
    rep.count(if by_value { "asgv_cases" } else { "asg_cases" }, 1);
    if opt.len() > 1 {
        rep.count("several_optima", 1);
    }
    // every other case also streams the absent pairs, as the metrics do: a pair gated out by the chi-square
    // bound arrives with metric 0.0, a pair without positional metric with None (weight 0 = no pair)
    let zeros = idx % 2 == 1;
    let mut ents: Vec<(u64, u64, Option<f32>)> = vec![];
    for r in 0..nr {
        for x in 0..nc {
            if w[r][x] > 0 {
                ents.push((QBASE + 1 + r as u64, 1 + x as u64, Some(w[r][x] as f32 / sc)));
            } else if zeros {
                ents.push((QBASE + 1 + r as u64, 1 + x as u64, if (r + x) % 2 == 0 { Some(0.0) } else { None }));
            }
        }
    }
    if zeros {
        rep.count("streams_with_zero_entries", 1);
    }
    let appears: Vec<bool> = (0..nr).map(|r| (zeros && nc > 0) || w[r].iter().any(|&v| v > 0)).collect();
    let ords = orders(ents.len(), extra, seed ^ (idx as u64).wrapping_mul(0x9E37_79B9_7F4A_7C15));
    for ord in &ords {
        rep.steps += 1;
        let stream: Vec<ObservationMetricOk<Universal2DBox>> =
            ord.iter().map(|&i| ObservationMetricOk::new(ents[i].0, ents[i].1, ents[i].2, None)).collect();
        let r = std::panic::catch_unwind(std::panic::AssertUnwindSafe(|| {
            SortVoting::new(thr_i as f32 / sc * perturb, nr, nc).winners(stream)
        }));
        let got = match r {
            Err(_) => {
                rep.mismatch("hungarian:panic", idx, c, json!({"order": ord}));
                return;
            }
            Ok(g) => g,
        };
        let show = json!(got.iter().map(|(k, v)| (k.to_string(), json!(v))).collect::<BTreeMap<_, _>>());
        // outcome as row -> column (0 = the query itself)
        let mut a = vec![0i64; nr];
        for (k, v) in &got {
            let r = k.wrapping_sub(QBASE + 1) as usize;
            if r >= nr || !appears[r] {
                rep.mismatch("hungarian:winner for a query that is not in the stream", idx, c, json!({"order": ord, "impl": show}));
                return;
            }
            if v.len() != 1 {
                rep.mismatch("hungarian:not exactly one winner", idx, c, json!({"order": ord, "impl": show}));
                return;
            }
            if v[0] == *k {
                a[r] = 0;
            } else if v[0] >= 1 && v[0] <= nc as u64 {
                a[r] = v[0] as i64;
            } else {
                rep.mismatch("hungarian:winner is neither a track nor the query itself", idx, c, json!({"order": ord, "impl": show}));
                return;
            }
        }
        if (0..nr).any(|r| appears[r] && !got.contains_key(&(QBASE + 1 + r as u64))) {
            rep.mismatch("hungarian:no winner for a query of the stream", idx, c, json!({"order": ord, "impl": show}));
            return;
        }
        let mut seen = vec![false; nc + 1];
        for &x in &a {
            if x > 0 {
                if seen[x as usize] {
                    rep.mismatch("hungarian:track awarded twice", idx, c, json!({"order": ord, "impl": show}));
                    return;
                }
                seen[x as usize] = true;
            }
        }
        if by_value {
            if (0..nr).any(|r| a[r] > 0 && w[r][a[r] as usize - 1] == 0) {
                rep.mismatch("hungarian:pair that is not in the stream", idx, c, json!({"order": ord, "impl": show}));
                return;
            }
            let val: i64 = (0..nr).map(|r| if a[r] == 0 { thr_i } else { w[r][a[r] as usize - 1] }).sum();
            if val != jint(c, "val") {
                rep.mismatch("hungarian:not a maximum-weight assignment", idx, c, json!({"order": ord, "impl": a, "value": val}));
                return;
            }
        } else if !opt.iter().any(|o| *o == a) {
            rep.mismatch("hungarian:not a maximum-weight assignment", idx, c, json!({"order": ord, "impl": a}));
            return;
        }
    }
}

pub fn main(opts: &Opts) {
    let mut rep = Report::new();
    let seed = opts.u64("seed", 1);
    let extra = opts.usize("shuffles", 6);
    // liveness demonstration only: scales the distance / weight threshold handed to the implementation
    let perturb = opts.f64("perturb-thr", 1.0) as f32;
    for_each_case(opts, |idx, c| {
        rep.cases += 1;
        rep.sample(&c);
        match jstr(&c, "kind") {
            "vote" => vote_case(idx, &c, &mut rep, extra, seed, perturb),
            "asg" | "asgv" => asg_case(idx, &c, &mut rep, extra, seed, perturb),
            o => {
                eprintln!("vh: unknown case kind {}", o);
                std::process::exit(2);
            }
        }
    });
    rep.finish();
}
