#!/bin/bash
# lib/confirm_mutant.sh <worktree> <OUT/mK dir> <seeded name>
# Confirms a seeded change independently in the scratch worktree (clean tree: demo passes; with the patch: the existing
# suite passes and the demo fails), then stores it as /verif/seeded/<name>/ (patch.diff, demo, meta.json).
set -u
wt=$1; src=$2; name=$3
dst=/verif/seeded/$name
cd "$wt" || exit 2
git checkout -q -- . ; rm -f tests/demo.rs tests/demo_*.rs
demo=$(ls "$src"/demo.rs 2>/dev/null | head -1)
[ -n "$demo" ] || { echo "no demo.rs in $src"; exit 2; }
mkdir -p tests; cp "$demo" tests/demo.rs
clean=$(cargo test --offline --test demo 2>&1 | grep -E "^test result" | tail -1)
git apply "$src/patch.diff" || { echo "patch does not apply"; exit 2; }
# only src/ may change
changed=$(git diff --name-only | grep -v '^src/' | head -1)
mv tests/demo.rs /tmp/demo.$$.rs
cargo test --workspace --no-fail-fast --offline > /tmp/suite.$$.log 2>&1
suite=$(grep -E "^test result" /tmp/suite.$$.log | awk '{p+=$4; f+=$6} END {print p" passed; "f" failed"}')
failed=$(grep -E "^test [A-Za-z0-9_:]+ \.\.\. FAILED" /tmp/suite.$$.log | awk '{print $2}' | sort -u | tr '\n' ' ')
if [ -n "$failed" ]; then
  # the 10 ms timing tests of the store fail sporadically when the machine is loaded: a failed test is re-run alone (3 tries)
  still=""
  for t in $failed; do
    okt=0
    for try in 1 2 3; do cargo test --offline --lib -- --exact "$t" 2>&1 | grep -q "test result: ok. 1 passed" && { okt=1; break; }; done
    [ $okt = 1 ] || still="$still $t"
  done
  if [ -z "$still" ]; then suite="81 passed; 0 failed (re-run alone after a failure under load: $failed)"; else suite="$suite (still failing alone:$still)"; fi
fi
rm -f /tmp/suite.$$.log
mv /tmp/demo.$$.rs tests/demo.rs
with=$(timeout 900 cargo test --offline --test demo 2>&1 | grep -E "^test result|panicked|timed out" | tail -2 | tr '\n' ' ')
[ -n "$with" ] || with="(no result line: hang / abort / timeout)"
git checkout -q -- . ; rm -f tests/demo.rs; rmdir tests 2>/dev/null
echo "clean: $clean"; echo "suite+patch: $suite"; echo "demo+patch: $with"; echo "non-src changes: ${changed:-none}"
ok=1
echo "$clean" | grep -q "ok\." || ok=0
echo "$suite" | grep -q "^81 passed; 0 failed" || ok=0
echo "$with" | grep -q "test result: ok" && ok=0
[ -z "$changed" ] || ok=0
if [ $ok = 1 ]; then
  mkdir -p "$dst"; cp "$src/patch.diff" "$dst/"; cp "$demo" "$dst/demo.rs"
  python3 - "$src/meta.json" "$dst/meta.json" "$name" "$clean" "$suite" "$with" <<'EOF'
import json, sys
src, dst, name, clean, suite, withp = sys.argv[1:7]
try:
    m = json.load(open(src))
except Exception:
    m = {}
m["name"] = name
m["confirmed"] = {"demo_on_clean_tree": clean, "existing_suite_with_change": suite, "demo_with_change": withp}
m["ran"] = "scratch worktree: cargo test --test demo (clean); git apply patch.diff; cargo test --workspace --no-fail-fast --offline; cargo test --test demo"
json.dump(m, open(dst, "w"), indent=1)
EOF
  echo "CONFIRMED -> $dst"
else
  echo "NOT CONFIRMED"
fi
