#!/usr/bin/env python3
"""Writes /verif/MANIFEST.json from the table below (single source of truth for the interface)."""
import json
from pathlib import Path
ROOT = Path(__file__).resolve().parents[1]

import importlib, sys
sys.path.insert(0, str(ROOT)); sys.path.insert(0, str(ROOT / "lib"))

def collect():
    """Each checks/cNN.py carries its own MANIFEST dict (level, design, technique, text, note)."""
    out = {}
    for f in sorted((ROOT / "checks").glob("c[0-9][0-9].py")):
        mod = importlib.import_module(f"checks.{f.stem}")
        if hasattr(mod, "MANIFEST"):
            out[f.stem.upper()] = mod.MANIFEST
    return out

CHECKS = collect()

NOT_YET = {}

def main():
    props = [json.loads(l) for l in open(ROOT / "properties.jsonl")]
    checks = []
    for p in props:
        pid = p["id"]
        if pid not in CHECKS:
            continue
        c = CHECKS[pid]
        checks.append({
            "property_id": pid,
            "quick_cmd": f"bin/check {pid} --tier quick",
            "thorough_cmd": f"bin/check {pid} --tier thorough",
            "evidence_file": f"evidence/{pid}.json",
            "replay_cmd_template": f"bin/check {pid} --replay {{path}}",
            "engine": "tlc+vh",
            "level_claimed": {"category": c["level"], "text": c["text"], "design_ref": c["design"]},
            "level_note": c["note"],
            "technique": c["technique"],
        })
    na = [{"property_id": p["id"], "reason": NOT_YET.get(p["id"], "check under construction in this session: specification drafted (DESIGN-spec-drafts.md), not yet bound to the implementation")}
          for p in props if p["id"] not in CHECKS]
    m = {
        "version": 1,
        "setup_cmd": "bin/setup",
        "hooks": {
            "guard": "--cfg similari_verif",
            "enable": "harness/.cargo/config.toml sets rustflags = [\"--cfg\", \"similari_verif\"]; the harness depends on /repo by path, so every check rebuilds /repo's current tree with the hooks compiled in",
            "baseline_off_cmd": "cd /repo && cargo test --workspace --no-fail-fast --offline",
            "source_commits": json.load(open(ROOT / "hooks_commits.json")),
            "add_only": True,
        },
        "engines": [
            {"name": "tlc", "path": "spec/", "serves_properties": [c["property_id"] for c in checks], "kind_free_text": "TLA+ specifications, model-checking / generation / trace configurations run by TLC"},
            {"name": "pydrv", "path": "pydrv/", "serves_properties": ["C18"], "kind_free_text": "std-lib Python driver executing the TLC-generated scripts through the similari extension module built from /repo"},
            {"name": "vh", "path": "harness/", "serves_properties": [c["property_id"] for c in checks], "kind_free_text": "Rust conformance harness: replays TLC behaviours into the real code, records traces of the real code"},
        ],
        "checks": checks,
        "not_applicable": na,
        "notes": "Model-based verification with explicit TLA+ specifications (spec/), TLC, and conformance in both directions (harness/). See DESIGN.md.",
    }
    json.dump(m, open(ROOT / "MANIFEST.json", "w"), indent=1)
    print("MANIFEST.json:", len(checks), "checks,", len(na), "not claimed")

if __name__ == "__main__":
    main()
