#!/usr/bin/env python3
"""Writes /verif/MANIFEST.json from the table below (single source of truth for the interface)."""
import json
from pathlib import Path
ROOT = Path(__file__).resolve().parents[1]

CHECKS = {
 "C09": dict(level="model_checking", design="3 (C09)", technique="TLA+ spec (TrackStore.tla) model-checked with TLC; every TLC-enumerated behaviour replayed into the real TrackStore",
   text="TLC explores the complete state graph of a reduced store instance (invariants, merge frame assertions, reachability witnesses) and enumerates every operation sequence of depth 2 (thorough: depth 3, 300-step simulations) over the API alphabet; each behaviour is replayed into the real sharded store for several shard counts and every return value / projected store state is compared with the value TLC computed from the specification.",
   note="Trusted: TLC, the harness doubles (attributes/metric/notifier) implement what Track.tla models; ids/classes/values from a small alphabet; error variants are not distinguished."),
 "C11": dict(level="fault_enumeration", design="3 (C11)", technique="TLA+ spec (Track.tla) with a fault parameter; TLC enumerates every fault position, cases replayed into real tracks and the real store",
   text="Exhaustive enumeration by TLC of every (destination shape, source shape, class list, history flag, failing callback invocation) for Track::merge and every add_observation variant (thorough: two-merge sequences), with C11 asserted on the specification's operators; each case is applied to real tracks whose callbacks fail exactly there and the five mutable parts plus the notification count are compared; the store-level part replays the TrackStore behaviours with faults.",
   note="Trusted: TLC; faults are injected only through the user callbacks (apply / attribute merge / optimise); shapes have 0..2 observations in up to 3 classes."),
}

NOT_YET = {}

def main():
    props = [json.loads(l) for l in open(ROOT / "properties.jsonl")]
    checks = []
    for p in props:
        pid = p["id"]
        if pid not in CHECKS:
            continue
        c = CHECKS[pid]
        checks.append({
            "property_id": pid,
            "quick_cmd": f"bin/check {pid} --tier quick",
            "thorough_cmd": f"bin/check {pid} --tier thorough",
            "evidence_file": f"evidence/{pid}.json",
            "replay_cmd_template": f"bin/check {pid} --replay {{path}}",
            "engine": "tlc+vh",
            "level_claimed": {"category": c["level"], "text": c["text"], "design_ref": c["design"]},
            "level_note": c["note"],
            "technique": c["technique"],
        })
    na = [{"property_id": p["id"], "reason": NOT_YET.get(p["id"], "check under construction in this session: specification drafted (DESIGN-spec-drafts.md), not yet bound to the implementation")}
          for p in props if p["id"] not in CHECKS]
    m = {
        "version": 1,
        "setup_cmd": "bin/setup",
        "hooks": {
            "guard": "--cfg similari_verif",
            "enable": "harness/.cargo/config.toml sets rustflags = [\"--cfg\", \"similari_verif\"]; the harness depends on /repo by path, so every check rebuilds /repo's current tree with the hooks compiled in",
            "baseline_off_cmd": "cd /repo && cargo test --workspace --no-fail-fast --offline",
            "source_commits": json.load(open(ROOT / "hooks_commits.json")),
            "add_only": True,
        },
        "engines": [
            {"name": "tlc", "path": "spec/", "serves_properties": [c["property_id"] for c in checks], "kind_free_text": "TLA+ specifications, model-checking / generation / trace configurations run by TLC"},
            {"name": "vh", "path": "harness/", "serves_properties": [c["property_id"] for c in checks], "kind_free_text": "Rust conformance harness: replays TLC behaviours into the real code, records traces of the real code"},
        ],
        "checks": checks,
        "not_applicable": na,
        "notes": "Model-based verification with explicit TLA+ specifications (spec/), TLC, and conformance in both directions (harness/). See DESIGN.md.",
    }
    json.dump(m, open(ROOT / "MANIFEST.json", "w"), indent=1)
    print("MANIFEST.json:", len(checks), "checks,", len(na), "not claimed")

if __name__ == "__main__":
    main()
