#!/usr/bin/env python3
"""Writes the brief given to a fresh fault-seeding sub-agent for each property: lib/mkprompts.py <scratch root>.
The brief contains the property text, the anchors and one-line summaries of the ideas already in seeded/ (so that new
rounds look elsewhere); it contains nothing else from /verif."""
import json,glob,os,re,sys
ROOT=sys.argv[1]
os.makedirs(ROOT+'/prompts',exist_ok=True)
props={json.loads(l)['id']:json.loads(l) for l in open('/verif/properties.jsonl')}
prev={}
for d in sorted(glob.glob('/verif/seeded/*/meta.json')):
    m=json.load(open(d)); prev.setdefault(m['breaks_property'],[]).append(m['summary'][:230].replace('\n',' '))
base=open('/dev/null').read()
for pid,p in props.items():
    txt=f"""You are helping evaluate a verification framework for the Rust crate insight-platform/Similari (multi-object tracking: SORT / VisualSORT trackers, Kalman filters, IoU / polygon clipping, NMS, sharded threaded track store, PyO3 bindings). Your job is to act as a careful *fault seeder*: produce TWO independent, realistic code changes ("mutants") to the crate that each BREAK the semantic property below while the crate still compiles and its whole existing test suite still passes.

You have your own scratch git worktree of the repository at {ROOT}/{pid} (detached HEAD). Work ONLY inside that directory. Never touch /repo or /verif and do not read anything under /verif. The sandbox has no network; use `cargo test --offline` (the test suite: `cargo test --workspace --no-fail-fast --offline`, 81 tests, all pass on the unchanged tree; two store timing tests `general_ops` / `baked_similarity` can fail sporadically when the machine is loaded - rerun them alone if that happens). Other jobs are running on this machine, so builds may be slow; be patient. Ignore everything under `#[cfg(similari_verif)]` (inert instrumentation hooks) - do not modify or rely on those lines. Do not use `git stash` (the stash is shared with the main repository); revert with `git checkout -- .` or `git apply -R`. The repository has no tests/ directory; create it for your demo (`mkdir -p tests`) and remove it when you clean up (keep OUT/). If every shell command prints a conda / .condarc error banner, ignore it.

## The property (id {pid}): {p['title']}

Statement: {p['statement']}

Quantified: {p['quantifier']['text']}

Why the existing tests cannot settle it: {p['why_tests_cant']}

Code anchors: files {', '.join(p['anchors']['files'])}.
Mechanisms: {json.dumps(p['anchors'].get('mechanism'), ensure_ascii=False)}

## What a good mutant looks like

* A change a real developer could plausibly make (refactoring slip, "optimisation", off-by-one, wrong variable, forgotten case, reordered statements, stale cache, lock scope change, wrong comparison, changed default, early return, wrong collection method, integer/float conversion, swapped arguments, copy/paste between twin implementations, etc.) - small (a few lines), in the library source under src/ (not tests, not examples, not benches, not Cargo files).
* It must need something SPECIFIC to manifest - a particular interleaving / thread schedule, a fault at a particular point, a multi-step sequence of operations, an unusual input or configuration (non-default option values, boundary values such as 0 or 1, many objects, long histories, particular shard / worker counts, particular id values, large or tiny magnitudes), or two cooperating sites that each look fine alone. Changes that ordinary use would expose at once (every call wrong) are NOT wanted.
* The crate compiles, and all 81 existing tests pass with the change (run the full suite and confirm).
* It genuinely violates the property as stated (not merely changes unspecified behaviour). Think about which clause of the statement it breaks. Many ideas have been tried already (list below); look for clauses, tracker kinds (Sort / BatchSort / VisualSort / BatchVisualSort), API entry points, option values and files among the anchors that this list has NOT touched, and for inputs at the edges of the quantified ranges.
* The two mutants must be different in kind from each other (different clause of the property, different file or mechanism), and different from these already-known ideas (do not repeat them or close variants of them):
{chr(10).join('  - '+s for s in prev.get(pid,[]))}

## Deliverables (write them under {ROOT}/{pid}/OUT/, which you create)

For each mutant k in {{1,2}}:
1. `OUT/m<k>/patch.diff` - output of `git diff` (relative to HEAD, applies with `git apply` at the repository root) containing ONLY the change to src/.
2. `OUT/m<k>/demo.rs` - a demonstration: an integration test file (to be dropped into `tests/demo.rs` of the repository; use the crate as `similari::...`, crate name `similari`) that PASSES on the unchanged tree and FAILS with the patch applied. {"For this property (Python bindings) the demo may instead be a Python script `demo.py`: build the extension module with `PYO3_PYTHON=/root/.pyenv/shims/python3 cargo build --offline --lib` (default features include PyO3); the cdylib appears as target/debug/libsimilari.so - copy it to a scratch directory as `similari.so` and import it with the pyenv interpreter `/root/.pyenv/shims/python3` (3.11). The demo.py must take the directory containing similari.so as sys.argv[1] (put on sys.path), exit 0 when the behaviour is correct and non-zero (assertion) when it is not. The Python-facing wrapper code lives in `#[pymethods]` / `#[pyfunction]` blocks and files like *_py.rs, python.rs." if pid=='C18' else ""} Keep the demo deterministic where possible; if it needs a thread interleaving, make it repeat enough to fail reliably with the patch (and say how reliable); a demo that can hang must use a watchdog (at most 60 s).
3. `OUT/m<k>/meta.json` with keys: "breaks_property": "{pid}", "summary" (what was changed, file/function), "breaks" (which clause of the property and how), "needs" (what it needs in order to manifest), "confirmed": {{"demo_on_clean_tree": "<result line>", "existing_suite_with_change": "<result line>", "demo_with_change": "<result line>"}}.

Procedure for each mutant: make the change; `cargo test --workspace --no-fail-fast --offline` -> all 81 pass; put demo at tests/demo.rs -> fails; revert the src change -> demo passes; save the files to OUT/m<k>/; then restore the worktree to a clean state (`git checkout -- . && rm -rf tests`) before the second mutant. At the end leave the worktree clean except for OUT/ (and the target/ build directory). In your final answer, summarise the two mutants in a few lines each.
"""
    open(f'{ROOT}/prompts/{pid}.txt','w').write(txt)
print('ok')
