#!/usr/bin/env python3
"""Builds the 'which checks catch which seeded changes' table of DESIGN.md (section 12.6) from seeded/*/meta.json."""
import json, re
from pathlib import Path
ROOT = Path(__file__).resolve().parents[1]

def main():
    rows = []
    for d in sorted((ROOT / "seeded").iterdir()):
        m = d / "meta.json"
        if not m.exists():
            continue
        x = json.load(open(m))
        own = x["breaks_property"]
        rj = d / "result.json"
        if rj.exists():
            # latest run of the registered quick checks against this change (lib/runseeded.py, scratch copies)
            res = json.load(open(rj))["checks"]
            ran = list(res)
            caught = [k for k, v in res.items() if v["rc"] == 1]
            sigs = "; ".join(f"{k}: {', '.join(v['sigs'][:3])}" for k, v in res.items() if v["rc"] == 1)
            broken = [k for k, v in res.items() if v["rc"] not in (0, 1)]
        else:
            r0 = x.get("checks_run_quick", "")
            caught = [r.split(":")[0] for r in re.findall(r"(C\d+:rc=\d)", r0) if r.endswith("rc=1")]
            ran = [r.split(":")[0] for r in re.findall(r"(C\d+:rc=\d)", r0)]
            sigs, broken = "", []
        verdict = ("caught by " + ", ".join(caught) + (f" ({sigs})" if sigs else "")) if caught else ("TOOL ERROR " + ",".join(broken) if broken else "MISSED")
        rows.append(f"| `{x['name']}` | {own} | {(x.get('summary') or '')[:150].replace('|','/')} | {(x.get('needs') or '')[:120].replace('|','/')} | {', '.join(ran)} | {verdict.replace('|','/')} |")
    table = "| seeded change | property | what | needs | checks run (quick) | result |\n|---|---|---|---|---|---|\n" + "\n".join(rows)
    p = ROOT / "DESIGN.md"
    s = p.read_text()
    a, b = "<!-- SEEDED-TABLE-BEGIN -->", "<!-- SEEDED-TABLE-END -->"
    if a in s:
        s = s[:s.index(a) + len(a)] + "\n" + table + "\n" + s[s.index(b):]
    else:
        s = s.replace("SEEDED_TABLE_PLACEHOLDER", a + "\n" + table + "\n" + b)
    p.write_text(s)
    print(len(rows), "seeded changes")

if __name__ == "__main__":
    main()
