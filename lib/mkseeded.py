#!/usr/bin/env python3
"""Builds the 'which checks catch which seeded changes' table of DESIGN.md (section 12.6) from seeded/*/meta.json."""
import json, re
from pathlib import Path
ROOT = Path(__file__).resolve().parents[1]

def main():
    rows = []
    for d in sorted((ROOT / "seeded").iterdir()):
        m = d / "meta.json"
        if not m.exists():
            continue
        x = json.load(open(m))
        res = x.get("checks_run_quick", "")
        caught = [r.split(":")[0] for r in re.findall(r"(C\d+:rc=\d)", res) if r.endswith("rc=1")]
        ran = [r.split(":")[0] for r in re.findall(r"(C\d+:rc=\d)", res)]
        own = x["breaks_property"]
        verdict = "caught by " + ", ".join(caught) if caught else "MISSED (see note)"
        rows.append(f"| `{x['name']}` | {own} | {(x.get('summary') or '')[:140].replace('|','/')} | {(x.get('needs') or '')[:110].replace('|','/')} | {', '.join(ran)} | {verdict} |")
    table = "| seeded change | property | what | needs | checks run (quick) | result |\n|---|---|---|---|---|---|\n" + "\n".join(rows)
    p = ROOT / "DESIGN.md"
    s = p.read_text()
    a, b = "<!-- SEEDED-TABLE-BEGIN -->", "<!-- SEEDED-TABLE-END -->"
    if a in s:
        s = s[:s.index(a) + len(a)] + "\n" + table + "\n" + s[s.index(b):]
    else:
        s = s.replace("SEEDED_TABLE_PLACEHOLDER", a + "\n" + table + "\n" + b)
    p.write_text(s)
    print(len(rows), "seeded changes")

if __name__ == "__main__":
    main()
