#!/usr/bin/env python3
"""lib/runseeded.py [-j N] [--tier quick] [--also] [names...]

Runs the registered checks against seeded changes WITHOUT touching /repo: for every seeded/<name>/patch.diff
a scratch git worktree of /repo (under $VERIF_SCRATCH, default /tmp/vseed) gets the patch, a scratch copy of /verif
(committed + working files, without work/) gets its harness pointed at that worktree, and `bin/check <ID>` runs there
with VERIF_REPO set. The result (exit status, VIOLATION signatures) is written to seeded/<name>/result.json.
Scratch directories are removed after every change.  Development tool: nothing registered in MANIFEST.json uses it.
"""
import argparse, json, os, re, shutil, subprocess, sys, time
from concurrent.futures import ThreadPoolExecutor
from pathlib import Path

import threading
ROOT = Path(__file__).resolve().parents[1]
GIT = threading.Lock()     # git worktree add / prune / remove are not safe to run concurrently
SCRATCH = Path(os.environ.get("VERIF_SCRATCH", "/tmp/vseed"))


KEEP = False


def sh(cmd, **kw):
    return subprocess.run(cmd, stdout=subprocess.PIPE, stderr=subprocess.STDOUT, text=True, **kw)


def one(name, tier, extra_ids, procs):
    sd = ROOT / "seeded" / name
    meta = json.load(open(sd / "meta.json"))
    ids = [meta["breaks_property"]] + [i for i in list(meta.get("also_checks", [])) + list(extra_ids) if i != meta["breaks_property"]]
    ids = list(dict.fromkeys(ids))
    base = SCRATCH / name
    if base.exists():
        shutil.rmtree(base, ignore_errors=True)
    base.mkdir(parents=True)
    repo = base / "repo"
    verif = base / "verif"
    out = {"name": name, "tier": tier, "checks": {}, "when": time.strftime("%Y-%m-%d %H:%M:%S")}
    try:
        with GIT:
            sh(["git", "-C", "/repo", "worktree", "prune"])
            p = sh(["git", "-C", "/repo", "worktree", "add", "--detach", str(repo), "HEAD"])
        if p.returncode != 0:
            out["error"] = "worktree: " + p.stdout[-500:]
            return out
        p = sh(["git", "-C", str(repo), "apply", str(sd / "patch.diff")])
        if p.returncode != 0:
            out["error"] = "apply: " + p.stdout[-500:]
            return out
        shutil.copytree(ROOT, verif, ignore=shutil.ignore_patterns("work", ".git", "seeded", "__pycache__", "similari.so"))
        ct = verif / "harness" / "Cargo.toml"
        ct.write_text(ct.read_text().replace('path = "/repo"', f'path = "{repo}"'))
        (verif / "work").mkdir()
        env = dict(os.environ, VERIF_REPO=str(repo), VERIF_PROCS=str(procs), CARGO_NET_OFFLINE="true")
        for pid in ids:
            t0 = time.time()
            p = sh([str(verif / "bin" / "check"), pid, "--tier", tier], env=env, cwd=str(verif), timeout=5400)
            sigs = sorted(set(re.findall(r"^# mismatch signature: (.*)$", p.stdout, re.M)))
            viol = re.findall(r"^VIOLATION.*$", p.stdout, re.M)
            out["checks"][pid] = {"rc": p.returncode, "secs": round(time.time() - t0), "violations": len(viol),
                                  "sigs": sigs[:12], "tail": p.stdout[-1500:] if p.returncode not in (0, 1) else ""}
    except subprocess.TimeoutExpired:
        out["error"] = "timeout"
    finally:
        if not KEEP:
            with GIT:
                sh(["git", "-C", "/repo", "worktree", "remove", "--force", str(repo)])
                shutil.rmtree(base, ignore_errors=True)
                sh(["git", "-C", "/repo", "worktree", "prune"])
    json.dump(out, open(sd / "result.json", "w"), indent=1)
    return out


def main():
    ap = argparse.ArgumentParser()
    ap.add_argument("-j", type=int, default=3)
    ap.add_argument("--tier", default="quick")
    ap.add_argument("--ids", default="", help="extra check ids to run on every change, comma separated")
    ap.add_argument("--keep", action="store_true", help="leave the scratch copy in place (diagnosis; remove it by hand)")
    ap.add_argument("names", nargs="*")
    a = ap.parse_args()
    global KEEP
    KEEP = a.keep
    names = a.names or sorted(d.name for d in (ROOT / "seeded").iterdir() if (d / "patch.diff").exists())
    extra = [x for x in a.ids.split(",") if x]
    procs = max(3, 14 // a.j)
    SCRATCH.mkdir(parents=True, exist_ok=True)
    with ThreadPoolExecutor(a.j) as ex:
        for r in ex.map(lambda n: one(n, a.tier, extra, procs), names):
            line = " ".join(f"{k}:rc={v['rc']}({v['secs']}s)[{','.join(v['sigs'][:4])}]" for k, v in r["checks"].items())
            print(r["name"], line, r.get("error", ""), flush=True)


if __name__ == "__main__":
    main()
