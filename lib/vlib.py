"""Shared machinery of /verif/bin/check: build, TLC, harness runs, evidence, verdicts.

Exit codes: 0 = property held on everything explored (known findings are printed);
1 = violation (always together with a `VIOLATION property=<id> replay=<path>` line);
2 = tool error / timeout of the tooling itself.
"""
import fcntl, json, os, re, subprocess, sys, time, hashlib, shutil
from pathlib import Path

VERIF = Path(__file__).resolve().parents[1]
REPO = Path(os.environ.get("VERIF_REPO", "/repo"))
WORK = VERIF / "work"
SPEC = VERIF / "spec"
EVID = VERIF / "evidence"
HARNESS = VERIF / "harness"
TARGET = WORK / "target"
VH = TARGET / "debug" / "vh"
NPROC = int(os.environ.get("VERIF_PROCS", "12"))
# exit statuses of a Rust process that panicked (101) or aborted (SIGABRT: 134 from a shell, -6 from subprocess)
CRASH_CODES = (101, 134, -6)


def log(*a):
    print("[check]", *a, file=sys.stderr, flush=True)


def tool_error(msg):
    print(f"TOOL-ERROR: {msg}", flush=True)
    sys.exit(2)


def sh(cmd, cwd=None, timeout=None, env=None, check=False, stdout=subprocess.PIPE, stderr=subprocess.STDOUT):
    e = dict(os.environ)
    if env:
        e.update(env)
    p = subprocess.run(cmd, cwd=cwd, timeout=timeout, env=e, stdout=stdout, stderr=stderr, text=True)
    if check and p.returncode != 0:
        tool_error(f"{' '.join(map(str, cmd))} failed ({p.returncode}):\n{(p.stdout or '')[-3000:]}")
    return p


def build_harness():
    """cargo build of the harness; the path dependency picks up /repo's current tree, hooks on."""
    WORK.mkdir(exist_ok=True)
    lock = open(WORK / ".build.lock", "w")
    fcntl.flock(lock, fcntl.LOCK_EX)
    try:
        t0 = time.time()
        p = sh(["cargo", "build", "--offline", "--quiet", "--message-format", "short"], cwd=HARNESS, timeout=1800,
               env={"CARGO_NET_OFFLINE": "true", "CARGO_TERM_COLOR": "never"})
        if p.returncode != 0:
            tool_error("harness build failed:\n" + (p.stdout or "")[-4000:])
        log(f"harness built in {time.time()-t0:.1f}s")
    finally:
        fcntl.flock(lock, fcntl.LOCK_UN)
    return VH


class TlcResult:
    def __init__(self):
        self.out = None
        self.rc = None
        self.generated = 0
        self.distinct = 0
        self.depth = 0
        self.violated = []
        self.errors = []
        self.timed_out = False
        self.wall = 0.0
        self.coverage = {}
        self.postcondition_failed = False

    def ok(self):
        return self.rc == 0 and not self.violated and not self.errors and not self.timed_out


def tlc(module, cfg, name, workdir, workers=8, timeout=900, simulate=None, seed=None, env=None,
        coverage=False, deque=False, xmx="6g", extra=None):
    """Runs TLC on SPEC/<module> with SPEC/<cfg>; stdout goes to <workdir>/<name>.out."""
    workdir = Path(workdir)
    workdir.mkdir(parents=True, exist_ok=True)
    meta = workdir / f"meta-{name}"
    shutil.rmtree(meta, ignore_errors=True)
    module = Path(module)
    out = workdir / f"{name}.out"
    jtmp = workdir / f"jtmp-{name}"          # TLC unpacks its standard modules into java.io.tmpdir: keep that out of /tmp
    shutil.rmtree(jtmp, ignore_errors=True)
    jtmp.mkdir(parents=True, exist_ok=True)
    jopts = f"-Xss1g -Xmx{xmx} -Djava.io.tmpdir={jtmp.resolve()}"
    if deque:
        jopts += " -Dtlc2.tool.queue.IStateQueue=StateDeque"
    cmd = ["timeout", str(timeout), "tlc", "-workers", str(workers), "-metadir", str(meta), "-cleanup",
           "-noGenerateSpecTE", "-config", str(cfg)]
    if simulate:
        cmd += ["-simulate", f"num={simulate['num']}", "-depth", str(simulate["depth"])]
    if seed is not None:
        cmd += ["-seed", str(seed)]
    if coverage:
        cmd += ["-coverage", "1"]
    if extra:
        cmd += extra
    cmd += [module.name]
    e = dict(os.environ)
    e["JAVA_TOOL_OPTIONS"] = jopts
    if env:
        e.update({k: str(v) for k, v in env.items()})
    t0 = time.time()
    with open(out, "w") as f:
        p = subprocess.run(cmd, cwd=module.parent, env=e, stdout=f, stderr=subprocess.STDOUT, text=True)
    shutil.rmtree(jtmp, ignore_errors=True)
    r = TlcResult()
    r.out, r.rc, r.wall = out, p.returncode, time.time() - t0
    r.timed_out = p.returncode == 124
    with open(out, errors="replace") as f:
        for line in f:
            if line.startswith("<<\"REPLAY\""):
                continue
            m = re.search(r"(\d+) states generated, (\d+) distinct states found", line)
            if m:
                r.generated, r.distinct = int(m.group(1)), int(m.group(2))
            m = re.search(r"The number of states generated: (\d+)", line)
            if m and r.generated == 0:
                r.generated = int(m.group(1))
                r.distinct = max(r.distinct, 1)
            m = re.search(r"depth of the complete state graph search is (\d+)", line)
            if m:
                r.depth = int(m.group(1))
            m = re.search(r"Invariant (\S+) is violated", line)
            if m:
                r.violated.append(m.group(1))
            if "Action property" in line and "violated" in line:
                r.violated.append("action-property")
            if "Temporal properties were violated" in line:
                r.violated.append("temporal")
            if "Deadlock reached" in line:
                r.violated.append("deadlock")
            if "The postcondition" in line or "Postcondition" in line and "violated" in line.lower():
                r.postcondition_failed = True
            if line.startswith("Error:") and "Invariant" not in line and "Deadlock" not in line \
                    and "ostcondition" not in line and "Temporal properties" not in line and "Action property" not in line \
                    and "behavior up to this point" not in line and "counter-example" not in line:
                r.errors.append(line.strip())
            m = re.match(r"^<(\w+) line \d+, col \d+ to line \d+, col \d+ of module (\w+)>: (\d+):(\d+)", line)
            if m:
                r.coverage[f"{m.group(2)}!{m.group(1)}"] = int(m.group(4))
    return r


def tlc_must_pass(r, what):
    if not r.ok():
        tail = sh(["tail", "-40", str(r.out)]).stdout
        tool_error(f"TLC run '{what}' failed (rc={r.rc}, violated={r.violated}, errors={r.errors[:3]}, timeout={r.timed_out})\n{tail}")


def count_replay_lines(path):
    n = 0
    with open(path, errors="replace") as f:
        for line in f:
            if line.startswith("<<\"REPLAY\""):
                n += 1
    return n


def parse_replay_line(line):
    line = line.rstrip("\n")
    assert line.startswith("<<\"REPLAY\", ") and line.endswith(">>"), line[:80]
    return json.loads(json.loads(line[len("<<\"REPLAY\", "):-2]))


def run_vh(args, files, procs=None, timeout=3600, env=None, stride=1):
    """Runs `vh <args> --slice i/n <files>` in n processes and merges the reports.
    stride = k > 1 replays only every k-th case (sub-sampling of a TLC enumeration)."""
    procs = procs or NPROC
    ps = []
    e = dict(os.environ)
    if env:
        e.update({k: str(v) for k, v in env.items()})
    for i in range(procs):
        cmd = [str(VH)] + list(args) + ["--slice", f"{i}/{procs * stride}"] + [str(f) for f in files]
        ps.append(subprocess.Popen(cmd, stdout=subprocess.PIPE, stderr=subprocess.PIPE, text=True, env=e))
    reports = []
    for p in ps:
        try:
            o, err = p.communicate(timeout=timeout)
        except subprocess.TimeoutExpired:
            for q in ps:
                q.kill()
            tool_error(f"vh {' '.join(args)} timed out after {timeout}s")
        if p.returncode in CRASH_CODES:
            # the code under test brought the harness process down (panic outside any catchable region, double panic
            # in a destructor, abort): that is an observation about the code, not a tool error
            reports.append({"cases": 0, "steps": 0, "nontrivial": 0, "mismatches": 1, "counters": {"harness_process_crashed": 1},
                            "samples": [], "by_sig": {f"{args[1]}:crash": {"count": 1, "examples": [
                                {"index": -1, "case": {"vh": list(args), "slice": f"{len(reports)}/{procs * stride}", "files": [str(f) for f in files]},
                                 "detail": {"exit": p.returncode, "stderr": err[-1500:]}}]}}})
            continue
        if p.returncode != 0:
            tool_error(f"vh {' '.join(args)} exited {p.returncode}: {err[-2000:]}")
        last = [l for l in o.splitlines() if l.startswith("{")]
        if not last:
            tool_error(f"vh {' '.join(args)} printed no report: {o[-500:]} {err[-500:]}")
        reports.append(json.loads(last[-1]))
    return merge_reports(reports)


def merge_reports(reports):
    m = {"cases": 0, "steps": 0, "nontrivial": 0, "mismatches": 0, "counters": {}, "samples": [], "by_sig": {}}
    for r in reports:
        for k in ("cases", "steps", "nontrivial", "mismatches"):
            m[k] += r.get(k, 0)
        for k, v in r.get("counters", {}).items():
            m["counters"][k] = m["counters"].get(k, 0) + v
        if len(m["samples"]) < 2:
            m["samples"] += r.get("samples", [])[: 2 - len(m["samples"])]
        for s, v in r.get("by_sig", {}).items():
            e = m["by_sig"].setdefault(s, {"count": 0, "examples": []})
            e["count"] += v["count"]
            e["examples"] += v["examples"]
            e["examples"] = sorted(e["examples"], key=lambda x: x.get("index", 0))[:3]
    return m


def load_known():
    p = VERIF / "known_findings.json"
    if not p.exists():
        return []
    return json.load(open(p)).get("findings", [])


def _subset(pat, val):
    """pat matches val: dict = every key matches; list = equal; scalar = equal."""
    if isinstance(pat, dict):
        return isinstance(val, dict) and all(k in val and _subset(v, val[k]) for k, v in pat.items())
    return pat == val


class Check:
    def __init__(self, pid, level):
        self.pid = pid
        self.level = level
        self.tier = os.environ.get("VERIF_TIER", "quick")
        self.seed = int(os.environ.get("VERIF_SEED", "1") or 1)
        self.t0 = time.time()
        self.workdir = WORK / pid
        self.workdir.mkdir(parents=True, exist_ok=True)
        self.replays = WORK / "replays"
        self.replays.mkdir(parents=True, exist_ok=True)
        self.violations = []     # (sig, replay path)
        self.known_hits = []     # (finding, sig)
        self.cov = {"states": 0, "transitions": 0, "traces_validated_against_impl": 0, "evaluations": 0,
                    "distinct_nontrivial": 0, "samples": [], "tlc_runs": [], "replays": [], "witnesses": {}}
        self.assumptions = []
        self.known = [k for k in load_known() if k.get("property") == pid and k.get("status") == "known"]

    # ---- accounting
    def add_tlc(self, name, r):
        self.cov["states"] += r.distinct
        self.cov["transitions"] += r.generated
        self.cov["tlc_runs"].append({"name": name, "generated": r.generated, "distinct": r.distinct,
                                     "depth": r.depth, "wall_s": round(r.wall, 1)})

    def add_report(self, name, rep, traces=False):
        self.cov["evaluations"] += rep["cases"]
        self.cov["distinct_nontrivial"] += rep["nontrivial"]
        if traces:
            self.cov["traces_validated_against_impl"] += rep["cases"]
        else:
            self.cov["traces_validated_against_impl"] += rep["cases"]
        if len(self.cov["samples"]) < 3:
            self.cov["samples"] += rep["samples"][:1]
        self.cov["replays"].append({"name": name, "cases": rep["cases"], "steps": rep["steps"],
                                    "nontrivial": rep["nontrivial"], "mismatches": rep["mismatches"],
                                    "counters": rep["counters"]})

    def witness(self, name, reached):
        self.cov["witnesses"][name] = bool(reached)

    # ---- verdicts
    def classify(self, engine, vh_args, rep):
        """Every mismatch signature is either a listed known finding or a violation."""
        for sig, v in sorted(rep["by_sig"].items()):
            for ex in v["examples"][:1]:
                self.report_mismatch(engine, vh_args, sig, ex, v["count"])

    def report_mismatch(self, engine, vh_args, sig, ex, count=1):
        for k in self.known:
            m = k.get("match", {})
            if "sig" in m and not re.search(m["sig"], sig):
                continue
            if "case" in m and not _subset(m["case"], ex.get("case")):
                continue
            if "key" in m and m["key"] != ex.get("detail", {}).get("key"):
                continue
            self.known_hits.append((k, sig))
            return
        h = hashlib.sha1((sig + json.dumps(ex.get("case"), sort_keys=True)).encode()).hexdigest()[:10]
        path = self.replays / f"{self.pid}-{h}.json"
        json.dump({"property": self.pid, "engine": engine, "vh": vh_args, "sig": sig, "count": count,
                   "case": ex.get("case"), "detail": ex.get("detail"), "seed": self.seed},
                  open(path, "w"), indent=1)
        self.violations.append((sig, str(path)))

    def violation(self, sig, payload):
        h = hashlib.sha1((sig + json.dumps(payload, sort_keys=True, default=str)).encode()).hexdigest()[:10]
        path = self.replays / f"{self.pid}-{h}.json"
        json.dump({"property": self.pid, "sig": sig, "seed": self.seed, **payload}, open(path, "w"), indent=1, default=str)
        self.violations.append((sig, str(path)))

    def finish(self, rule, extra=None, exhaustive=None):
        cov = self.cov
        cov["rule"] = rule
        if exhaustive is not None:
            cov["exhaustive"] = exhaustive
        if extra:
            cov.update(extra)
        if not cov["samples"]:
            cov["samples"] = ["(no case produced)"]
        if self.level != "model_checking":
            for k in ("states", "transitions"):
                if cov.get(k, 0) == 0:
                    cov.pop(k, None)
        cov["known_findings_seen"] = sorted({f"{k.get('id','?')}: {k.get('what','')}" for k, _ in self.known_hits})
        ev = {"property_id": self.pid, "tier": self.tier, "seed": self.seed, "level": self.level,
              "coverage": cov, "assumptions": self.assumptions, "wall_s": round(time.time() - self.t0, 1),
              "violations": len(self.violations)}
        EVID.mkdir(exist_ok=True)
        json.dump(ev, open(EVID / f"{self.pid}.json", "w"), indent=1, default=str)
        seen = set()
        for k, sig in self.known_hits:
            key = k.get("id", "") + k.get("what", "")
            if key in seen:
                continue
            seen.add(key)
            print(f"KNOWN-FINDING: property={self.pid} {k.get('id','')} {k.get('what','')}", flush=True)
        if self.violations:
            for sig, path in self.violations[:20]:
                print(f"# mismatch signature: {sig}", flush=True)
                print(f"VIOLATION property={self.pid} replay={path}", flush=True)
            sys.exit(1)
        print(f"OK property={self.pid} tier={self.tier} evaluations={cov.get('evaluations',0)} "
              f"states={cov.get('states',0)} wall={ev['wall_s']}s", flush=True)
        sys.exit(0)


def tla_value(v):
    if isinstance(v, bool):
        return "TRUE" if v else "FALSE"
    if isinstance(v, int):
        return str(v)
    if isinstance(v, str):
        return v if v.startswith(("{", "<<", "[")) else json.dumps(v)
    if isinstance(v, (set, frozenset)):
        return "{" + ", ".join(tla_value(x) for x in sorted(v)) + "}"
    if isinstance(v, (list, tuple)):
        return "<<" + ", ".join(tla_value(x) for x in v) + ">>"
    raise ValueError(v)


def write_cfg(path, constants, spec="Spec", invariants=(), constraints=(), properties=(), postcondition=None,
              view=None, deadlock=False, init_next=None):
    lines = ["CONSTANTS"] + [f" {k} = {tla_value(v)}" for k, v in constants.items()]
    if init_next:
        lines += [f"INIT {init_next[0]}", f"NEXT {init_next[1]}"]
    else:
        lines.append(f"SPECIFICATION {spec}")
    for i in invariants:
        lines.append(f"INVARIANT {i}")
    for c in constraints:
        lines.append(f"CONSTRAINT {c}")
    for p in properties:
        lines.append(f"PROPERTY {p}")
    if postcondition:
        lines.append(f"POSTCONDITION {postcondition}")
    if view:
        lines.append(f"VIEW {view}")
    lines.append(f"CHECK_DEADLOCK {'TRUE' if deadlock else 'FALSE'}")
    Path(path).parent.mkdir(parents=True, exist_ok=True)
    Path(path).write_text("\n".join(lines) + "\n")
    return path


def expect_violation(r, what):
    """Reachability witness: TLC must violate the (negated) invariant."""
    if r.timed_out or r.errors:
        tool_error(f"witness run '{what}' failed: rc={r.rc} errors={r.errors[:2]}")
    return bool(r.violated)


def replay_single(engine_args, case, workdir):
    """Re-runs one stored case through vh; returns the merged report."""
    workdir = Path(workdir)
    workdir.mkdir(parents=True, exist_ok=True)
    f = workdir / "replay-case.ndjson"
    f.write_text(json.dumps(case) + "\n")
    return run_vh(engine_args, [f], procs=1)


def validate_trace(module, cfg, trace, name, workdir, env=None, timeout=300, deque=True):
    """impl -> spec: TLC decides whether a recorded trace is a behaviour of the trace specification.
    Returns (accepted, TlcResult, rejection text)."""
    e = {"TRACE": str(trace)}
    if env:
        e.update(env)
    r = tlc(module, cfg, name, workdir, workers=1, timeout=timeout, env=e, deque=deque, xmx="3g")
    if r.timed_out or r.errors and not r.violated and not r.postcondition_failed:
        tool_error(f"trace validation '{name}' failed to run: rc={r.rc} errors={r.errors[:3]}")
    rejected = ""
    with open(r.out, errors="replace") as f:
        for line in f:
            if "REJECTED" in line:
                rejected = line.strip()[:2000]
                break
    accepted = r.rc == 0 and not r.violated and not r.postcondition_failed and not rejected
    return accepted, r, rejected



def run_recorder(chk, cmd, what, timeout=1200):
    """Runs a `vh record ...` command.  A crash of the process (panic / abort caused by the code under test) becomes a
    violation; any other failure is a tool error.  Returns True when the recording exists."""
    p = sh([str(c) for c in cmd], timeout=timeout)
    if p.returncode == 0:
        return True
    if p.returncode in CRASH_CODES:
        chk.violation(f"{what}:crash", {"engine": "recorder", "cmd": [str(c) for c in cmd], "exit": p.returncode,
                                       "output": (p.stdout or "")[-1500:]})
        return False
    tool_error(f"{' '.join(map(str, cmd))} failed ({p.returncode}): " + (p.stdout or "")[-1500:])
