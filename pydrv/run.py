#!/usr/bin/env python3
"""pydrv/run.py - executes TLC-generated API scripts through the Python extension module `similari`
(property C18).  Standard library only.

    run.py --module-dir DIR --area tracker|cons|nms|geom|kalman|opts [--opt v]... [--slice i/n] FILE...

Input: TLC output files (lines `<<"REPLAY", "<escaped json>">>`) or ndjson.  Output: one line per executed case
`{"i": <case index>, "o": <observed values>}`; `harness/src/pydump.rs` (`vh dump <area>`) prints the same
projection of the same scripts through the Rust API.  No expected value is looked at here except the track ids
of the specification, which name the tracks (ids are compared modulo renaming for the batch trackers); the
comparison is done by checks/c18.py.

Numeric convention (identical in pydump.rs): every input number is computed in f64 from the integers of the
case and handed to the API, which rounds it to f32; every observed f32 is printed as the f64 of the same value.
"""
import json
import math
import sys


# ------------------------------------------------------------------------------------------------ plumbing
def parse_args(argv):
    kv, files = {}, []
    i = 0
    while i < len(argv):
        a = argv[i]
        if a.startswith("--"):
            k = a[2:]
            if "=" in k:
                k, v = k.split("=", 1)
                kv[k] = v
            elif i + 1 < len(argv):
                kv[k] = argv[i + 1]
                i += 1
            else:
                kv[k] = "1"
        else:
            files.append(a)
        i += 1
    return kv, files


def parse_line(line):
    line = line.rstrip("\n")
    if line.startswith('<<"REPLAY", '):
        return json.loads(json.loads(line[len('<<"REPLAY", '):-2]))
    return json.loads(line)


def cases(files, sl, limit):
    si, sn = sl
    k = 0
    for f in files:
        with open(f, errors="replace") as fh:
            for line in fh:
                if not (line.startswith('<<"REPLAY"') or line.startswith("{") or line.startswith("[")):
                    continue
                idx = k
                k += 1
                if idx % sn != si:
                    continue
                if idx >= limit:
                    return
                yield idx, parse_line(line)


def num(x):
    """an observed number -> JSON value (non-finite values as strings)"""
    if x is None:
        return None
    if isinstance(x, bool):
        return x
    if isinstance(x, int):
        return x
    if math.isnan(x):
        return "nan"
    if math.isinf(x):
        return "inf" if x > 0 else "-inf"
    return x


def box6(b):
    return [num(b.xc), num(b.yc), num(b.angle), num(b.aspect), num(b.height), num(b.confidence)]


def ltwh5(b):
    return [num(b.left), num(b.top), num(b.width), num(b.height), num(b.confidence)]


def points(poly):
    return [[num(x), num(y)] for (x, y) in poly.get_points()]


# ------------------------------------------------------------------------------------------------ slot world
SLOTS = {1: (100.0, 100.0, None, 0.5, 80.0), 2: (600.0, 400.0, 0.7, 1.5, 40.0),
         3: (1200.0, 900.0, None, 1.0, 50.0), 4: (300.0, 1500.0, 2.0, 0.8, 60.0)}
FEATS = {0: None, 1: [0.0, 0.0], 2: [3.0, 0.0], 3: [0.0, 4.0]}


class Tracker:
    """One of the four trackers behind one calling convention; `alt` alternates between equivalent spellings
    of the same call (positional / keyword arguments, scene-less / scene-taking methods for scene 0)."""

    def __init__(self, S, kv, idx):
        self.S = S
        self.kind = kv.get("kind", "sort")
        self.batch = self.kind.startswith("batch")
        self.visual = self.kind in ("visual", "batchvisual")
        self.literal = not self.batch
        self.alt = idx
        shards = int(kv.get("shards", "2"))
        voters = int(kv.get("voters", "2"))
        history = int(kv.get("history", "2"))
        max_idle = int(kv.get("max-idle", "1"))
        min_conf = float(kv.get("min-conf", "0.05"))
        defaults = kv.get("defaults", "0") == "1"

        def metric():
            if kv.get("metric", "iou") == "iou":
                return S.PositionalMetricType.iou(float(kv.get("thr", "0.3")))
            return S.PositionalMetricType.maha()

        def constraints():
            # a table no stationary object can violate: results must not change (odd cases only)
            if kv.get("loose-constraints", "0") == "1" and idx % 2 == 1:
                c = S.SpatioTemporalConstraints()
                c.add_constraints([(1, 1000.0), (3, 1000.0)])
                return c
            return None

        if not self.visual:
            cls = S.BatchSort if self.batch else S.Sort
            names = (["distance_shards", "voting_shards"] if self.batch else ["shards"]) + \
                    ["bbox_history", "max_idle_epochs", "method", "min_confidence", "spatio_temporal_constraints",
                     "kalman_position_weight", "kalman_velocity_weight"]
            vals = ([shards, voters] if self.batch else [shards]) + \
                   [history, max_idle, metric(), min_conf, constraints(), 1.0 / 20.0, 1.0 / 160.0]
            if defaults:
                # the values on the command line ARE the documented defaults: pass only the arguments selected by
                # the bits of the case index (by keyword), leave the others to the binding's defaults
                mask = idx % (1 << len(names))
                kw = {n: v for b, (n, v) in enumerate(zip(names, vals)) if (mask >> b) & 1}
                self.t = cls(**kw)
            elif idx % 2 == 0:
                self.t = cls(*vals)
            else:
                self.t = cls(**dict(zip(names, vals)))
        else:
            o = S.VisualSortOptions()
            if not defaults:
                o.max_idle_epochs(max_idle)
                o.kept_history_length(history)
                o.visual_metric(S.VisualSortMetricType.euclidean(float(kv.get("vis-thr", "3.5"))))
                o.positional_metric(metric())
                o.positional_min_confidence(min_conf)
                o.visual_minimal_track_length(int(kv.get("min-track-len", "1")))
                o.visual_minimal_area(0.0)
                o.visual_minimal_quality_use(float(kv.get("q-use", "0.5")))
                o.visual_minimal_quality_collect(float(kv.get("q-collect", "0.6")))
                o.visual_max_observations(int(kv.get("max-obs", "2")))
                o.visual_min_votes(int(kv.get("min-votes", "1")))
                o.kalman_position_weight(1.0 / 20.0)
                o.kalman_velocity_weight(1.0 / 160.0)
                c = constraints()
                if c is not None:
                    o.spatio_temporal_constraints(c)
            if self.batch:
                self.t = S.BatchVisualSort(shards, voters, o) if idx % 2 == 0 else \
                    S.BatchVisualSort(distance_shards=shards, voting_shards=voters, opts=o)
            else:
                self.t = S.VisualSort(shards, o) if idx % 2 == 0 else S.VisualSort(shards=shards, opts=o)

    # --- detections
    def box(self, d):
        xc, yc, a, asp, h = SLOTS[d["slot"]]
        return self.S.Universal2DBox.new_with_confidence(xc, yc, a, asp, h, d["conf"] / 1000.0)

    def cid(self, d):
        return None if d["cid"] == 0 else d["cid"]

    def vobs(self, d, box=None):
        q = d.get("q")
        return self.S.VisualSortObservation(FEATS[d.get("f", 0)], None if q is None else q / 100.0,
                                            box if box is not None else self.box(d), self.cid(d))

    # --- calls
    def predict(self, scene, dets, boxes=None):
        """-> list of SortTrack (simple trackers) or [(scene, tracks)] with extras (batch trackers)"""
        self.alt += 1
        bx = boxes if boxes is not None else [self.box(d) for d in dets]
        if self.batch:
            return self.predict_batch([(scene, dets, bx)])
        if self.visual:
            s = self.S.VisualSortObservationSet()
            for d, b in zip(dets, bx):
                s.add(self.vobs(d, b))
            if scene == 0 and self.alt % 2 == 0:
                return self.t.predict(s)
            return self.t.predict_with_scene(scene, s)
        arg = [(b, self.cid(d)) for d, b in zip(dets, bx)]
        if scene == 0 and self.alt % 2 == 0:
            return self.t.predict(arg)
        return self.t.predict_with_scene(scene, arg)

    def predict_batch(self, entries):
        """entries = [(scene, dets, boxes)] -> {"bs", "pre_bs", "scenes": [(scene, tracks)], "ready_after"}"""
        S = self.S
        extra = {}
        if self.visual:
            req = S.VisualSortPredictionBatchRequest()
            for scene, dets, bx in entries:
                for d, b in zip(dets, bx):
                    req.add(scene, self.vobs(d, b))
            # the result object the request hands out itself: sized by the request, never fed by the binding
            pre = req.prediction()
            extra["req_prediction_bs"] = pre.batch_size()
            extra["req_prediction_ready"] = pre.ready()
            extra["req_prediction_twice_none"] = req.prediction() is None
        else:
            req = S.SortPredictionBatchRequest()
            k = 0
            for scene, dets, bx in entries:
                for d, b in zip(dets, bx):
                    c = self.cid(d)
                    k += 1
                    if c is None and k % 2 == 0:
                        req.add(scene, b)            # custom_object_id left to its default
                    elif k % 3 == 0:
                        req.add(scene_id=scene, bbox=b, custom_object_id=c)
                    else:
                        req.add(scene, b, c)
        res = self.t.predict(req)
        bs = res.batch_size()
        got = []
        for _ in range(bs):
            got.append(res.get())
        extra.update({"bs": bs, "ready_after": res.ready(), "scenes": sorted(got, key=lambda x: x[0])})
        return extra

    def skip(self, scene, n):
        self.alt += 1
        if scene == 0 and self.alt % 2 == 0:
            self.t.skip_epochs(n)
        else:
            self.t.skip_epochs_for_scene(scene, n)

    def idle(self, scene):
        self.alt += 1
        if self.batch:
            return self.t.idle_tracks(scene)
        if scene == 0 and self.alt % 2 == 0:
            return self.t.idle_tracks()
        if self.visual:
            return self.t.idle_tracks_with_scene_py(scene)
        return self.t.idle_tracks_with_scene(scene)

    def epoch(self, scene):
        self.alt += 1
        if scene == 0 and self.alt % 2 == 0:
            return self.t.current_epoch()
        return self.t.current_epoch_with_scene(scene)


def replay_tracker(S, kv, idx, beh):
    ops = [s["o"]["op"] for s in beh]
    batch_kind = kv.get("kind", "sort").startswith("batch")
    if "setaw" in ops:
        return {"skip": "set_auto_waste is not exposed to Python"}
    for s in beh:
        o = s["o"]
        if batch_kind and ((o["op"] == "predict" and not o["dets"]) or
                           (o["op"] == "batch" and any(not e["dets"] for e in o["b"]))):
            return {"skip": "a batch cannot express a scene without detections"}
        if not batch_kind and o["op"] == "batch":
            return {"skip": "batch call on a simple tracker"}
    T = Tracker(S, kv, idx)
    to_spec, to_real = {}, {}

    def bind(real, spec):
        if real not in to_spec and spec not in to_real:
            to_spec[real] = spec
            to_real[spec] = real

    def name(real):
        return to_spec.get(real, -1 - real)

    def rec(t):
        r = {"id": name(t.id), "scene": t.scene_id, "ep": t.epoch, "len": t.length, "cid": t.custom_object_id,
             "vt": "vis" if "Visual" in repr(t.voting_type) else "pos",
             "obs": box6(t.observed_bbox), "pred": box6(t.predicted_bbox)}
        if T.literal:
            r["rid"] = t.id
        return r

    def recs(tracks, spec):
        spec = spec if isinstance(spec, list) else []
        if len(spec) == len(tracks):
            for t, s in zip(tracks, spec):
                bind(t.id, s["id"])
        return [rec(t) for t in tracks]

    def wasted_view(w):
        r = {"id": name(w.id), "scene": w.scene_id, "ep": w.epoch, "len": w.length,
             "obs": box6(w.observed_bbox), "pred": box6(w.predicted_bbox),
             "obs_boxes": [box6(b) for b in w.observed_boxes], "pred_boxes": [box6(b) for b in w.predicted_boxes]}
        if T.visual:
            r["feats"] = [None if f is None else [num(x) for x in f] for f in w.observed_features]
        if T.literal:
            r["rid"] = w.id
        return r

    def batch_out(res, spec_by_scene):
        out = {k: v for k, v in res.items() if k != "scenes"}
        out["scenes"] = [{"scene": sc, "recs": recs(tr, spec_by_scene.get(sc))} for sc, tr in res["scenes"]]
        return out

    steps = []
    for s in beh:
        o, ret = s["o"], s.get("ret")
        op = o["op"]
        out = {"op": op}
        if op == "predict":
            r = T.predict(o["scene"], o["dets"])
            if T.batch:
                out.update(batch_out(r, {o["scene"]: ret}))
            else:
                out["recs"] = recs(r, ret)
        elif op == "batch":
            r = T.predict_batch([(e["scene"], e["dets"], [T.box(d) for d in e["dets"]]) for e in o["b"]])
            out.update(batch_out(r, {e["scene"]: e["recs"] for e in (ret or [])}))
        elif op == "skip":
            T.skip(o["scene"], o["n"])
        elif op == "idle":
            out["idle"] = sorted((rec(t) for t in T.idle(o["scene"])), key=lambda r: r["id"])
        elif op == "epoch":
            out["epoch"] = T.epoch(o["scene"])
        elif op == "clear":
            T.t.clear_wasted()
        elif op == "stats":
            st = T.t.shard_stats()
            out["shards"] = list(st) if T.literal else None
            out["active"] = sum(st)
            out["nshards"] = len(st)
        elif op == "wasted":
            out["wasted"] = sorted((wasted_view(w) for w in T.t.wasted()), key=lambda r: r["id"])
        else:
            raise ValueError("op " + op)
        out["epochs"] = [[e[0], T.t.current_epoch_with_scene(e[0])] for e in s.get("proj", {}).get("epochs", [])]
        steps.append(out)
    res = {"steps": steps}
    # epilogue of every script: what the tracker holds after the last call (live tracks, then everything wasted() hands out)
    fin = {"active": sum(T.t.shard_stats())}
    fin["wasted"] = sorted([w.scene_id, w.epoch, w.length] for w in T.t.wasted())
    fin["active_after"] = sum(T.t.shard_stats())
    res["final"] = fin
    if kv.get("probe", "0") == "1":
        res["probe"] = probe(T)
    return res


# moving boxes in a scene no generated script uses: (xc, yc, confidence milli, custom id) per call.  Sensitive to
# the positional metric (the third call moves A so that IoU with its track is 0.25), to the Kalman weights
# (predicted boxes) and to min_confidence (fourth call: a close low-confidence and a farther candidate).
PROBE_SCENE = 9
PROBE = [
    [(100.0, 100.0, 0.5, 80.0, 900, 5), (600.0, 400.0, 1.5, 40.0, 20, 0)],
    [(112.0, 105.0, 0.5, 80.0, 900, 5), (602.0, 401.0, 1.5, 40.0, 20, 0)],
    [(136.0, 105.0, 0.5, 80.0, 900, 5), (603.0, 402.0, 1.5, 40.0, 20, 0)],
    [(137.0, 106.0, 0.5, 80.0, 900, 5), (604.0, 402.0, 1.5, 40.0, 200, 0), (609.0, 404.0, 1.5, 40.0, 60, 0)],
]


def probe(T):
    S = T.S
    names = {}
    out = []

    def prec(t):
        return {"id": names.setdefault(t.id, len(names)), "scene": t.scene_id, "ep": t.epoch, "len": t.length,
                "cid": t.custom_object_id, "obs": box6(t.observed_bbox), "pred": box6(t.predicted_bbox)}

    for call in PROBE:
        dets = [{"conf": c, "cid": cid, "f": 0} for (_, _, _, _, c, cid) in call]   # no appearance: positional only
        boxes = [S.Universal2DBox.new_with_confidence(x, y, None, a, h, c / 1000.0) for (x, y, a, h, c, _) in call]
        r = T.predict(PROBE_SCENE, dets, boxes)
        tracks = r["scenes"][0][1] if T.batch else r
        out.append([prec(t) for t in tracks])
    T.skip(PROBE_SCENE, 1)
    out.append(sorted((prec(t) for t in T.idle(PROBE_SCENE)), key=lambda r: r["id"]))
    # let the probe's tracks expire and read them back as wasted tracks: the histories of a MOVING object
    # (observed and predicted boxes differ there)
    T.skip(PROBE_SCENE, 40)
    ws = []
    for w in T.t.wasted():
        if w.scene_id != PROBE_SCENE:
            continue
        ws.append({"scene": w.scene_id, "ep": w.epoch, "len": w.length, "obs": box6(w.observed_bbox), "pred": box6(w.predicted_bbox),
                   "obs_boxes": [box6(b) for b in w.observed_boxes], "pred_boxes": [box6(b) for b in w.predicted_boxes]})
    out.append(sorted(ws, key=lambda r: (r["obs"][0], r["obs"][1], r["len"])))
    return out


# ------------------------------------------------------------------------------------------------ constraints
def replay_cons(S, kv, idx, c):
    t = S.SpatioTemporalConstraints()
    for call in c["calls"]:
        t.add_constraints([(p[0], p[1] / 2.0) for p in call])
    adm = []
    for g in range(len(c["adm"])):
        adm.append([1 if t.validate(g, d / 2.0) else 0 for d in c["dists"]])
    return {"adm": adm}


# ------------------------------------------------------------------------------------------------ lattice boxes
def lattice_args(b, none_for_k0):
    """(xc, yc, angle, aspect, height) of a lattice box {x, y, w, h, k[, na]} (half units, quarter turns)"""
    width, height = b["w"] / 2.0, b["h"] / 2.0
    aspect = width / height if b["h"] != 0 else width
    na = b.get("na", 0) == 1 or (none_for_k0 and b["k"] == 0)
    angle = None if na else b["k"] * math.pi / 2.0
    return b["x"] / 2.0, b["y"] / 2.0, angle, aspect, height


def replay_nms(S, kv, idx, c):
    n = len(c["dets"])
    order = list(range(n)) if idx % 2 == 0 else list(range(n - 1, -1, -1))
    dets = []
    for pos, i in enumerate(order):
        d = c["dets"][i]
        xc, yc, angle, aspect, height = lattice_args(d["box"], False)
        # the confidence field (not used by nms) tags the box with its 1-based case index
        b = S.Universal2DBox.new_with_confidence(xc, yc, angle, aspect, height, (i + 1) / 64.0)
        dets.append((b, None if d["score"] <= -100000 else d["score"] / 100.0))
    thr = c["thr"][0] / c["thr"][1]
    sthr = None if c["sthr"] <= -100000 else c["sthr"] / 100.0
    if idx % 3 == 0:
        res = S.nms(detections=dets, nms_threshold=thr, score_threshold=sthr)
    else:
        res = S.nms(dets, thr, sthr)
    return {"order": [i + 1 for i in order], "idx": [int(round(b.confidence * 64.0)) for b in res],
            "boxes": [box6(b) for b in res]}


def replay_geom(S, kv, idx, c):
    kind = c["kind"]
    U, B = S.Universal2DBox, S.BoundingBox
    if kind == "pair":
        none0 = idx % 2 == 0
        a = U(*lattice_args(c["a"], none0))
        b = U(*lattice_args(c["b"], none0))
        out = {"kind": kind, "a": box6(a), "b": box6(b)}
        out["clip_ab"] = points(S.sutherland_hodgman_clip(a, b))
        out["clip_ba"] = points(S.sutherland_hodgman_clip(subject=b, clipping=a))
        out["area_ab"] = num(S.intersection_area(a, b))
        out["area_ba"] = num(S.intersection_area(subject=b, clipping=a))
        return out
    if kind == "conv":
        r = c["ltwh"]
        l, t, w, h = r["l"] / 4.0, r["t"] / 4.0, r["w"] / 4.0, r["h"] / 4.0
        out = {"kind": kind}
        bb = B(l, t, w, h)
        out["bbox"] = ltwh5(bb)
        bc = B.new_with_confidence(l, t, w, h, 0.75)
        out["bbox_conf"] = ltwh5(bc)
        bs = B(0.0, 0.0, 1.0, 1.0)
        bs.left, bs.top, bs.width, bs.height, bs.confidence = l, t, w, h, 0.75
        out["bbox_set"] = ltwh5(bs)
        forms = {"as_xyaah": bc.as_xyaah(), "ltwh": U.ltwh(l, t, w, h),
                 "ltwh_conf": U.ltwh_with_confidence(l, t, w, h, 0.75)}
        # the same box through the setters of a Universal2DBox
        src = forms["as_xyaah"]
        us = U(0.0, 0.0, 1.0, 1.0, 1.0)
        us.xc, us.yc, us.angle, us.aspect, us.height, us.confidence = src.xc, src.yc, None, src.aspect, src.height, 0.75
        forms["set"] = us
        for n, u in forms.items():
            out[n] = box6(u)
            out[n + ".back"] = ltwh5(u.as_ltwh())
        return out
    if kind == "poly":
        xc, yc, angle, aspect, height = lattice_args(c["box"], idx % 2 == 0)
        u = U(xc, yc, angle, aspect, height)
        out = {"kind": kind, "box": box6(u), "radius": num(u.get_radius()), "area": num(u.area()),
               "vertices": points(u.get_vertices())}
        u.gen_vertices()
        out["vertices_cached"] = points(u.get_vertices())
        # rotate(): a box built without angle, turned to k quarter turns
        v = U(xc, yc, None, aspect, height)
        v.rotate(c["box"]["k"] * math.pi / 2.0)
        out["rotated"] = box6(v)
        out["rotated_vertices"] = points(v.get_vertices())
        try:
            out["as_ltwh"] = ltwh5(v.as_ltwh())
        except AttributeError:
            out["as_ltwh"] = "error"
        w = U.new_with_confidence(xc, yc, angle, aspect, height, 0.25)
        w.confidence = 0.5
        out["conf_box"] = box6(w)
        return out
    if kind == "boxobj":
        # one box OBJECT under in-place operations (spec/geom/GenObj.tla): what the getters return after every operation
        fin, ops = c["final"], c["ops"]
        x, h, k = fin["x"], fin["h"], fin["k"]
        for o in reversed(ops):
            if o == "turn":
                k -= 1
            elif o == "move":
                x -= 2
            elif o == "resize":
                h = 4 if h == 2 else 2
        u = U(x / 2.0, fin["y"] / 2.0, k * math.pi / 2.0, fin["w"] / float(h), h / 2.0)
        steps = []
        for o in ops:
            if o == "gen":
                u.gen_vertices()
            elif o == "turn":
                k += 1
                u.rotate(k * math.pi / 2.0)
            elif o == "move":
                u.xc = u.xc + 1.0
            elif o == "resize":
                width = u.aspect * u.height
                nh = 2.0 if abs(u.height - 1.0) < 1e-6 else 1.0
                u.height = nh
                u.aspect = width / nh
            # "clone": Python has no clone of a box object; nothing happens in either front end
            steps.append({"op": o, "box": box6(u), "vertices": points(u.get_vertices()), "area": num(u.area()), "radius": num(u.get_radius())})
        pb = c["probe"]
        p = U(pb["x"] / 2.0, pb["y"] / 2.0, pb["k"] * math.pi / 2.0, pb["w"] / float(pb["h"]), pb["h"] / 2.0)
        return {"kind": kind, "steps": steps, "area_up": num(S.intersection_area(u, p)), "area_pu": num(S.intersection_area(p, u))}
    return {"skip": "kind " + kind + " has no Python counterpart"}


# ------------------------------------------------------------------------------------------------ Kalman filters
def kalman_filter(S, cls, c, idx, dflt):
    if dflt:
        return cls()
    wp, wv = 1.0 / c["w"][0], 1.0 / c["w"][1]
    return cls(wp, wv) if idx % 2 == 0 else cls(position_weight=wp, velocity_weight=wv)


def box_state(st):
    o = {"u": box6(st.universal_bbox())}
    try:
        o["b"] = ltwh5(st.bbox())
    except AttributeError:
        o["b"] = "error"
    return o


def replay_kalman(S, kv, idx, c):
    kind = c["kind"]
    if kind == "gate":
        ds = [float("%d.%04d" % (d // 10000, d % 10000)) for d in c["d"]]
        out = {"kind": kind}
        for inv, key in ((False, "direct"), (True, "inverted")):
            if c["filter"] == "box":
                out[key] = [num(S.Universal2DBoxKalmanFilter.calculate_cost(d, inv)) for d in ds]
            elif c["filter"] == "point":
                out[key] = [num(S.Point2DKalmanFilter.calculate_cost(distance=d, inverted=inv)) for d in ds]
            else:
                out[key] = [num(x) for x in S.Vec2DKalmanFilter.calculate_cost(ds, inv)]
        return out
    if kind == "proto":
        # default weights of the specification (documented defaults of the constructors): construct without arguments
        dflt = c["w"] == [int(x) for x in kv.get("kalman-default", "20,160").split(",")]
        i0 = c["i0"] - 1
        if c["filter"] == "box":
            f = kalman_filter(S, S.Universal2DBoxKalmanFilter, c, idx, dflt)
            meas = []
            for m in c["meas"]:
                v = [x / 1000.0 for x in m]
                meas.append(S.Universal2DBox(v[0], v[1], None if m[2] == 0 else v[2], v[3], v[4]))
            st = f.initiate(meas[i0])
            steps = [box_state(st)]
            for name, j in c["ops"]:
                o = {}
                if name == "p":
                    st = f.predict(st)
                elif name == "u":
                    st = f.update(st, meas[j - 1])
                else:
                    d = f.distance(st, meas[j - 1])
                    o["d"] = num(d)
                    o["cost"] = [num(S.Universal2DBoxKalmanFilter.calculate_cost(d, False)),
                                 num(S.Universal2DBoxKalmanFilter.calculate_cost(d, True))]
                o.update(box_state(st))
                steps.append(o)
            return {"kind": kind, "filter": "box", "steps": steps}
        vf = kalman_filter(S, S.Vec2DKalmanFilter, c, idx, dflt)
        pf = kalman_filter(S, S.Point2DKalmanFilter, c, idx + 1, dflt)
        sets = [[(p[0] / 1000.0, p[1] / 1000.0) for p in s] for s in c["meas"]]
        vs = vf.initiate(sets[i0])
        ps = pf.initiate(sets[i0][0][0], sets[i0][0][1])
        steps = [{"vec": [[num(s.x()), num(s.y())] for s in vs], "point": [num(ps.x()), num(ps.y())]}]
        for name, j in c["ops"]:
            o = {}
            if name == "p":
                vs = vf.predict(vs)
                ps = pf.predict(ps)
            elif name == "u":
                vs = vf.update(vs, sets[j - 1])
                ps = pf.update(ps, sets[j - 1][0][0], sets[j - 1][0][1])
            else:
                dv = vf.distance(vs, sets[j - 1])
                dp = pf.distance(ps, sets[j - 1][0][0], sets[j - 1][0][1])
                o["d"] = [num(x) for x in dv]
                o["dp"] = num(dp)
                o["cost"] = [[num(x) for x in S.Vec2DKalmanFilter.calculate_cost(dv, False)],
                             [num(x) for x in S.Vec2DKalmanFilter.calculate_cost(distances=dv, inverted=True)]]
                o["costp"] = [num(S.Point2DKalmanFilter.calculate_cost(dp, False)), num(S.Point2DKalmanFilter.calculate_cost(dp, True))]
            o["vec"] = [[num(s.x()), num(s.y())] for s in vs]
            o["point"] = [num(ps.x()), num(ps.y())]
            steps.append(o)
        return {"kind": kind, "filter": "vec", "steps": steps}
    if kind == "exact":
        z = [float(v) for v in c["z"]]
        h = c["h"][0] / c["h"][1]
        wp, wv = c["wp"][0] / c["wp"][1], c["wv"][0] / c["wv"][1]
        out = {"kind": kind}
        for axis in (0, 1):
            f = S.Universal2DBoxKalmanFilter(wp, wv)
            bx = (lambda v: S.Universal2DBox(v, 50.0, None, 1.0, h)) if axis == 0 else (lambda v: S.Universal2DBox(50.0, v, None, 1.0, h))
            st = f.initiate(bx(z[0]))
            nu, steps = 0, []
            for op in c["ops"]:
                if op == "p":
                    st = f.predict(st)
                else:
                    nu += 1
                    st = f.update(st, bx(z[nu]))
                steps.append(box6(st.universal_bbox()))
            out["box-%s" % "xy"[axis]] = {"steps": steps, "d": num(f.distance(st, bx(z[3])))}
            f = S.Point2DKalmanFilter(wp * h, wv * h)
            p = (lambda v: (v, 50.0)) if axis == 0 else (lambda v: (50.0, v))
            st = f.initiate(*p(z[0]))
            nu, steps = 0, []
            for op in c["ops"]:
                if op == "p":
                    st = f.predict(st)
                else:
                    nu += 1
                    st = f.update(st, *p(z[nu]))
                steps.append([num(st.x()), num(st.y())])
            out["point-%s" % "xy"[axis]] = {"steps": steps, "d": num(f.distance(st, *p(z[3])))}
        return out
    raise ValueError("kind " + kind)


# ------------------------------------------------------------------------------------------------ option objects
def opt_value(S, m, v):
    if m in ("max_idle_epochs", "kept_history_length", "visual_min_votes", "visual_max_observations",
             "visual_minimal_track_length"):
        return v[0]
    if m in ("kalman_position_weight", "kalman_velocity_weight"):
        return 1.0 / v[0]
    if m == "visual_metric":
        return S.VisualSortMetricType.euclidean(v[1] / 100.0) if v[0] == 0 else S.VisualSortMetricType.cosine(v[1] / 100.0)
    if m == "positional_metric":
        return S.PositionalMetricType.maha() if v[0] == 0 else S.PositionalMetricType.iou(v[1] / 100.0)
    if m == "spatio_temporal_constraints":
        c = S.SpatioTemporalConstraints()
        c.add_constraints([(v[i], v[i + 1] / 2.0) for i in range(0, len(v), 2)])
        return c
    return v[0] / 100.0


def replay_opts(S, kv, idx, c):
    if c["kind"] != "opts":
        return {"skip": "not a script"}
    o = S.VisualSortOptions()
    for call in c["calls"]:
        getattr(o, call["m"])(opt_value(S, call["m"], call["v"]))
    return {"repr": repr(o)}


AREAS = {"tracker": replay_tracker, "cons": replay_cons, "nms": replay_nms, "geom": replay_geom,
         "kalman": replay_kalman, "opts": replay_opts}


def main():
    kv, files = parse_args(sys.argv[1:])
    if "module-dir" in kv:
        sys.path.insert(0, kv["module-dir"])
    import similari as S
    if kv.get("print-module-file"):
        print(json.dumps({"module": S.__file__, "version": S.version()}))
        return
    fn = AREAS[kv["area"]]
    a, b = kv.get("slice", "0/1").split("/")
    limit = int(kv.get("limit", str(1 << 62)))
    out = sys.stdout
    off = int(kv.get("index-offset", "0"))   # a stored script is replayed under its original case index
    for idx, c in cases(files, (int(a), int(b)), limit):
        idx += off
        try:
            o = fn(S, kv, idx, c)
        except BaseException as e:  # a Rust panic arrives as pyo3_runtime.PanicException (a BaseException)
            if isinstance(e, (KeyboardInterrupt, SystemExit, MemoryError)):
                raise
            o = {"panic": True, "py_exception": type(e).__name__, "py_message": str(e)[:300]}
        out.write(json.dumps({"i": idx, "o": o}, separators=(",", ":")) + "\n")
    out.flush()


if __name__ == "__main__":
    main()
