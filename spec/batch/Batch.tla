------------------------------- MODULE Batch -------------------------------
(* Batch tracker protocol with one label per hook site; blocking channel and  *)
(* lock operations are split into intent / internal step / completion so     *)
(* that recorded traces (intent and completion are what the hooks see) can be *)
(* validated.                                                                  *)
EXTENDS Naturals, Sequences, FiniteSets, TLC
CONSTANTS NS, NV, Batches, Proviso,
          Getter,    \* TRUE: a second thread retrieves the results of every batch (Proviso = FALSE then)
          Slack      \* track ids are issued in order; a trace may log up to Slack issues late (0 when model checking)
Shards == 0..(NS-1)
Voters == 0..(NV-1)
NB == Len(Batches)
Scenes == UNION {Batches[bx] : bx \in 1..NB}
Jobs == {<<bx, sx>> : bx \in 1..NB, sx \in Scenes}
WorkerId(s) == <<"w", s>>
VoterId(v) == <<"v", v>>
Free == <<"free", 0>>

(* --algorithm Batch {
variables monitor = 0,
          wq = [s \in Shards |-> <<>>],
          answered = [jx \in Jobs |-> 0],
          vq = [v \in Voters |-> <<>>],
          chan = [bx \in 1..NB |-> <<>>],
          lock = Free,
          issued = {},
          trackOf = [sx \in Scenes |-> 0],
          ack = [v \in Voters |-> FALSE],
          epoch = [sx \in Scenes |-> 0],
          sent = [bx \in 1..NB |-> <<>>],
          delivered = [bx \in 1..NB |-> <<>>],
          stop = FALSE;

process (client = <<"c", 0>>)
variables b = 1, todo = {}, i = 0, sc = 0, g = 0, got = 0;
{
 c_loop: while (b <= NB) {
   p_wait:  await monitor = 0;
   p_set:   monitor := Cardinality(Batches[b]); todo := Batches[b]; i := 0;
   p_scenes: while (todo # {}) {
       with (x \in todo) { sc := x; todo := todo \ {x}; };
     p_epoch: epoch[sc] := epoch[sc] + 1;
     p_enq:   skip;                                      \* hook p.enq (before taking the write lock)
     p_enq_do: await lock = Free;
              wq := [s \in Shards |-> Append(wq[s], [type |-> "dist", job |-> <<b, sc>>, from |-> 0])];
     p_drain: await answered[<<b, sc>>] = NS;
     p_disp:  vq[i % NV] := Append(vq[i % NV], <<b, sc>>); i := i + 1;
   };
   p_exit: if (Proviso) { g := 0;
     c_get: while (g < Cardinality(Batches[b])) {
              skip;                                      \* hook c.get.before
       c_recv: await chan[b] # <<>>; got := Head(chan[b]); chan[b] := Tail(chan[b]);
       c_got:  delivered[b] := Append(delivered[b], got); g := g + 1; } };   \* hook c.get.after
   c_next: b := b + 1;
 };
 c_fin: await ~Getter \/ pc[<<"g", 0>>] = "Done";           \* the client joins its retrieving thread before shutdown
 drop:  vq := [v \in Voters |-> Append(vq[v], <<0, 0>>)];
 join:  await \A v \in Voters : pc[VoterId(v)] = "Done";
 stopw: stop := TRUE;
}

process (getter = <<"g", 0>>)
variables gb = 1, gg = 0, ggot = 0;
{
 g_loop: while (Getter /\ gb <= NB) {
   g_get: while (gg < Cardinality(Batches[gb])) {
            skip;                                      \* hook g.get.before
     g_recv: await chan[gb] # <<>>; ggot := Head(chan[gb]); chan[gb] := Tail(chan[gb]);
     g_got:  delivered[gb] := Append(delivered[gb], ggot); gg := gg + 1; };   \* hook g.get.after
   g_next: gb := gb + 1; gg := 0;
 };
}

process (worker \in {WorkerId(s) : s \in Shards})
variables me = self[2], cmd = [type |-> "none"];
{
 w_loop: while (~stop \/ wq[me] # <<>>) {
   w_step: await wq[me] # <<>> \/ stop;
           if (wq[me] # <<>>) {
             cmd := Head(wq[me]); wq[me] := Tail(wq[me]);
             if (cmd.type = "dist") { answered[cmd.job] := answered[cmd.job] + 1 }
             else { ack[cmd.from] := TRUE } } }
}

process (voter \in {VoterId(v) : v \in Voters})
variables vme = self[2], job = <<0, 0>>, myid = 0, kind = "none";
{
 v_loop: while (TRUE) {
   v_start: await vq[vme] # <<>>;
            job := Head(vq[vme]); vq[vme] := Tail(vq[vme]);
            if (job = <<0, 0>>) { goto Done };
   v_tid:   with (t \in (1..(Cardinality(issued) + 1 + Slack)) \ issued) { myid := t; issued := issued \cup {t} };
   v_write: kind := IF trackOf[job[2]] = 0 THEN "add" ELSE "merge";        \* hook v.write.*
   v_write_do: await lock = Free;
            if (kind = "add") { trackOf[job[2]] := myid }
            else { lock := self;
                   wq[trackOf[job[2]] % NS] := Append(wq[trackOf[job[2]] % NS],
                        [type |-> "merge", job |-> job, from |-> vme]);
              v_mwait: await ack[vme]; ack[vme] := FALSE; lock := Free;    \* internal: result received, guard dropped
              v_mdone: skip };                                             \* hook v.merge.done (may be logged late)
   v_send:  skip;                                                           \* hook v.send.before
   v_send_do: await Len(chan[job[1]]) < 1;
            chan[job[1]] := Append(chan[job[1]], job[2]); sent[job[1]] := Append(sent[job[1]], job[2]);
   v_sent:  skip;                                                           \* hook v.send.after
   v_dec:   monitor := monitor - 1;
 }
}
} *)
\* BEGIN TRANSLATION
VARIABLES pc, monitor, wq, answered, vq, chan, lock, issued, trackOf, ack, 
          epoch, sent, delivered, stop, b, todo, i, sc, g, got, gb, gg, ggot, 
          me, cmd, vme, job, myid, kind

vars == << pc, monitor, wq, answered, vq, chan, lock, issued, trackOf, ack, 
           epoch, sent, delivered, stop, b, todo, i, sc, g, got, gb, gg, ggot, 
           me, cmd, vme, job, myid, kind >>

ProcSet == {<<"c", 0>>} \cup {<<"g", 0>>} \cup ({WorkerId(s) : s \in Shards}) \cup ({VoterId(v) : v \in Voters})

Init == (* Global variables *)
        /\ monitor = 0
        /\ wq = [s \in Shards |-> <<>>]
        /\ answered = [jx \in Jobs |-> 0]
        /\ vq = [v \in Voters |-> <<>>]
        /\ chan = [bx \in 1..NB |-> <<>>]
        /\ lock = Free
        /\ issued = {}
        /\ trackOf = [sx \in Scenes |-> 0]
        /\ ack = [v \in Voters |-> FALSE]
        /\ epoch = [sx \in Scenes |-> 0]
        /\ sent = [bx \in 1..NB |-> <<>>]
        /\ delivered = [bx \in 1..NB |-> <<>>]
        /\ stop = FALSE
        (* Process client *)
        /\ b = 1
        /\ todo = {}
        /\ i = 0
        /\ sc = 0
        /\ g = 0
        /\ got = 0
        (* Process getter *)
        /\ gb = 1
        /\ gg = 0
        /\ ggot = 0
        (* Process worker *)
        /\ me = [self \in {WorkerId(s) : s \in Shards} |-> self[2]]
        /\ cmd = [self \in {WorkerId(s) : s \in Shards} |-> [type |-> "none"]]
        (* Process voter *)
        /\ vme = [self \in {VoterId(v) : v \in Voters} |-> self[2]]
        /\ job = [self \in {VoterId(v) : v \in Voters} |-> <<0, 0>>]
        /\ myid = [self \in {VoterId(v) : v \in Voters} |-> 0]
        /\ kind = [self \in {VoterId(v) : v \in Voters} |-> "none"]
        /\ pc = [self \in ProcSet |-> CASE self = <<"c", 0>> -> "c_loop"
                                        [] self = <<"g", 0>> -> "g_loop"
                                        [] self \in {WorkerId(s) : s \in Shards} -> "w_loop"
                                        [] self \in {VoterId(v) : v \in Voters} -> "v_loop"]

c_loop == /\ pc[<<"c", 0>>] = "c_loop"
          /\ IF b <= NB
                THEN /\ pc' = [pc EXCEPT ![<<"c", 0>>] = "p_wait"]
                ELSE /\ pc' = [pc EXCEPT ![<<"c", 0>>] = "c_fin"]
          /\ UNCHANGED << monitor, wq, answered, vq, chan, lock, issued, 
                          trackOf, ack, epoch, sent, delivered, stop, b, todo, 
                          i, sc, g, got, gb, gg, ggot, me, cmd, vme, job, myid, 
                          kind >>

p_wait == /\ pc[<<"c", 0>>] = "p_wait"
          /\ monitor = 0
          /\ pc' = [pc EXCEPT ![<<"c", 0>>] = "p_set"]
          /\ UNCHANGED << monitor, wq, answered, vq, chan, lock, issued, 
                          trackOf, ack, epoch, sent, delivered, stop, b, todo, 
                          i, sc, g, got, gb, gg, ggot, me, cmd, vme, job, myid, 
                          kind >>

p_set == /\ pc[<<"c", 0>>] = "p_set"
         /\ monitor' = Cardinality(Batches[b])
         /\ todo' = Batches[b]
         /\ i' = 0
         /\ pc' = [pc EXCEPT ![<<"c", 0>>] = "p_scenes"]
         /\ UNCHANGED << wq, answered, vq, chan, lock, issued, trackOf, ack, 
                         epoch, sent, delivered, stop, b, sc, g, got, gb, gg, 
                         ggot, me, cmd, vme, job, myid, kind >>

p_scenes == /\ pc[<<"c", 0>>] = "p_scenes"
            /\ IF todo # {}
                  THEN /\ \E x \in todo:
                            /\ sc' = x
                            /\ todo' = todo \ {x}
                       /\ pc' = [pc EXCEPT ![<<"c", 0>>] = "p_epoch"]
                  ELSE /\ pc' = [pc EXCEPT ![<<"c", 0>>] = "p_exit"]
                       /\ UNCHANGED << todo, sc >>
            /\ UNCHANGED << monitor, wq, answered, vq, chan, lock, issued, 
                            trackOf, ack, epoch, sent, delivered, stop, b, i, 
                            g, got, gb, gg, ggot, me, cmd, vme, job, myid, 
                            kind >>

p_epoch == /\ pc[<<"c", 0>>] = "p_epoch"
           /\ epoch' = [epoch EXCEPT ![sc] = epoch[sc] + 1]
           /\ pc' = [pc EXCEPT ![<<"c", 0>>] = "p_enq"]
           /\ UNCHANGED << monitor, wq, answered, vq, chan, lock, issued, 
                           trackOf, ack, sent, delivered, stop, b, todo, i, sc, 
                           g, got, gb, gg, ggot, me, cmd, vme, job, myid, kind >>

p_enq == /\ pc[<<"c", 0>>] = "p_enq"
         /\ TRUE
         /\ pc' = [pc EXCEPT ![<<"c", 0>>] = "p_enq_do"]
         /\ UNCHANGED << monitor, wq, answered, vq, chan, lock, issued, 
                         trackOf, ack, epoch, sent, delivered, stop, b, todo, 
                         i, sc, g, got, gb, gg, ggot, me, cmd, vme, job, myid, 
                         kind >>

p_enq_do == /\ pc[<<"c", 0>>] = "p_enq_do"
            /\ lock = Free
            /\ wq' = [s \in Shards |-> Append(wq[s], [type |-> "dist", job |-> <<b, sc>>, from |-> 0])]
            /\ pc' = [pc EXCEPT ![<<"c", 0>>] = "p_drain"]
            /\ UNCHANGED << monitor, answered, vq, chan, lock, issued, trackOf, 
                            ack, epoch, sent, delivered, stop, b, todo, i, sc, 
                            g, got, gb, gg, ggot, me, cmd, vme, job, myid, 
                            kind >>

p_drain == /\ pc[<<"c", 0>>] = "p_drain"
           /\ answered[<<b, sc>>] = NS
           /\ pc' = [pc EXCEPT ![<<"c", 0>>] = "p_disp"]
           /\ UNCHANGED << monitor, wq, answered, vq, chan, lock, issued, 
                           trackOf, ack, epoch, sent, delivered, stop, b, todo, 
                           i, sc, g, got, gb, gg, ggot, me, cmd, vme, job, 
                           myid, kind >>

p_disp == /\ pc[<<"c", 0>>] = "p_disp"
          /\ vq' = [vq EXCEPT ![i % NV] = Append(vq[i % NV], <<b, sc>>)]
          /\ i' = i + 1
          /\ pc' = [pc EXCEPT ![<<"c", 0>>] = "p_scenes"]
          /\ UNCHANGED << monitor, wq, answered, chan, lock, issued, trackOf, 
                          ack, epoch, sent, delivered, stop, b, todo, sc, g, 
                          got, gb, gg, ggot, me, cmd, vme, job, myid, kind >>

p_exit == /\ pc[<<"c", 0>>] = "p_exit"
          /\ IF Proviso
                THEN /\ g' = 0
                     /\ pc' = [pc EXCEPT ![<<"c", 0>>] = "c_get"]
                ELSE /\ pc' = [pc EXCEPT ![<<"c", 0>>] = "c_next"]
                     /\ g' = g
          /\ UNCHANGED << monitor, wq, answered, vq, chan, lock, issued, 
                          trackOf, ack, epoch, sent, delivered, stop, b, todo, 
                          i, sc, got, gb, gg, ggot, me, cmd, vme, job, myid, 
                          kind >>

c_get == /\ pc[<<"c", 0>>] = "c_get"
         /\ IF g < Cardinality(Batches[b])
               THEN /\ TRUE
                    /\ pc' = [pc EXCEPT ![<<"c", 0>>] = "c_recv"]
               ELSE /\ pc' = [pc EXCEPT ![<<"c", 0>>] = "c_next"]
         /\ UNCHANGED << monitor, wq, answered, vq, chan, lock, issued, 
                         trackOf, ack, epoch, sent, delivered, stop, b, todo, 
                         i, sc, g, got, gb, gg, ggot, me, cmd, vme, job, myid, 
                         kind >>

c_recv == /\ pc[<<"c", 0>>] = "c_recv"
          /\ chan[b] # <<>>
          /\ got' = Head(chan[b])
          /\ chan' = [chan EXCEPT ![b] = Tail(chan[b])]
          /\ pc' = [pc EXCEPT ![<<"c", 0>>] = "c_got"]
          /\ UNCHANGED << monitor, wq, answered, vq, lock, issued, trackOf, 
                          ack, epoch, sent, delivered, stop, b, todo, i, sc, g, 
                          gb, gg, ggot, me, cmd, vme, job, myid, kind >>

c_got == /\ pc[<<"c", 0>>] = "c_got"
         /\ delivered' = [delivered EXCEPT ![b] = Append(delivered[b], got)]
         /\ g' = g + 1
         /\ pc' = [pc EXCEPT ![<<"c", 0>>] = "c_get"]
         /\ UNCHANGED << monitor, wq, answered, vq, chan, lock, issued, 
                         trackOf, ack, epoch, sent, stop, b, todo, i, sc, got, 
                         gb, gg, ggot, me, cmd, vme, job, myid, kind >>

c_next == /\ pc[<<"c", 0>>] = "c_next"
          /\ b' = b + 1
          /\ pc' = [pc EXCEPT ![<<"c", 0>>] = "c_loop"]
          /\ UNCHANGED << monitor, wq, answered, vq, chan, lock, issued, 
                          trackOf, ack, epoch, sent, delivered, stop, todo, i, 
                          sc, g, got, gb, gg, ggot, me, cmd, vme, job, myid, 
                          kind >>

c_fin == /\ pc[<<"c", 0>>] = "c_fin"
         /\ ~Getter \/ pc[<<"g", 0>>] = "Done"
         /\ pc' = [pc EXCEPT ![<<"c", 0>>] = "drop"]
         /\ UNCHANGED << monitor, wq, answered, vq, chan, lock, issued, 
                         trackOf, ack, epoch, sent, delivered, stop, b, todo, 
                         i, sc, g, got, gb, gg, ggot, me, cmd, vme, job, myid, 
                         kind >>

drop == /\ pc[<<"c", 0>>] = "drop"
        /\ vq' = [v \in Voters |-> Append(vq[v], <<0, 0>>)]
        /\ pc' = [pc EXCEPT ![<<"c", 0>>] = "join"]
        /\ UNCHANGED << monitor, wq, answered, chan, lock, issued, trackOf, 
                        ack, epoch, sent, delivered, stop, b, todo, i, sc, g, 
                        got, gb, gg, ggot, me, cmd, vme, job, myid, kind >>

join == /\ pc[<<"c", 0>>] = "join"
        /\ \A v \in Voters : pc[VoterId(v)] = "Done"
        /\ pc' = [pc EXCEPT ![<<"c", 0>>] = "stopw"]
        /\ UNCHANGED << monitor, wq, answered, vq, chan, lock, issued, trackOf, 
                        ack, epoch, sent, delivered, stop, b, todo, i, sc, g, 
                        got, gb, gg, ggot, me, cmd, vme, job, myid, kind >>

stopw == /\ pc[<<"c", 0>>] = "stopw"
         /\ stop' = TRUE
         /\ pc' = [pc EXCEPT ![<<"c", 0>>] = "Done"]
         /\ UNCHANGED << monitor, wq, answered, vq, chan, lock, issued, 
                         trackOf, ack, epoch, sent, delivered, b, todo, i, sc, 
                         g, got, gb, gg, ggot, me, cmd, vme, job, myid, kind >>

client == c_loop \/ p_wait \/ p_set \/ p_scenes \/ p_epoch \/ p_enq
             \/ p_enq_do \/ p_drain \/ p_disp \/ p_exit \/ c_get \/ c_recv
             \/ c_got \/ c_next \/ c_fin \/ drop \/ join \/ stopw

g_loop == /\ pc[<<"g", 0>>] = "g_loop"
          /\ IF Getter /\ gb <= NB
                THEN /\ pc' = [pc EXCEPT ![<<"g", 0>>] = "g_get"]
                ELSE /\ pc' = [pc EXCEPT ![<<"g", 0>>] = "Done"]
          /\ UNCHANGED << monitor, wq, answered, vq, chan, lock, issued, 
                          trackOf, ack, epoch, sent, delivered, stop, b, todo, 
                          i, sc, g, got, gb, gg, ggot, me, cmd, vme, job, myid, 
                          kind >>

g_get == /\ pc[<<"g", 0>>] = "g_get"
         /\ IF gg < Cardinality(Batches[gb])
               THEN /\ TRUE
                    /\ pc' = [pc EXCEPT ![<<"g", 0>>] = "g_recv"]
               ELSE /\ pc' = [pc EXCEPT ![<<"g", 0>>] = "g_next"]
         /\ UNCHANGED << monitor, wq, answered, vq, chan, lock, issued, 
                         trackOf, ack, epoch, sent, delivered, stop, b, todo, 
                         i, sc, g, got, gb, gg, ggot, me, cmd, vme, job, myid, 
                         kind >>

g_recv == /\ pc[<<"g", 0>>] = "g_recv"
          /\ chan[gb] # <<>>
          /\ ggot' = Head(chan[gb])
          /\ chan' = [chan EXCEPT ![gb] = Tail(chan[gb])]
          /\ pc' = [pc EXCEPT ![<<"g", 0>>] = "g_got"]
          /\ UNCHANGED << monitor, wq, answered, vq, lock, issued, trackOf, 
                          ack, epoch, sent, delivered, stop, b, todo, i, sc, g, 
                          got, gb, gg, me, cmd, vme, job, myid, kind >>

g_got == /\ pc[<<"g", 0>>] = "g_got"
         /\ delivered' = [delivered EXCEPT ![gb] = Append(delivered[gb], ggot)]
         /\ gg' = gg + 1
         /\ pc' = [pc EXCEPT ![<<"g", 0>>] = "g_get"]
         /\ UNCHANGED << monitor, wq, answered, vq, chan, lock, issued, 
                         trackOf, ack, epoch, sent, stop, b, todo, i, sc, g, 
                         got, gb, ggot, me, cmd, vme, job, myid, kind >>

g_next == /\ pc[<<"g", 0>>] = "g_next"
          /\ gb' = gb + 1
          /\ gg' = 0
          /\ pc' = [pc EXCEPT ![<<"g", 0>>] = "g_loop"]
          /\ UNCHANGED << monitor, wq, answered, vq, chan, lock, issued, 
                          trackOf, ack, epoch, sent, delivered, stop, b, todo, 
                          i, sc, g, got, ggot, me, cmd, vme, job, myid, kind >>

getter == g_loop \/ g_get \/ g_recv \/ g_got \/ g_next

w_loop(self) == /\ pc[self] = "w_loop"
                /\ IF ~stop \/ wq[me[self]] # <<>>
                      THEN /\ pc' = [pc EXCEPT ![self] = "w_step"]
                      ELSE /\ pc' = [pc EXCEPT ![self] = "Done"]
                /\ UNCHANGED << monitor, wq, answered, vq, chan, lock, issued, 
                                trackOf, ack, epoch, sent, delivered, stop, b, 
                                todo, i, sc, g, got, gb, gg, ggot, me, cmd, 
                                vme, job, myid, kind >>

w_step(self) == /\ pc[self] = "w_step"
                /\ wq[me[self]] # <<>> \/ stop
                /\ IF wq[me[self]] # <<>>
                      THEN /\ cmd' = [cmd EXCEPT ![self] = Head(wq[me[self]])]
                           /\ wq' = [wq EXCEPT ![me[self]] = Tail(wq[me[self]])]
                           /\ IF cmd'[self].type = "dist"
                                 THEN /\ answered' = [answered EXCEPT ![cmd'[self].job] = answered[cmd'[self].job] + 1]
                                      /\ ack' = ack
                                 ELSE /\ ack' = [ack EXCEPT ![cmd'[self].from] = TRUE]
                                      /\ UNCHANGED answered
                      ELSE /\ TRUE
                           /\ UNCHANGED << wq, answered, ack, cmd >>
                /\ pc' = [pc EXCEPT ![self] = "w_loop"]
                /\ UNCHANGED << monitor, vq, chan, lock, issued, trackOf, 
                                epoch, sent, delivered, stop, b, todo, i, sc, 
                                g, got, gb, gg, ggot, me, vme, job, myid, kind >>

worker(self) == w_loop(self) \/ w_step(self)

v_loop(self) == /\ pc[self] = "v_loop"
                /\ pc' = [pc EXCEPT ![self] = "v_start"]
                /\ UNCHANGED << monitor, wq, answered, vq, chan, lock, issued, 
                                trackOf, ack, epoch, sent, delivered, stop, b, 
                                todo, i, sc, g, got, gb, gg, ggot, me, cmd, 
                                vme, job, myid, kind >>

v_start(self) == /\ pc[self] = "v_start"
                 /\ vq[vme[self]] # <<>>
                 /\ job' = [job EXCEPT ![self] = Head(vq[vme[self]])]
                 /\ vq' = [vq EXCEPT ![vme[self]] = Tail(vq[vme[self]])]
                 /\ IF job'[self] = <<0, 0>>
                       THEN /\ pc' = [pc EXCEPT ![self] = "Done"]
                       ELSE /\ pc' = [pc EXCEPT ![self] = "v_tid"]
                 /\ UNCHANGED << monitor, wq, answered, chan, lock, issued, 
                                 trackOf, ack, epoch, sent, delivered, stop, b, 
                                 todo, i, sc, g, got, gb, gg, ggot, me, cmd, 
                                 vme, myid, kind >>

v_tid(self) == /\ pc[self] = "v_tid"
               /\ \E t \in (1..(Cardinality(issued) + 1 + Slack)) \ issued:
                    /\ myid' = [myid EXCEPT ![self] = t]
                    /\ issued' = (issued \cup {t})
               /\ pc' = [pc EXCEPT ![self] = "v_write"]
               /\ UNCHANGED << monitor, wq, answered, vq, chan, lock, trackOf, 
                               ack, epoch, sent, delivered, stop, b, todo, i, 
                               sc, g, got, gb, gg, ggot, me, cmd, vme, job, 
                               kind >>

v_write(self) == /\ pc[self] = "v_write"
                 /\ kind' = [kind EXCEPT ![self] = IF trackOf[job[self][2]] = 0 THEN "add" ELSE "merge"]
                 /\ pc' = [pc EXCEPT ![self] = "v_write_do"]
                 /\ UNCHANGED << monitor, wq, answered, vq, chan, lock, issued, 
                                 trackOf, ack, epoch, sent, delivered, stop, b, 
                                 todo, i, sc, g, got, gb, gg, ggot, me, cmd, 
                                 vme, job, myid >>

v_write_do(self) == /\ pc[self] = "v_write_do"
                    /\ lock = Free
                    /\ IF kind[self] = "add"
                          THEN /\ trackOf' = [trackOf EXCEPT ![job[self][2]] = myid[self]]
                               /\ pc' = [pc EXCEPT ![self] = "v_send"]
                               /\ UNCHANGED << wq, lock >>
                          ELSE /\ lock' = self
                               /\ wq' = [wq EXCEPT ![trackOf[job[self][2]] % NS] =                        Append(wq[trackOf[job[self][2]] % NS],
                                                                                   [type |-> "merge", job |-> job[self], from |-> vme[self]])]
                               /\ pc' = [pc EXCEPT ![self] = "v_mwait"]
                               /\ UNCHANGED trackOf
                    /\ UNCHANGED << monitor, answered, vq, chan, issued, ack, 
                                    epoch, sent, delivered, stop, b, todo, i, 
                                    sc, g, got, gb, gg, ggot, me, cmd, vme, 
                                    job, myid, kind >>

v_mwait(self) == /\ pc[self] = "v_mwait"
                 /\ ack[vme[self]]
                 /\ ack' = [ack EXCEPT ![vme[self]] = FALSE]
                 /\ lock' = Free
                 /\ pc' = [pc EXCEPT ![self] = "v_mdone"]
                 /\ UNCHANGED << monitor, wq, answered, vq, chan, issued, 
                                 trackOf, epoch, sent, delivered, stop, b, 
                                 todo, i, sc, g, got, gb, gg, ggot, me, cmd, 
                                 vme, job, myid, kind >>

v_mdone(self) == /\ pc[self] = "v_mdone"
                 /\ TRUE
                 /\ pc' = [pc EXCEPT ![self] = "v_send"]
                 /\ UNCHANGED << monitor, wq, answered, vq, chan, lock, issued, 
                                 trackOf, ack, epoch, sent, delivered, stop, b, 
                                 todo, i, sc, g, got, gb, gg, ggot, me, cmd, 
                                 vme, job, myid, kind >>

v_send(self) == /\ pc[self] = "v_send"
                /\ TRUE
                /\ pc' = [pc EXCEPT ![self] = "v_send_do"]
                /\ UNCHANGED << monitor, wq, answered, vq, chan, lock, issued, 
                                trackOf, ack, epoch, sent, delivered, stop, b, 
                                todo, i, sc, g, got, gb, gg, ggot, me, cmd, 
                                vme, job, myid, kind >>

v_send_do(self) == /\ pc[self] = "v_send_do"
                   /\ Len(chan[job[self][1]]) < 1
                   /\ chan' = [chan EXCEPT ![job[self][1]] = Append(chan[job[self][1]], job[self][2])]
                   /\ sent' = [sent EXCEPT ![job[self][1]] = Append(sent[job[self][1]], job[self][2])]
                   /\ pc' = [pc EXCEPT ![self] = "v_sent"]
                   /\ UNCHANGED << monitor, wq, answered, vq, lock, issued, 
                                   trackOf, ack, epoch, delivered, stop, b, 
                                   todo, i, sc, g, got, gb, gg, ggot, me, cmd, 
                                   vme, job, myid, kind >>

v_sent(self) == /\ pc[self] = "v_sent"
                /\ TRUE
                /\ pc' = [pc EXCEPT ![self] = "v_dec"]
                /\ UNCHANGED << monitor, wq, answered, vq, chan, lock, issued, 
                                trackOf, ack, epoch, sent, delivered, stop, b, 
                                todo, i, sc, g, got, gb, gg, ggot, me, cmd, 
                                vme, job, myid, kind >>

v_dec(self) == /\ pc[self] = "v_dec"
               /\ monitor' = monitor - 1
               /\ pc' = [pc EXCEPT ![self] = "v_loop"]
               /\ UNCHANGED << wq, answered, vq, chan, lock, issued, trackOf, 
                               ack, epoch, sent, delivered, stop, b, todo, i, 
                               sc, g, got, gb, gg, ggot, me, cmd, vme, job, 
                               myid, kind >>

voter(self) == v_loop(self) \/ v_start(self) \/ v_tid(self)
                  \/ v_write(self) \/ v_write_do(self) \/ v_mwait(self)
                  \/ v_mdone(self) \/ v_send(self) \/ v_send_do(self)
                  \/ v_sent(self) \/ v_dec(self)

(* Allow infinite stuttering to prevent deadlock on termination. *)
Terminating == /\ \A self \in ProcSet: pc[self] = "Done"
               /\ UNCHANGED vars

Next == client \/ getter
           \/ (\E self \in {WorkerId(s) : s \in Shards}: worker(self))
           \/ (\E self \in {VoterId(v) : v \in Voters}: voter(self))
           \/ Terminating

Spec == Init /\ [][Next]_vars

Termination == <>(\A self \in ProcSet: pc[self] = "Done")

\* END TRANSLATION

Range(q) == {q[x] : x \in DOMAIN q}
OneResultPerScene == \A bb \in 1..NB : /\ Len(sent[bb]) = Cardinality(Range(sent[bb]))
                                        /\ Range(sent[bb]) \subseteq Batches[bb]
                                        /\ Range(delivered[bb]) \subseteq Range(sent[bb])
AllDelivered == (\A self \in ProcSet : pc[self] = "Done") =>
                   \A bb \in 1..NB : Range(delivered[bb]) = Batches[bb] /\ Len(delivered[bb]) = Cardinality(Batches[bb])
MonitorOK == monitor >= 0
=============================================================================
