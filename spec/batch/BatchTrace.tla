----------------------------- MODULE BatchTrace -----------------------------
(* Validates a hook trace of the real BatchSort / BatchVisualSort against     *)
(* Batch.  Line 1 is the configuration (ns, nv, batches); every further line   *)
(* is one event {seq, ev, a, b} logged at a hook site (or by the client        *)
(* itself).  Sends and lock acquisitions are logged before the operation,      *)
(* receives after it, counters under the mutex protecting them; everything     *)
(* else the model does is a silent step.                                       *)
EXTENDS Batch, Json, IOUtils
Rec == ndJsonDeserialize(IOEnv.TRACE)
TraceNS == Rec[1].ns
TraceNV == Rec[1].nv
TraceBatches == [bi \in DOMAIN Rec[1].batches |-> {Rec[1].batches[bi][bj] : bj \in DOMAIN Rec[1].batches[bi]}]
TraceSlack == Rec[1].nv
TraceGetter == Rec[1].getter = 1
TraceProviso == Rec[1].getter = 0
G == <<"g", 0>>
VARIABLE l
C == <<"c", 0>>
TraceInit == Init /\ l = 2 /\ TLCSet(1, 2)
E == Rec[l]
Ev(name) == l <= Len(Rec) /\ Rec[l].ev = name /\ l' = l + 1
VoterOfScene(s) == {v \in Voters : job[VoterId(v)][2] = s /\ job[VoterId(v)] # <<0, 0>>}

Logged ==
  \/ Ev("c.predict")     /\ c_loop /\ b = E.a /\ b <= NB
  \/ Ev("p.wait.done")   /\ p_wait
  \/ Ev("p.monitor.set") /\ p_set /\ monitor' = E.a
  \/ Ev("p.epoch")       /\ p_epoch /\ sc = E.a /\ epoch'[E.a] = E.b
  \/ Ev("p.enq")         /\ p_enq /\ sc = E.a
  \/ Ev("p.drained")     /\ p_drain /\ sc = E.a
  \/ Ev("p.dispatch")    /\ p_disp /\ sc = E.a /\ (i % NV) = E.b
  \/ Ev("c.predict.ret") /\ p_exit
  \/ Ev("c.get.before")  /\ c_get /\ b = E.a /\ pc'[C] = "c_recv"
  \/ Ev("c.get.after")   /\ c_got /\ got = E.b
  \/ Ev("g.get.before")  /\ g_get /\ gb = E.a /\ pc'[G] = "g_recv"
  \/ Ev("g.get.after")   /\ g_got /\ ggot = E.b
  \/ Ev("c.drop")        /\ drop
  \/ Ev("c.dropped")     /\ stopw
  \/ Ev("w.cmd.start")   /\ E.b \in {2, 4} /\ w_step(WorkerId(E.a)) /\ wq[E.a] # <<>>
                         /\ Head(wq[E.a]).type = (IF E.b = 2 THEN "dist" ELSE "merge")
  \/ Ev("w.cmd.start")   /\ E.b \notin {2, 4} /\ UNCHANGED vars            \* Drop / FindBaked / Lookup: outside the model
  \/ Ev("v.job.start")   /\ \E v \in Voters : v_start(VoterId(v)) /\ vq[v] # <<>> /\ Head(vq[v])[2] = E.a /\ Head(vq[v]) # <<0, 0>>
  \/ Ev("v.tid")         /\ \E v \in VoterOfScene(E.a) : v_tid(VoterId(v)) /\ myid'[VoterId(v)] = E.b
  \/ Ev("v.write.add")   /\ \E v \in VoterOfScene(E.a) : v_write(VoterId(v)) /\ kind'[VoterId(v)] = "add" /\ myid[VoterId(v)] = E.b
  \/ Ev("v.write.merge") /\ \E v \in VoterOfScene(E.a) : v_write(VoterId(v)) /\ kind'[VoterId(v)] = "merge" /\ trackOf[E.a] = E.b
  \/ Ev("v.merge.done")  /\ \E v \in VoterOfScene(E.a) : v_mdone(VoterId(v))
  \/ Ev("v.send.before") /\ \E v \in VoterOfScene(E.a) : v_send(VoterId(v))
  \/ Ev("v.send.after")  /\ \E v \in VoterOfScene(E.a) : v_sent(VoterId(v))
  \/ Ev("v.mon.dec")     /\ \E v \in VoterOfScene(E.a) : v_dec(VoterId(v)) /\ monitor' = E.b

(* without the proviso the client's p_exit is still logged (c.predict.ret); nothing else *)
p_exit_silent == FALSE
Silent == /\ UNCHANGED l
          /\ \/ p_scenes \/ p_enq_do \/ c_recv \/ c_next \/ join \/ (c_get /\ pc'[C] = "c_next") \/ c_fin \/ p_exit_silent
             \/ g_loop \/ g_recv \/ g_next \/ (g_get /\ pc'[G] = "g_next")
             \/ (c_loop /\ b > NB)
             \/ \E s \in Shards : w_loop(WorkerId(s))
             \/ \E v \in Voters : \/ v_loop(VoterId(v)) \/ v_write_do(VoterId(v)) \/ v_send_do(VoterId(v)) \/ v_mwait(VoterId(v))
                                  \/ (v_start(VoterId(v)) /\ vq[v] # <<>> /\ Head(vq[v]) = <<0, 0>>)
TraceNext == Logged \/ Silent
TraceSpec == TraceInit /\ [][TraceNext]_<<vars, l>>
Progress == TLCSet(1, IF l > TLCGet(1) THEN l ELSE TLCGet(1))
TraceInv == OneResultPerScene /\ MonitorOK
Accepted == IF TLCGet(1) = Len(Rec) + 1 THEN TRUE
            ELSE PrintT("REJECTED at line " \o ToString(<<TLCGet(1), Rec[TLCGet(1)]>>)) /\ FALSE
=============================================================================
