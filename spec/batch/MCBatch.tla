------------------------------ MODULE MCBatch ------------------------------
(* Model-checking instances of the batch tracker protocol (Batch.tla).        *)
EXTENDS Batch
B22 == << {1, 2}, {1, 2} >>
B23 == << {1, 2, 3}, {1, 2, 3} >>
B1x4 == << {1, 2, 3, 4} >>
B212 == << {1, 2}, {1}, {2} >>
FairSpec == Spec /\ WF_vars(client) /\ WF_vars(getter) /\ (\A s \in Shards : WF_vars(worker(WorkerId(s)))) /\ (\A v \in Voters : WF_vars(voter(VoterId(v))))
Termination2 == <>(\A self \in ProcSet : pc[self] = "Done")
(* predict never touches epochs or queues while a voter still works on an earlier batch *)
NoOverlap == pc[<<"c", 0>>] \in {"p_epoch", "p_enq", "p_enq_do", "p_drain", "p_disp"} =>
               \A v \in Voters : (pc[VoterId(v)] \in {"v_tid", "v_write", "v_write_do", "v_mwait", "v_mdone", "v_send", "v_send_do", "v_sent"}
                                   => job[VoterId(v)][1] = b)
(* witnesses *)
W_ChanNeverFull == \A bb \in 1..NB : Len(chan[bb]) < 1
W_NoMerge == \A v \in Voters : kind[VoterId(v)] # "merge"
=============================================================================
