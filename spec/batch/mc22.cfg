CONSTANTS
 NS = 2
 NV = 2
 Batches <- B22
 Proviso = TRUE
 Slack = 0
SPECIFICATION FairSpec
INVARIANTS OneResultPerScene AllDelivered MonitorOK NoOverlap
PROPERTY Termination2
CHECK_DEADLOCK TRUE
