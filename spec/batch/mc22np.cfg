CONSTANTS
 NS = 2
 NV = 2
 Batches <- B22
 Proviso = FALSE
 Slack = 0
SPECIFICATION FairSpec
INVARIANTS OneResultPerScene AllDelivered MonitorOK NoOverlap
CHECK_DEADLOCK TRUE
