CONSTANTS
 NS <- TraceNS
 NV <- TraceNV
 Batches <- TraceBatches
 Proviso <- TraceProviso
 Getter <- TraceGetter
 Slack <- TraceSlack
SPECIFICATION TraceSpec
CONSTRAINT Progress
INVARIANT TraceInv
POSTCONDITION Accepted
CHECK_DEADLOCK FALSE
