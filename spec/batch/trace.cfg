CONSTANTS
 NS <- TraceNS
 NV <- TraceNV
 Batches <- TraceBatches
 Proviso = TRUE
 Slack <- TraceSlack
SPECIFICATION TraceSpec
CONSTRAINT Progress
INVARIANT TraceInv
POSTCONDITION Accepted
CHECK_DEADLOCK FALSE
