------------------------------- MODULE CAlpha -------------------------------
(* The alphabet shared by the checking (MCC) and generation (GenC) instances of  *)
(* Constraints.tla: tables of at most MaxEntries entries over Gaps x Limits,      *)
(* split into two add calls at every position (duplicates included); probes =     *)
(* every gap in ProbeGaps x every distance in {limit-1, limit, limit+1}           *)
(* (half units) for every limit of the grid.                                      *)
EXTENDS Constraints, Integers
CONSTANTS MaxGap, Limits, MaxEntries
Gaps == 0..MaxGap
ProbeGaps == 0..(MaxGap + 1)
Pairs == {<<g, lim>> : g \in Gaps, lim \in Limits}
DistSet == UNION {{l - 1, l, l + 1} : l \in Limits}
RECURSIVE AscSeq(_)
AscSeq(S) == IF S = {} THEN <<>> ELSE LET m == MinOf(S) IN <<m>> \o AscSeq(S \ {m})
Dists == AscSeq(DistSet)
SeqsUpTo(n) == UNION {[1..k -> Pairs] : k \in 0..n}
(* every way to cut a sequence of entries into two add calls *)
Splits(s) == {<<SubSeq(s, 1, k), SubSeq(s, k + 1, Len(s))>> : k \in 0..Len(s)}
HasDupGap(s) == \E i, j \in 1..Len(s) : i < j /\ s[i][1] = s[j][1]
=============================================================================
