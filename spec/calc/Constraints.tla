----------------------------- MODULE Constraints -----------------------------
(* Spatio-temporal constraint table.  Built by add calls (each a sequence of    *)
(* <<gap, limit>>); kept sorted by gap, a gap configured twice keeps its first   *)
(* limit.  Limits and distances are integers (scaled).                           *)
EXTENDS Naturals, Sequences, FiniteSets
(* the table as the function gap -> first configured limit *)
RECURSIVE Fold(_, _)
Fold(tbl, pairs) == IF pairs = <<>> THEN tbl
                    ELSE LET p == Head(pairs) IN
                         Fold(IF p[1] \in DOMAIN tbl THEN tbl ELSE [g \in DOMAIN tbl \cup {p[1]} |-> IF g = p[1] THEN p[2] ELSE tbl[g]], Tail(pairs))
RECURSIVE Build(_, _)
Build(tbl, calls) == IF calls = <<>> THEN tbl ELSE Build(Fold(tbl, Head(calls)), Tail(calls))
Empty == [g \in {} |-> 0]
Applicable(tbl, gap) == {g \in DOMAIN tbl : g >= gap}
Validate(tbl, gap, d) == IF Applicable(tbl, gap) = {} THEN TRUE
                         ELSE LET g == CHOOSE x \in Applicable(tbl, gap) : \A y \in Applicable(tbl, gap) : x <= y IN d <= tbl[g]
Monotone(tbl, gap, d1, d2) == (d1 <= d2 /\ Validate(tbl, gap, d2)) => Validate(tbl, gap, d1)
=============================================================================
