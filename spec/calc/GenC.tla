-------------------------------- MODULE GenC --------------------------------
(* Generation instance of Constraints.tla: one line per (table, split into two   *)
(* add calls) with the admission verdict of every probe computed by the spec.    *)
(* adm[i][j] = 1 iff Validate(table, gap = i - 1, Dists[j]); lim[i] = applicable *)
(* limit of gap i - 1 (0 = none).  All distances / limits in half units.         *)
EXTENDS CAlpha, Json, TLC
VARIABLES stage, first, calls
vars == <<stage, first, calls>>
Init == stage = 0 /\ first = <<>> /\ calls = <<>>
Next == \/ /\ stage = 0 /\ stage' = 1 /\ calls' = calls
           /\ \E f \in {<<>>} \cup {<<p>> : p \in Pairs} : first' = f
        \/ /\ stage = 1 /\ stage' = 2 /\ first' = first
           /\ \E rest \in SeqsUpTo(IF first = <<>> THEN 0 ELSE MaxEntries - 1) :
                \E sp \in Splits(first \o rest) : calls' = sp
Spec == Init /\ [][Next]_vars
NG == MaxGap + 2
Emit == stage = 2 =>
        LET t == Build(Empty, calls) IN
        PrintT(<<"REPLAY", ToJson([kind |-> "cons", calls |-> calls, dists |-> Dists,
                 lim |-> [i \in 1..NG |-> Limit(t, i - 1)],
                 adm |-> [i \in 1..NG |-> [j \in 1..Len(Dists) |-> IF Validate(t, i - 1, Dists[j]) THEN 1 ELSE 0]]])>>)
=============================================================================
