---- MODULE GenC ----
EXTENDS Constraints, Json, TLC
Pairs == {<<g, lim>> : g \in {0, 2, 5}, lim \in {10, 20}}
VARIABLES c1, c2, done
Init == c1 \in {<<>>} \cup {<<p>> : p \in Pairs} \cup {<<p, q>> : p \in Pairs, q \in Pairs} /\ c2 \in {<<>>} \cup {<<p>> : p \in Pairs} /\ done = FALSE
Next == done = FALSE /\ done' = TRUE /\ UNCHANGED <<c1, c2>>
Probes == {<<g, d>> : g \in 0..6, d \in {5, 10, 15, 20, 25}}
RECURSIVE S2Q(_)
S2Q(S) == IF S = {} THEN <<>> ELSE LET m == CHOOSE x \in S : \A y \in S : (x[1] < y[1]) \/ (x[1] = y[1] /\ x[2] <= y[2]) IN <<m>> \o S2Q(S \ {m})
Emit == done => LET t == Build(Empty, <<c1, c2>>) IN
        PrintT(<<"REPLAY", ToJson([kind |-> "cons", calls |-> <<c1, c2>>, probes |-> [i \in 1..Len(S2Q(Probes)) |-> <<S2Q(Probes)[i][1], S2Q(Probes)[i][2], Validate(t, S2Q(Probes)[i][1], S2Q(Probes)[i][2])>>]])>>)
====
