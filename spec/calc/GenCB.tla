-------------------------------- MODULE GenCB --------------------------------
(* Large constraint tables (property C20): one add call with N entries in      *)
(* which every gap is configured several times with different limits - "a gap   *)
(* configured twice keeps its first limit" must hold for any table size.        *)
(* Entry i of table k: gap = (7 i + k) % (MaxGap + 1); the limit index depends on  *)
(* i and on how often the gap was configured before.  Same case format as GenC.  *)
EXTENDS CAlpha, Json, TLC
CONSTANTS Ns, K
VARIABLES stage, n, k
vars == <<stage, n, k>>
LimSeq == AscSeq(Limits)
(* the limit of a gap changes from one of its repetitions to the next *)
Table(nn, kk) == [i \in 1..nn |-> << (7 * i + kk) % (MaxGap + 1), LimSeq[((i + (i \div (MaxGap + 1)) + kk) % Len(LimSeq)) + 1] >>]
Init == stage = 0 /\ n = 0 /\ k = 0
Next == stage = 0 /\ stage' = 1 /\ \E nn \in Ns, kk \in 1..K : n' = nn /\ k' = kk
Spec == Init /\ [][Next]_vars
NG == MaxGap + 2
Emit == stage = 1 =>
        LET calls == <<Table(n, k)>>  t == Build(Empty, calls) IN
        PrintT(<<"REPLAY", ToJson([kind |-> "cons", calls |-> calls, dists |-> Dists,
                 lim |-> [i \in 1..NG |-> Limit(t, i - 1)],
                 adm |-> [i \in 1..NG |-> [j \in 1..Len(Dists) |-> IF Validate(t, i - 1, Dists[j]) THEN 1 ELSE 0]]])>>)
=============================================================================
