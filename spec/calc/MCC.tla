-------------------------------- MODULE MCC --------------------------------
(* Model checking of Constraints.tla over the alphabet of CAlpha: for every      *)
(* table, monotonicity in the distance, "first limit of a repeated gap wins",    *)
(* "the applicable limit is the one of the smallest configured gap >= gap", and  *)
(* agreement of the operational definition with the declarative one.             *)
EXTENDS CAlpha, TLC
VARIABLES stage, first, calls
vars == <<stage, first, calls>>
Init == stage = 0 /\ first = <<>> /\ calls = <<>>
Next == \/ /\ stage = 0 /\ stage' = 1 /\ calls' = calls
           /\ \E f \in {<<>>} \cup {<<p>> : p \in Pairs} : first' = f
        \/ /\ stage = 1 /\ stage' = 2 /\ first' = first
           /\ \E rest \in SeqsUpTo(IF first = <<>> THEN 0 ELSE MaxEntries - 1) :
                \E sp \in Splits(first \o rest) : calls' = sp
Spec == Init /\ [][Next]_vars
All == calls[1] \o calls[2]
Inv == stage = 2 =>
       LET t == Build(Empty, calls)  ot == OpBuild(<<>>, calls) IN
       /\ \A gap \in ProbeGaps : \A d1 \in DistSet : \A d2 \in DistSet : Monotone(t, gap, d1, d2)
       /\ \A i \in 1..Len(All) : (\A j \in 1..(i - 1) : All[j][1] # All[i][1]) => t[All[i][1]] = All[i][2]
       /\ DOMAIN t = {All[i][1] : i \in 1..Len(All)}
       /\ \A gap \in ProbeGaps :
            /\ (\A g \in DOMAIN t : g < gap) => (Limit(t, gap) = 0 /\ \A d \in DistSet : Validate(t, gap, d))
            /\ \A g \in DOMAIN t : (g >= gap /\ \A h \in DOMAIN t : h >= gap => g <= h)
                                   => (Limit(t, gap) = t[g] /\ \A d \in DistSet : (Validate(t, gap, d) <=> d <= t[g]))
            /\ \A d \in DistSet : OpValidate(ot, gap, d) = Validate(t, gap, d)
       /\ \A i \in 1..(Len(ot) - 1) : ot[i][1] < ot[i + 1][1]
(* reachability witnesses: TLC must violate these *)
W_NoDup == stage = 2 => ~(HasDupGap(All) /\ Len(calls[1]) > 0 /\ Len(calls[2]) > 0)
W_NoBetween == stage = 2 => ~(\E gap \in ProbeGaps : \E g1, g2 \in DOMAIN Build(Empty, calls) : g1 < gap /\ gap < g2)
W_NoReject == stage = 2 => \A gap \in ProbeGaps : \A d \in DistSet : Validate(Build(Empty, calls), gap, d)
=============================================================================
