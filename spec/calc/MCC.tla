---- MODULE MCC ----
EXTENDS Constraints, TLC
Pairs == {<<g, lim>> : g \in {0, 2, 5}, lim \in {10, 20}}
VARIABLES c1, c2
Init == c1 \in {<<>>} \cup {<<p>> : p \in Pairs} \cup {<<p, q>> : p \in Pairs, q \in Pairs} /\ c2 \in {<<>>} \cup {<<p>> : p \in Pairs}
Next == UNCHANGED <<c1, c2>>
Inv == LET t == Build(Empty, <<c1, c2>>) IN
       /\ \A gap \in 0..6 : \A d1 \in {5, 10, 15, 20, 25} : \A d2 \in {5, 10, 15, 20, 25} : Monotone(t, gap, d1, d2)
       /\ (c1 # <<>> => t[c1[1][1]] = c1[1][2])      \* the first configured limit of a gap wins
====
