CONSTANTS
 MaxGap = 8
 Limits = {2, 4, 8}
 MaxEntries = 3
 Ns = {20, 33, 40, 64, 100}
 K = 12
SPECIFICATION Spec
INVARIANT Emit
CHECK_DEADLOCK FALSE
