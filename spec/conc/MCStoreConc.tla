---------------------------- MODULE MCStoreConc ----------------------------
(* Model-checking and generation instance of StoreConc: a set of scenarios,   *)
(* every interleaving of caller and worker steps.  With History = TRUE each    *)
(* complete interleaving is printed (scenario, schedule, expected streams)     *)
(* and forced on the real store through the gates of the verification hook.    *)
EXTENDS StoreConc, Json, Integers
CONSTANTS History, Family    \* Family: which scenario set
VARIABLE sched
T(id, tag, st, o0, o1) == [id |-> id, tag |-> tag, st |-> st, obs |-> [c \in Classes |-> IF c = 0 THEN o0 ELSE o1]]
(* stored tracks: mixed compatibility (tag), status, classes *)
BaseTracks == << T(1, 0, "r", <<1, 3>>, <<>>), T(2, 1, "p", <<2>>, <<2>>), T(3, 0, "r", <<5>>, <<>>), T(4, 1, "r", <<>>, <<4>>) >>
Sub(n) == SubSeq(BaseTracks, 1, n)
Ext(id, tag, o0, o1) == T(id, tag, "p", o0, o1)
Scenarios ==
  CASE Family = "owned2" ->      \* two owned candidates, the F8 pattern
         {[tracks |-> Sub(3), cands |-> <<Sub(3)[1], Sub(3)[2]>>, owned |-> TRUE, cls |-> 0, baked |-> b, limit |-> 10, post |-> "all"] : b \in BOOLEAN}
    [] Family = "small" ->
         LET OwnedC == {<<BaseTracks[1]>>, <<BaseTracks[1], BaseTracks[2]>>, <<BaseTracks[2], BaseTracks[1]>>}
             ExtC   == {<<Ext(9, 0, <<2>>, <<>>)>>, <<Ext(9, 1, <<4>>, <<3>>), Ext(8, 0, <<>>, <<1>>)>>}
         IN
         {[tracks |-> Sub(n), cands |-> cs, owned |-> TRUE, cls |-> cl, baked |-> b, limit |-> lim, post |-> "all"] :
            n \in 2..4, cs \in OwnedC, cl \in Classes, b \in BOOLEAN, lim \in {1, 10}}
         \cup
         {[tracks |-> Sub(n), cands |-> cs, owned |-> FALSE, cls |-> cl, baked |-> b, limit |-> lim, post |-> "all"] :
            n \in 2..4, cs \in ExtC, cl \in Classes, b \in BOOLEAN, lim \in {1, 10}}
         \cup      \* an id that is not stored is listed among the owned candidates (first / second position): the harness
                   \* inserts it, the query is that of the stored ones
         {[tracks |-> Sub(n), cands |-> <<BaseTracks[1], BaseTracks[2]>>, owned |-> TRUE, cls |-> 0, baked |-> FALSE, limit |-> 10, post |-> "all", absent |-> k] :
            n \in 3..4, k \in {1, 2}}
         \cup      \* pair-wise post-processing that keeps a pair's best distance only (class 0 has tracks with two observations)
         {[tracks |-> Sub(n), cands |-> cs, owned |-> ow, cls |-> 0, baked |-> b, limit |-> 10, post |-> "best"] :
            n \in 3..4, ow \in {TRUE}, cs \in {<<BaseTracks[1], BaseTracks[2]>>}, b \in BOOLEAN}
         \cup
         {[tracks |-> Sub(n), cands |-> cs, owned |-> FALSE, cls |-> 0, baked |-> b, limit |-> 10, post |-> "best"] :
            n \in 3..4, cs \in {<<Ext(9, 0, <<2, 6>>, <<>>)>>, <<Ext(9, 0, <<2>>, <<>>), Ext(8, 0, <<4, 1>>, <<1>>)>>}, b \in BOOLEAN}
    [] Family = "wide" ->
         {[tracks |-> BaseTracks, cands |-> cs, owned |-> TRUE, cls |-> 0, baked |-> FALSE, limit |-> 10, post |-> "all"] :
            cs \in {<<BaseTracks[1], BaseTracks[2], BaseTracks[3]>>, <<BaseTracks[4], BaseTracks[2], BaseTracks[1]>>}}
MCInit == \E s \in Scenarios : InitWith(s) /\ sched = <<>>
Tok(a) == IF History THEN Append(sched, a) ELSE sched
MCNext == \/ Fetch /\ sched' = sched
          \/ Enq /\ sched' = sched
          \/ Sent /\ sched' = Tok("c")
          \/ ReAdd /\ sched' = sched
          \/ Collect /\ sched' = sched
          \/ \E x \in Shards : Worker(x) /\ sched' = Tok(x)
MCSpec == MCInit /\ [][MCNext]_<<vars, sched>>
RECURSIVE SetToSeq(_)
SetToSeq(S) == IF S = {} THEN <<>> ELSE LET x == CHOOSE y \in S : TRUE IN <<x>> \o SetToSeq(S \ {x})
Emit == (History /\ pc = "done") =>
          PrintT(<<"REPLAY", ToJson([sc |-> sc, ns |-> NS, sched |-> sched,
                                      ok |-> SetToSeq(ExpectedOk), err |-> SetToSeq(ExpectedErr)])>>)
(* witnesses *)
W_NeverDone == pc # "done"
W_NoErr == pc = "done" => ExpectedErr = {}
W_NoDropped == pc = "done" => \A p \in ExpectedScan : PairDists(sc.cands[p[1]], ById(sc.tracks, p[2])) # {}
=============================================================================
