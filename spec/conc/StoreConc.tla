----------------------------- MODULE StoreConc -----------------------------
(* Distance queries of the sharded track store at command granularity        *)
(* (property C10).  One caller, NS shard workers with FIFO command queues.    *)
(*                                                                           *)
(* A scenario sc fixes the stored tracks, the candidates, the feature class,  *)
(* the only_baked flag and the metric limit:                                  *)
(*   sc = [tracks : Seq(track), cands : Seq(track), owned : BOOLEAN,          *)
(*         cls, baked : BOOLEAN, limit, post]                                 *)
(* post = "all": the metric's post-processing of the results of one (candidate, *)
(*   stored track) pair keeps everything; "best": it keeps the pair's smallest   *)
(*   distance(s) only - a user hook that is applied pair by pair.                *)
(*   track = [id, tag, st, obs : [Classes -> Seq(Nat)]]                       *)
(* (owned: the candidates are the stored tracks with these ids).              *)
(*                                                                           *)
(* Caller steps, as coded:                                                    *)
(*   Fixed = TRUE  (current code): snapshot the candidates, Enq, Sent         *)
(*   Fixed = FALSE (code before the repair of F8): Fetch the candidates out,  *)
(*                 Enq, Sent, ReAdd them one by one                            *)
(* A worker step pops the head of its queue and scans its shard AS IT IS NOW. *)
EXTENDS Naturals, Sequences, FiniteSets, TLC
CONSTANTS NS, Fixed, Classes
Shards == 0..(NS-1)
VARIABLES sc, store, q, scanned, chunks, pc, readded
vars == <<sc, store, q, scanned, chunks, pc, readded>>

Ids(ts) == {ts[i].id : i \in DOMAIN ts}
ById(ts, id) == ts[CHOOSE i \in DOMAIN ts : ts[i].id = id]
Shard(id) == id % NS
NC == Len(sc.cands)

InitWith(s) == /\ sc = s /\ store = Ids(s.tracks) /\ q = [x \in Shards |-> <<>>]
               /\ scanned = {} /\ chunks = 0 /\ readded = 0
               /\ pc = (IF s.owned /\ ~Fixed THEN "fetch" ELSE "enq")
Fetch == /\ pc = "fetch" /\ store' = store \ Ids(sc.cands) /\ pc' = "enq"
         /\ UNCHANGED <<sc, q, scanned, chunks, readded>>
(* one Distances command per candidate per shard, in candidate order *)
Enq   == /\ pc = "enq" /\ q' = [x \in Shards |-> q[x] \o [i \in 1..NC |-> i]]
         /\ pc' = "sent" /\ UNCHANGED <<sc, store, scanned, chunks, readded>>
(* hook owned.sent: the caller's own step between "commands sent" and the rest *)
Sent  == /\ pc = "sent"
         /\ pc' = (IF sc.owned /\ ~Fixed /\ NC > 0 THEN "readd" ELSE "collect")
         /\ UNCHANGED <<sc, store, q, scanned, chunks, readded>>
ReAdd == /\ pc = "readd" /\ readded < NC
         /\ store' = store \cup {sc.cands[readded + 1].id} /\ readded' = readded + 1
         /\ pc' = (IF readded + 1 = NC THEN "collect" ELSE "readd")
         /\ UNCHANGED <<sc, q, scanned, chunks>>
Worker(x) == /\ q[x] # <<>>
             /\ LET ci == Head(q[x]) IN
                scanned' = scanned \cup {<<ci, o>> : o \in {y \in store : Shard(y) = x /\ y # sc.cands[ci].id}}
             /\ q' = [q EXCEPT ![x] = Tail(@)] /\ chunks' = chunks + 1
             /\ UNCHANGED <<sc, store, pc, readded>>
(* the caller has every chunk: NS * NC of each kind *)
Collect == /\ pc = "collect" /\ chunks = NS * NC /\ pc' = "done"
           /\ UNCHANGED <<sc, store, q, scanned, chunks, readded>>
Next == Fetch \/ Enq \/ Sent \/ ReAdd \/ Collect \/ \E x \in Shards : Worker(x)

(* ---- what the property requires ---- *)
Stored0 == Ids(sc.tracks)
ExpectedScan == {<<ci, o>> \in (1..NC) \X Stored0 : o # sc.cands[ci].id}
Exact == pc = "done" => (scanned = ExpectedScan /\ store = Stored0)

(* ---- the result streams as functions of the scanned pairs ---- *)
Abs(a, b) == IF a >= b THEN a - b ELSE b - a
Compatible(c, o) == c.tag <= o.tag
Visible(c, o) == (sc.baked => o.st = "r") /\ Compatible(c, o)
HasCls(t) == t.obs[sc.cls] # <<>>
(* ok stream: one element per observation pair with a metric value *)
PairDists(c, o) == IF Visible(c, o) /\ HasCls(c) /\ HasCls(o)
                   THEN {<<i, j>> \in (DOMAIN c.obs[sc.cls]) \X (DOMAIN o.obs[sc.cls]) :
                            Abs(c.obs[sc.cls][i], o.obs[sc.cls][j]) <= sc.limit}
                   ELSE {}
DOf(c, o, ij) == Abs(c.obs[sc.cls][ij[1]], o.obs[sc.cls][ij[2]])
(* post-processing, pair by pair *)
Kept(c, o) == LET P == PairDists(c, o) IN
              IF sc.post = "best" THEN {ij \in P : \A kl \in P : DOf(c, o, ij) <= DOf(c, o, kl)} ELSE P
OkOf(S) == UNION {{[from |-> sc.cands[p[1]].id, to |-> p[2], i |-> ij[1], j |-> ij[2],
                    d |-> DOf(sc.cands[p[1]], ById(sc.tracks, p[2]), ij)] :
                      ij \in Kept(sc.cands[p[1]], ById(sc.tracks, p[2]))} : p \in S}
(* error stream: compatible (and ready) pairs where the class is missing on either side *)
ErrOf(S) == {[from |-> sc.cands[p[1]].id, to |-> p[2]] :
               p \in {x \in S : /\ Visible(sc.cands[x[1]], ById(sc.tracks, x[2]))
                                /\ (~HasCls(sc.cands[x[1]]) \/ ~HasCls(ById(sc.tracks, x[2])))}}
ExpectedOk == OkOf(ExpectedScan)
ExpectedErr == ErrOf(ExpectedScan)
NeverSelf == \A p \in scanned : sc.cands[p[1]].id # p[2]
=============================================================================
