-------------------------- MODULE StoreConcTrace --------------------------
(* impl -> spec: queries executed on the real store (random contents,        *)
(* candidate batches, shard counts, random delays at the schedule points)     *)
(* are checked line by line against the result streams StoreConc requires.    *)
(* Line: {"ev":"query","ns":n,"sc":{...},"ok":[{d,from,to}],"err":[{from,to}],  *)
(*        "store":[ids],"hang":0|1}                                           *)
EXTENDS StoreConc, Json, IOUtils
Rec == ndJsonDeserialize(IOEnv.TRACE)
VARIABLE l
ConvT(t) == [id |-> t.id, tag |-> t.tag, st |-> t.st, obs |-> [c \in Classes |-> t.obs[c + 1]]]
Conv(e) == [tracks |-> [i \in DOMAIN e.sc.tracks |-> ConvT(e.sc.tracks[i])],
            cands |-> [i \in DOMAIN e.sc.cands |-> ConvT(e.sc.cands[i])],
            owned |-> e.sc.owned, cls |-> e.sc.cls, baked |-> e.sc.baked, limit |-> e.sc.limit, post |-> e.sc.post]
BagOfSeq(s) == [x \in {s[i] : i \in DOMAIN s} |-> Cardinality({i \in DOMAIN s : s[i] = x})]
BagOfSet(E, key(_)) == [x \in {key(e) : e \in E} |-> Cardinality({e \in E : key(e) = x})]
OkKey(e) == <<e.from, e.to, e.d>>
ErrKey(e) == <<e.from, e.to>>
Matches(e) ==
  /\ e.hang = 0
  /\ BagOfSeq([i \in DOMAIN e.ok |-> OkKey(e.ok[i])]) = BagOfSet(ExpectedOk, OkKey)
  /\ BagOfSeq([i \in DOMAIN e.err |-> ErrKey(e.err[i])]) = BagOfSet(ExpectedErr, ErrKey)
  /\ {e.store[i] : i \in DOMAIN e.store} = Stored0 /\ Len(e.store) = Cardinality(Stored0)
  /\ \A i \in DOMAIN e.ok : e.ok[i].from # e.ok[i].to
Unused == store = {} /\ q = <<>> /\ scanned = {} /\ chunks = 0 /\ pc = "trace" /\ readded = 0
TraceInit == l = 1 /\ sc = Conv(Rec[1]) /\ Unused
TraceNext == l < Len(Rec) /\ l' = l + 1 /\ sc' = Conv(Rec[l + 1]) /\ UNCHANGED <<store, q, scanned, chunks, pc, readded>>
TraceSpec == TraceInit /\ [][TraceNext]_<<vars, l>>
LineOK == Matches(Rec[l]) \/ (PrintT("REJECTED at line " \o ToString(<<l, Rec[l]>>)) /\ FALSE)
Accepted == TLCGet("stats").diameter = Len(Rec)
=============================================================================
