CONSTANTS
 NS = 1
 Fixed = TRUE
 Classes = {0, 1}
SPECIFICATION TraceSpec
INVARIANT LineOK
POSTCONDITION Accepted
CHECK_DEADLOCK FALSE
