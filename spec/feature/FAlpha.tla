------------------------------- MODULE FAlpha -------------------------------
(* Alphabet shared by MCF (checking) and GenF (generation): every pair of       *)
(* lengths 0..MaxLen, two generated vectors per pair, a positive factor k.       *)
EXTENDS Feature
CONSTANTS MaxLen, Salt
SeedOf(n1, n2) == (n1 * (MaxLen + 1) + n2) * 3
VecA(n1, n2) == Gen(SeedOf(n1, n2) + 1, n1, Salt)
VecB(n1, n2) == Gen(SeedOf(n1, n2) + 2, n2, Salt)
(* triples (triangle inequality): three unshifted vectors *)
TriA(n1, n2, n3) == GenU(SeedOf(n1, n2) + 1 + n3 * 50000, n1, Salt)
TriB(n1, n2, n3) == GenU(SeedOf(n1, n2) + 2 + n3 * 50000, n2, Salt)
TriC(n1, n2, n3) == GenU(SeedOf(n1, n2) + 3 + n3 * 50000, n3, Salt)
KOf(n1, n2) == 2 + ((n1 + n2) % 2)
=============================================================================
