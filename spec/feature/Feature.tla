------------------------------- MODULE Feature -------------------------------
(* Packing of float vectors into blocks of 8 lanes, and exact Euclidean /      *)
(* cosine ingredients on small-integer vectors.                                 *)
EXTENDS Integers, Sequences
Lanes == 8
Blocks(n) == IF n = 0 THEN {0, 1} ELSE {(n + Lanes - 1) \div Lanes}       \* empty vector: 0 or 1 block accepted
PackedLen(n) == ((n + Lanes - 1) \div Lanes) * Lanes
Padded(v, m) == [i \in 1..m |-> IF i <= Len(v) THEN v[i] ELSE 0]
(* deterministic pseudo-random small-integer vector of length n *)
Gen(seed, n) == [i \in 1..n |-> ((seed * 31 + i * 17 + ((i * i) % 7)) % 5) - 2]
Common(n1, n2) == IF PackedLen(n1) <= PackedLen(n2) THEN PackedLen(n1) ELSE PackedLen(n2)
RECURSIVE Sum(_, _)
Sum(f, m) == IF m = 0 THEN 0 ELSE f[m] + Sum(f, m - 1)
SqDist(a, b) == LET m == Common(Len(a), Len(b))  pa == Padded(a, m)  pb == Padded(b, m) IN
                Sum([i \in 1..m |-> (pa[i] - pb[i]) * (pa[i] - pb[i])], m)
Dot(a, b) == LET m == Common(Len(a), Len(b))  pa == Padded(a, m)  pb == Padded(b, m) IN Sum([i \in 1..m |-> pa[i] * pb[i]], m)
(* norms are taken over the common packed prefix as well *)
Norm2(a, b) == LET m == Common(Len(a), Len(b))  pa == Padded(a, m) IN Sum([i \in 1..m |-> pa[i] * pa[i]], m)
SymmetricD(a, b) == SqDist(a, b) = SqDist(b, a) /\ Dot(a, b) = Dot(b, a)
ZeroSelf(a) == SqDist(a, a) = 0
CauchySchwarz(a, b) == Dot(a, b) * Dot(a, b) <= Norm2(a, b) * Norm2(b, a)
=============================================================================
