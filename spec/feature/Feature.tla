------------------------------- MODULE Feature -------------------------------
(* Property C16.  Packing of float vectors into blocks of 8 lanes and the exact  *)
(* ingredients of the Euclidean distance and the cosine similarity on vectors of *)
(* small integers.  A value v of a vector stands for the real number v * 2^e     *)
(* (e = the case's unit exponent, applied by the replay); all sums below are in  *)
(* units of 2^e resp. 4^e and stay far below 2^24, so the f32 arithmetic of an   *)
(* implementation is exact up to the final sqrt / division.                      *)
EXTENDS Integers, Sequences
Lanes == 8
PackedLen(n) == ((n + Lanes - 1) \div Lanes) * Lanes
(* an empty vector may pack to nothing or to one zero block *)
PackedLens(n) == IF n = 0 THEN {0, Lanes} ELSE {PackedLen(n)}
Padded(v, m) == [i \in 1..m |-> IF i <= Len(v) THEN v[i] ELSE 0]
Pack(v) == Padded(v, PackedLen(Len(v)))
(* distances use the common packed prefix: the longer vector is truncated to the *)
(* packed length of the shorter one                                              *)
Common(a, b) == IF PackedLen(Len(a)) <= PackedLen(Len(b)) THEN PackedLen(Len(a)) ELSE PackedLen(Len(b))
RECURSIVE Sum(_, _)
Sum(f, m) == IF m = 0 THEN 0 ELSE f[m] + Sum(f, m - 1)
SqDist(a, b) == LET m == Common(a, b)  pa == Padded(a, m)  pb == Padded(b, m) IN
                Sum([i \in 1..m |-> (pa[i] - pb[i]) * (pa[i] - pb[i])], m)
Dot(a, b) == LET m == Common(a, b)  pa == Padded(a, m)  pb == Padded(b, m) IN Sum([i \in 1..m |-> pa[i] * pb[i]], m)
(* squared norm of a over the prefix it shares with b *)
Norm2(a, b) == LET m == Common(a, b)  pa == Padded(a, m) IN Sum([i \in 1..m |-> pa[i] * pa[i]], m)
Scale(a, k) == [i \in 1..Len(a) |-> k * a[i]]
(* euclidean(a, b) = sqrt(SqDist(a, b)) * 2^e ;  cosine(a, b) = Dot / sqrt(Norm2(a,b) * Norm2(b,a)), defined *)
(* when both norms are positive                                                                                *)
CosDefined(a, b) == Norm2(a, b) > 0 /\ Norm2(b, a) > 0
Query(x, y, a, b) == [x |-> x, y |-> y, sq |-> SqDist(a, b), dot |-> Dot(a, b), nx |-> Norm2(a, b), ny |-> Norm2(b, a),
                      cos |-> IF CosDefined(a, b) THEN 1 ELSE 0]

(* near-duplicates of large norm: a moved far from the origin, and the same with its first coordinate one unit further.
   Their distance is exactly one unit whatever the norms are (only the Euclidean distance is compared for these: the
   partial sums of a dot product of such vectors exceed what f32 carries exactly) *)
FarOffset == 1000
Off(a) == [i \in 1..Len(a) |-> a[i] + FarOffset]
Off1(a) == [i \in 1..Len(a) |-> a[i] + FarOffset + (IF i = 1 THEN 1 ELSE 0)]
QueryE(x, y, a, b) == [x |-> x, y |-> y, sq |-> SqDist(a, b), dot |-> 0, nx |-> 0, ny |-> 0, cos |-> 0]
NearDuplicateFact(a) == Len(a) >= 1 => SqDist(Off(a), Off1(a)) = 1
(* ---- the facts the property states, in exact integer form ---- *)
SymmetricD(a, b) == SqDist(a, b) = SqDist(b, a) /\ Dot(a, b) = Dot(b, a)
ZeroSelf(a) == SqDist(a, a) = 0
(* |cos| <= 1 *)
CauchySchwarz(a, b) == Dot(a, b) * Dot(a, b) <= Norm2(a, b) * Norm2(b, a)
(* cos(k a, a) = 1 and cos(-k a, a) = -1 for k > 0 and a # 0: equality in Cauchy-Schwarz with the right sign *)
Parallel(a, k) == LET ka == Scale(a, k) IN
                  CosDefined(a, a) => /\ Dot(ka, a) > 0 /\ Dot(ka, a) * Dot(ka, a) = Norm2(ka, a) * Norm2(a, ka)
Opposite(a, k) == LET na == Scale(a, -k) IN
                  CosDefined(a, a) => /\ Dot(na, a) < 0 /\ Dot(na, a) * Dot(na, a) = Norm2(na, a) * Norm2(a, na)
(* cos(k a, b) = cos(a, b): the dot product scales by k, the squared norm by k^2 *)
ScaleInv(a, b, k) == LET ka == Scale(a, k) IN Dot(ka, b) = k * Dot(a, b) /\ Norm2(ka, b) = k * k * Norm2(a, b) /\ Norm2(b, ka) = Norm2(b, a)
(* sqrt(dac) <= sqrt(dab) + sqrt(dbc)  <=>  dac - dab - dbc <= 0  \/  (dac - dab - dbc)^2 <= 4 dab dbc *)
Triangle(a, b, c) == LET dab == SqDist(a, b)  dbc == SqDist(b, c)  dac == SqDist(a, c)  r == dac - dab - dbc IN
                     r <= 0 \/ r * r <= 4 * dab * dbc
(* padding: the packed form has a multiple of 8 values, starts with the vector and ends with zeros *)
PackFacts(a) == LET p == Pack(a) IN /\ (Len(p) % Lanes) = 0 /\ Len(p) >= Len(a) /\ Len(p) < Len(a) + Lanes
                                   /\ \A i \in 1..Len(p) : p[i] = IF i <= Len(a) THEN a[i] ELSE 0

(* ---- deterministic pseudo-random vectors: values {-2..2} * 2^shift, shift in 0..2 ---- *)
P == 46337                                 \* prime, P * P < 2^31
Mix(s, i, salt) == LET x == ((s % P) * 7919 + i * 10477 + (salt % P) * 611) % P
                       y == (((x * x) % P) + 3 * x + 7) % P
                   IN (y * y) % P
Pow2(k) == IF k = 0 THEN 1 ELSE IF k = 1 THEN 2 ELSE 4
Gen(s, n, salt) == LET sh == Pow2((Mix(s, 0, salt) \div 7) % 3) IN
                   [i \in 1..n |-> (((Mix(s, i, salt) \div 7) % 5) - 2) * sh]
(* the same without the shift: values {-2..2} (keeps the products of the triangle form below 2^31) *)
GenU(s, n, salt) == [i \in 1..n |-> ((Mix(s, i, salt) \div 7) % 5) - 2]
(* the point beyond b on the line from a through b, at twice the distance: the triangle a, b, Far is flat *)
Far(a, b, m) == LET pa == Padded(a, m)  pb == Padded(b, m) IN [i \in 1..m |-> 2 * pb[i] - pa[i]]
FlatTriangle(a, b, m) == LET c == Far(a, b, m)  dab == SqDist(a, b)  dbc == SqDist(b, c)  dac == SqDist(a, c)  r == dac - dab - dbc IN
                         r >= 0 /\ r * r = 4 * dab * dbc
=============================================================================
