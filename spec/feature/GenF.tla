---- MODULE GenF ----
EXTENDS Feature, Json, TLC
VARIABLES n1, n2, done
GInit == n1 \in 0..40 /\ n2 \in 0..40 /\ done = FALSE
GNext == done = FALSE /\ done' = TRUE /\ UNCHANGED <<n1, n2>>
Emit == done => LET a == Gen(1, n1)  b == Gen(2, n2) IN
        PrintT(<<"REPLAY", ToJson([kind |-> "feat", a |-> a, b |-> b, plen |-> PackedLen(n1), sq |-> SqDist(a, b), dot |-> Dot(a, b), na |-> Norm2(a, b), nb |-> Norm2(b, a)])>>)
====
