-------------------------------- MODULE GenF --------------------------------
(* One case per pair of lengths: the two vectors in packed (zero padded) form,  *)
(* the admissible packed lengths, and for each query (x, y) over the names       *)
(*   a, b, ka = k a, nka = -k a                                                  *)
(* the exact integers sum (x-y)^2, x.y, |x|^2, |y|^2 over the common packed      *)
(* prefix.  Pairs with an empty vector are checked for packing only.             *)
EXTENDS FAlpha, Json, TLC
VARIABLES stage, n1, n2
vars == <<stage, n1, n2>>
Init == stage = 0 /\ n1 = 0 /\ n2 = 0
Next == \/ stage = 0 /\ stage' = 1 /\ n1' \in 0..MaxLen /\ UNCHANGED n2
        \/ stage = 1 /\ stage' = 2 /\ n2' \in 0..MaxLen /\ UNCHANGED n1
Spec == Init /\ [][Next]_vars
AscSeq(S) == IF 0 \in S THEN <<0, Lanes>> ELSE <<CHOOSE x \in S : TRUE>>
UnitExp(a, b) == (((a + 2 * b) % 3) - 1) * 10            \* unit exponent e in {-10, 0, 10}
Emit == stage = 2 =>
        Assert(NearDuplicateFact(VecA(n1, n2)), "near duplicates are one unit apart") /\
        LET a == VecA(n1, n2)  b == VecB(n1, n2)  k == KOf(n1, n2)  ka == Scale(a, k)  nka == Scale(a, -k) IN
        PrintT(<<"REPLAY", ToJson([kind |-> "feat", n1 |-> n1, n2 |-> n2, e |-> UnitExp(n1, n2), k |-> k,
                 pa |-> Pack(a), pb |-> Pack(b), la |-> AscSeq(PackedLens(n1)), lb |-> AscSeq(PackedLens(n2)),
                 q |-> IF n1 = 0 \/ n2 = 0 THEN <<>>
                       ELSE << Query("a", "b", a, b), Query("b", "a", b, a), Query("a", "a", a, a), Query("b", "b", b, b),
                               Query("ka", "a", ka, a), Query("nka", "a", nka, a), Query("ka", "b", ka, b), Query("b", "nka", b, nka),
                               QueryE("fa", "fa1", Off(a), Off1(a)), QueryE("fa1", "fa", Off1(a), Off(a)), QueryE("fa", "fa", Off(a), Off(a)) >>])>>)
=============================================================================
