---- MODULE MCF ----
EXTENDS Feature, TLC
VARIABLES n1, n2
Init == n1 \in 0..40 /\ n2 \in 0..40
Next == UNCHANGED <<n1, n2>>
Inv == LET a == Gen(1, n1)  b == Gen(2, n2) IN SymmetricD(a, b) /\ ZeroSelf(a) /\ CauchySchwarz(a, b)
====
