-------------------------------- MODULE MCF --------------------------------
(* TLC checks the algebraic facts of Feature.tla over every pair of lengths     *)
(* (Mode "pairs") and the triangle inequality over every triple of lengths with *)
(* the same packed length (Mode "triples").                                      *)
EXTENDS FAlpha, TLC
CONSTANTS Mode
VARIABLES stage, n1, n2, n3
vars == <<stage, n1, n2, n3>>
Init == stage = 0 /\ n1 = 0 /\ n2 = 0 /\ n3 = 0
Same(n) == {m \in 1..MaxLen : PackedLen(m) = PackedLen(n)}
Next == \/ stage = 0 /\ stage' = 1 /\ n1' \in (IF Mode = "pairs" THEN 0..MaxLen ELSE 1..MaxLen) /\ UNCHANGED <<n2, n3>>
        \/ stage = 1 /\ Mode = "pairs" /\ stage' = 2 /\ n2' \in 0..MaxLen /\ UNCHANGED <<n1, n3>>
        \/ stage = 1 /\ Mode = "triples" /\ stage' = 2 /\ n2' \in Same(n1) /\ n3' \in Same(n1) /\ UNCHANGED n1
Spec == Init /\ [][Next]_vars
Inv == stage = 2 =>
       IF Mode = "pairs"
       THEN LET a == VecA(n1, n2)  b == VecB(n1, n2)  k == KOf(n1, n2) IN /\ SymmetricD(a, b) /\ ZeroSelf(a) /\ ZeroSelf(b) /\ CauchySchwarz(a, b) /\ CauchySchwarz(Scale(a, k), b)
            /\ Parallel(a, k) /\ Opposite(a, k) /\ ScaleInv(a, b, k) /\ PackFacts(a) /\ PackFacts(b)
            /\ Len(Pack(a)) \in PackedLens(n1)
       ELSE LET a == TriA(n1, n2, n3)  b == TriB(n1, n2, n3)  c == TriC(n1, n2, n3) IN
            /\ Triangle(a, b, c) /\ Triangle(b, c, a) /\ Triangle(c, a, b) /\ Triangle(a, a, b) /\ Triangle(a, b, b)
            /\ FlatTriangle(a, b, PackedLen(n1)) /\ Triangle(a, b, Far(a, b, PackedLen(n1)))
(* reachability witnesses (TLC must violate them) *)
W_NoTruncation == stage = 2 => ~(n1 > 0 /\ n2 > 0 /\ PackedLen(n1) # PackedLen(n2) /\ SqDist(VecA(n1, n2), VecB(n1, n2)) > 0)
W_NoNegativeCos == stage = 2 => Dot(VecA(n1, n2), VecB(n1, n2)) >= 0
W_NoTightTriangle == stage = 2 /\ Mode = "triples" =>
       LET a == TriA(n1, n2, n3)  b == TriB(n1, n2, n3)  c == TriC(n1, n2, n3) IN SqDist(a, c) <= SqDist(a, b) + SqDist(b, c)
=============================================================================
