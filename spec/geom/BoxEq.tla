-------------------------------- MODULE BoxEq --------------------------------
(* Tolerance equality of boxes (property C19).  A box is a vector of coordinates *)
(*   BoundingBox    : <<left, top, width, height, confidence>>                    *)
(*   Universal2DBox : <<xc, yc, angle, aspect, height>>                           *)
(* in integer units of EPS / 10 (EPS = 1e-5 in the crate, so the unit is 1e-6).  *)
(* Two boxes are equal iff every coordinate differs by less than EPS.  The        *)
(* verdict is REQUIRED only outside a band around EPS (|d| <= 0.9 EPS: equal,     *)
(* |d| >= 1.1 EPS: unequal); inside the band it is left open (f32 rounding).      *)
EXTENDS Integers, Sequences
Eps == 10
Mag(a) == IF a < 0 THEN -a ELSE a
Eq(u, v) == \A i \in DOMAIN u : Mag(u[i] - v[i]) < Eps
Bump(u, i, d) == [u EXCEPT ![i] = @ + d]
Deltas == {0, 5, -5, 9, -9, 11, -11, 20, -20, 1000, -1000}
(* required verdict for a pair differing in exactly one coordinate by d (a band around EPS is left open) *)
Required(d) == IF Mag(d) <= 9 THEN "equal" ELSE IF Mag(d) >= 11 THEN "unequal" ELSE "open"
(* ... and for two arbitrary vectors *)
RequiredVec(u, v) == IF \A i \in DOMAIN u : Mag(u[i] - v[i]) <= 9 THEN "equal"
                     ELSE IF \E i \in DOMAIN u : Mag(u[i] - v[i]) >= 11 THEN "unequal" ELSE "open"
(* one box has no angle (it counts as angle 0), the other has one: the pair must be unequal when the angle is beyond EPS;
   whether "no angle" equals "angle within EPS of 0" is left open; the verdict must not depend on the argument order *)
RequiredMixed(u, v) == IF RequiredVec(u, v) = "unequal" THEN "unequal" ELSE "open"
(* ---- facts ---- *)
EqSymmetric(u, v) == Eq(u, v) = Eq(v, u)
EqReflexive(u) == Eq(u, u)
VerdictAgrees(u, v) == /\ (RequiredVec(u, v) = "equal" => Eq(u, v)) /\ (RequiredVec(u, v) = "unequal" => ~Eq(u, v))
                       /\ RequiredVec(u, v) = RequiredVec(v, u)
OneCoordinate(u, i, d) == RequiredVec(u, Bump(u, i, d)) = Required(d)
EqFacts(u, v) == EqSymmetric(u, v) /\ EqReflexive(u) /\ EqReflexive(v) /\ VerdictAgrees(u, v)
=============================================================================
