-------------------------------- MODULE BoxEq --------------------------------
(* Tolerance equality on coordinate vectors; unit = EPS / 10.                  *)
EXTENDS Integers, Sequences
Eps == 10
Abs(a) == IF a < 0 THEN -a ELSE a
Eq(u, v) == \A i \in DOMAIN u : Abs(u[i] - v[i]) < Eps
Bump(u, i, d) == [u EXCEPT ![i] = @ + d]
Deltas == {0, 5, -5, 9, -9, 11, -11, 20, -20, 1000, -1000}
(* required verdict for a pair differing in exactly one coordinate by d (a band around EPS is left open) *)
Required(d) == IF Abs(d) <= 9 THEN "equal" ELSE IF Abs(d) >= 11 THEN "unequal" ELSE "open"
Symmetric(u, v) == Eq(u, v) = Eq(v, u)
Reflexive(u) == Eq(u, u)
=============================================================================
