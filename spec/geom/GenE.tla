---- MODULE GenE ----
(* Generation instance for property C19: one JSON line per case.                                  *)
(*   "conv" : a box without angle, its left-top-width-height form (quarter-units) and back         *)
(*   "poly" : a box with a quarter-turn angle, its vertices / area / centre / radius^2             *)
(*   "eq"   : two coordinate vectors (units of 1e-6 = EPS / 10) and the required verdict            *)
(*   "norm" : an angle k * pi / 8 and its normal form (k mod 16) * pi / 8                            *)
EXTENDS Lattice, BoxEq, Json
CONSTANTS Tier
VARIABLES stage, c
vars == <<stage, c>>
T(q, th) == IF Tier = "quick" THEN q ELSE th
Boxes == [x : T({-3, 0, 1, 4}, -4..4), y : T({-2, 1}, {-2, 0, 1, 3}), w : T({1, 2, 5}, {1, 2, 3, 5, 8}), h : T({1, 4}, {1, 2, 4, 7}),
          k : T({0, 1, 2, 3, -1, -4, 5, -6}, -9..9)]
PJ(bx) == [x |-> bx.x, y |-> bx.y, w |-> bx.w, h |-> bx.h, k |-> bx.k]
(* coordinate alphabets for equality, in units of 1e-6; "big" bases only meet deltas an f32 can carry *)
Pos == {-1500000, 0, 2000000}
Pos2 == {500000, -250000}
Size == {10000, 1000000, 3000000}
Asp == {500000, 1000000, 2000000}
BigPos == {1024000000}
BigSize == {512000000}
BigDeltas == {0, 1000, -1000}
BBoxVecs(big) == IF big THEN {<<l, t, w, h, 500000>> : l \in BigPos, t \in {0}, w \in BigSize, h \in {1000000}}
                 ELSE {<<l, t, w, h, cf>> : l \in Pos, t \in Pos2, w \in Size, h \in Size, cf \in {500000}}
UnivVecs(big) == IF big THEN {<<x, y, 0, a, h>> : x \in {0}, y \in BigPos, a \in {1000000}, h \in BigSize}
                 ELSE {<<x, y, 0, a, h>> : x \in Pos, y \in Pos2, a \in Asp, h \in Size}
Angles == {0, 1, -2, 5, 99}          \* quarter turns of the base angle; 99 = no angle (then the angle coordinate is not varied)
MixedAngles == {98, 97}              \* 98: the first box has no angle, the second has the angle coordinate; 97: the other way round
FieldName(ty, i) == IF ty = "bbox" THEN <<"left", "top", "width", "height", "confidence">>[i]
                    ELSE <<"xc", "yc", "angle", "aspect", "height">>[i]
EqCase(ty, u, v, k, field) ==
  [kind |-> "eq", ty |-> ty, u |-> u, v |-> v, k |-> k, field |-> field,
   req |-> IF k \in MixedAngles THEN RequiredMixed(u, v) ELSE RequiredVec(u, v), eqspec |-> Eq(u, v)]
PairsOfDeltas == {<<5, -9>>, <<-9, 9>>, <<5, 11>>, <<-20, 5>>, <<11, -11>>, <<9, 1000>>}

Init == stage = 0 /\ c = [kind |-> "init"]
Next ==
  \/ /\ stage = 0 /\ stage' = 1
     /\ \/ \E k \in {b.k : b \in Boxes} : c' = [g |-> "poly", k |-> k]
        \/ \E x \in {b.x : b \in Boxes} : c' = [g |-> "conv", x |-> x]
        \/ \E ty \in {"bbox", "univ"}, i \in 1..5, big \in BOOLEAN : c' = [g |-> "eq", ty |-> ty, i |-> i, big |-> big]
        \/ \E ty \in {"bbox", "univ"}, i \in 1..4 : c' = [g |-> "eq2", ty |-> ty, i |-> i]
        \/ \E s \in {-1, 1} : c' = [g |-> "norm", s |-> s]
  \/ /\ stage = 1 /\ stage' = 2
     /\ \/ /\ c.g = "poly"
           /\ \E b \in Boxes : b.k = c.k /\
                c' = [kind |-> "poly", box |-> PJ(b), vertices |-> VertexSeq(b), area16 |-> Area16(b), centre |-> Centre4(b),
                      r16 |-> R16(b), shoelace2 |-> Shoelace2(VertexSeq(b))]
        \/ /\ c.g = "conv"
           /\ \E b \in Boxes : b.x = c.x /\ b.k = 0 /\
                c' = [kind |-> "conv", box |-> PJ(b), ltwh |-> ToLtwh(b), back |-> PJ(FromLtwh(ToLtwh(b))), aspect |-> Aspect(b)]
        \/ /\ c.g = "eq"
           /\ \E u \in (IF c.ty = "bbox" THEN BBoxVecs(c.big) ELSE UnivVecs(c.big)), d \in (IF c.big THEN BigDeltas ELSE Deltas),
                 k \in (IF c.ty = "bbox" THEN {99} ELSE IF c.i = 3 THEN Angles \cup MixedAngles ELSE Angles) :
                /\ ~(c.ty = "univ" /\ c.i = 3 /\ k = 99)
                /\ Assert(OneCoordinate(u, c.i, d), "BoxEq: one-coordinate verdict")
                /\ c' = EqCase(c.ty, u, Bump(u, c.i, d), k, FieldName(c.ty, c.i))
        \/ /\ c.g = "eq2"
           /\ \E u \in (IF c.ty = "bbox" THEN BBoxVecs(FALSE) ELSE UnivVecs(FALSE)), j \in (c.i + 1)..5, dd \in PairsOfDeltas :
                /\ u[1] = 0 /\ u[2] = 500000
                /\ c' = EqCase(c.ty, u, Bump(Bump(u, c.i, dd[1]), j, dd[2]), IF c.ty = "bbox" THEN 99 ELSE 1,
                               FieldName(c.ty, c.i) \o "+" \o FieldName(c.ty, j))
        \/ /\ c.g = "norm"
           /\ \E m \in 0..128 : ~(c.s = -1 /\ m = 0) /\ c' = [kind |-> "norm", k |-> c.s * m, n |-> 16, exp |-> NormTurn(c.s * m, 16)]
Spec == Init /\ [][Next]_vars
Emit == stage = 2 => PrintT(<<"REPLAY", ToJson(c)>>)
====
