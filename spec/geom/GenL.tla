---- MODULE GenL ----
(* emits lattice cases: pairs (IoU, too_far), own-area sets, NMS lists *)
EXTENDS Nms, Json
Boxes == [x : {-2, 0, 1, 3}, y : {0, 1}, w : {2, 4}, h : {2, 6}, k : {0, 1, 5, -2}]
VARIABLES mode, a, b, c, done
PJ(bx) == [x |-> bx.x, y |-> bx.y, w |-> bx.w, h |-> bx.h, k |-> bx.k]
Init == mode \in {"pair", "own"} /\ a \in Boxes /\ b \in Boxes /\ c \in Boxes /\ done = FALSE
        /\ (mode = "pair" => c = CHOOSE z \in Boxes : TRUE)
        /\ (mode = "own" => (a.k = 0 /\ b.k \in {0, 1} /\ c.k \in {0, -2} /\ a.y = 0 /\ c.h = 2))
Next == done = FALSE /\ done' = TRUE /\ UNCHANGED <<mode, a, b, c>>
Emit == done => PrintT(<<"REPLAY", ToJson(
          IF mode = "pair"
          THEN [kind |-> "pair", a |-> PJ(a), b |-> PJ(b), inter16 |-> L!Inter16(a, b), union16 |-> L!Union16(a, b),
                toofar |-> L!TooFar(a, b), touching |-> L!Touching(a, b), areaA16 |-> L!Area16(a), r16 |-> L!R16(a)]
          ELSE [kind |-> "own", boxes |-> <<PJ(a), PJ(b), PJ(c)>>,
                own |-> [i \in 1..3 |-> L!Own(<<a, b, c>>, i)], cells |-> [i \in 1..3 |-> Cardinality(L!Cells(<<a, b, c>>[i]))]])>>)
====
