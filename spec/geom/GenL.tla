---- MODULE GenL ----
(* Generation instance of Lattice.tla: one JSON line per case with the exact values the           *)
(* specification computes.                                                                          *)
(*   Mode = "pair"   : every ordered pair (first alphabet x second alphabet)          -> C08      *)
(*   Mode = "sliver" : large boxes whose overlap is a sliver, replayed 10 000 times smaller  -> C08   *)
(*                     (boxes of side 0.1 .. 0.2 whose overlap has an area of a few 1e-6)            *)
(*   Mode = "own"    : every multiset of 1..3 boxes of the own-area alphabet           -> C15      *)
(*   Mode = "ownsim" : random lists of 4..8 axis-aligned boxes (TLC -simulate)         -> C15      *)
(* Two-stage Next: the first box is chosen in the first step so that TLC's workers share the rest. *)
EXTENDS Lattice, Json
CONSTANTS Mode, Tier      \* Tier: "quick" | "thorough" (TLC configuration files cannot hold negative numbers)
VARIABLES stage, c
vars == <<stage, c>>
T(q, th) == IF Tier = "quick" THEN q ELSE th
(* pairs: the first box sits near the origin (common translations are applied by the replay harness) *)
XA == {0, 1}
YA == T({0}, {0, 1})
WA == {1, 2, 4}
HA == T({2, 3}, {2, 3, 6})
KA == T({0, 1, -2, 5}, {0, 1, -2, 5, 3, -8})
XB == T(-4..4, -5..5)
YB == T({-3, -1, 0, 1, 2}, {-4, -3, -1, 0, 1, 2, 4})
WB == {1, 2, 4}
HB == T({2, 3}, {2, 3, 6})
KB == T({0, 1, 2, -1}, {0, 1, 2, -1, -4, 7})
(* slivers: a is 1000 x 1000 (or 1000 x 2000) units, b overlaps it by half a unit / one unit / touches / misses it;
   the replay shrinks the pair by SliverScale, so the overlap is 5e-5 wide on boxes of side 0.1 *)
SliverScale == <<1, 10000>>
SA == [x : {0}, y : {0}, w : {2000}, h : {2000, 4000}, k : {0, 1}]
SB == [x : {1998, 1999, 2000, 2001, -1999}, y : {0, 500, 1999}, w : {2000}, h : {2000}, k : {0, 2, -1}]
ABoxes == [x : XA, y : YA, w : WA, h : HA, k : KA]
BBoxes == [x : XB, y : YB, w : WB, h : HB, k : KB]
(* own areas: lists <<a>>, <<a, b>>, <<a, b, d>> with a axis-aligned, b possibly rotated by a quarter turn and d by
   minus a half turn (so shared edges, identical boxes, nested boxes and right-angle rotations all occur; the replay
   harness tries every order of the list).  At most two boxes of a list carry an angle.                            *)
OX == T({-2, 0, 1}, {-2, 0, 1, 3})
OY == {0, 1}
OW == {2, 4}
OH == T({2, 6}, {2, 3, 6})
OBoxes(ks) == [x : OX, y : OY, w : OW, h : OH, k : ks]
(* random lists of 4..8 boxes without angle (an angle k * pi / 2 is never exact in f32, and the boolean operations of
   the geo crate fail on some almost-degenerate lists - finding F10; such lists are enumerated, not drawn at random,
   so that each failing input is known by name)                                                                   *)
SBoxes == [x : -3..3, y : -2..2, w : {1, 2, 4}, h : {2, 3, 6}, k : {0}]
Code(b) == ((((b.x + 50) * 100 + (b.y + 50)) * 20 + b.w) * 20 + b.h) * 40 + (b.k + 20)      \* a total order on boxes

PJ(bx) == [x |-> bx.x, y |-> bx.y, w |-> bx.w, h |-> bx.h, k |-> bx.k]
PairCase(a, b) ==
  [kind |-> "pair", a |-> PJ(a), b |-> PJ(b), inter16 |-> Inter16(a, b), union16 |-> Union16(a, b),
   areaA16 |-> Area16(a), areaB16 |-> Area16(b), toofar |-> TooFar(a, b), touching |-> Touching(a, b),
   d16 |-> D16(a, b), ra16 |-> R16(a), rb16 |-> R16(b), cls |-> Class(a, b), edge |-> SharedEdgeLine(a, b),
   aligned |-> (a.k % 2 = 0 /\ b.k % 2 = 0)]
(* sliver pairs: the pre-filter verdict is left open here (its integer form squares numbers that do not fit TLC's integers
   at this size); an overlapping pair is never "too far" (MCL checks I > 0 => ~TooFar), which the replay still requires *)
SliverCase(a, b) ==
  [kind |-> "pair", a |-> PJ(a), b |-> PJ(b), inter16 |-> Inter16(a, b), union16 |-> Union16(a, b),
   areaA16 |-> Area16(a), areaB16 |-> Area16(b), toofar |-> FALSE, touching |-> TRUE,
   d16 |-> D16(a, b), ra16 |-> R16(a), rb16 |-> R16(b), cls |-> Class(a, b), edge |-> SharedEdgeLine(a, b),
   aligned |-> (a.k % 2 = 0 /\ b.k % 2 = 0), scale |-> SliverScale]
OwnCase(bs) ==
  [kind |-> "own", boxes |-> [i \in DOMAIN bs |-> PJ(bs[i])], own |-> [i \in DOMAIN bs |-> Own(bs, i)],
   cells |-> [i \in DOMAIN bs |-> Cardinality(Cells(bs[i]))]]

Init == stage = 0 /\ c = [kind |-> "init"]
Next ==
  \/ /\ stage = 0 /\ Mode = "pair" /\ stage' = 1 /\ \E a \in ABoxes : c' = [a |-> a]
  \/ /\ stage = 1 /\ Mode = "pair" /\ stage' = 2 /\ \E b \in BBoxes : c' = PairCase(c.a, b)
  \/ /\ stage = 0 /\ Mode = "sliver" /\ stage' = 1 /\ \E a \in SA : c' = [a |-> a]
  \/ /\ stage = 1 /\ Mode = "sliver" /\ stage' = 2 /\ \E b \in SB : c' = SliverCase(c.a, b)
  \/ /\ stage = 0 /\ Mode = "own" /\ stage' = 1 /\ \E a \in OBoxes({0}) : c' = [a |-> a]
  \/ /\ stage = 1 /\ Mode = "own" /\ stage' = 2
     /\ \/ c' = OwnCase(<<c.a>>)
        \/ \E b \in OBoxes({0, 1}) : (b.k = 0 => Code(c.a) <= Code(b)) /\ c' = OwnCase(<<c.a, b>>)
        \/ \E b \in OBoxes({0, 1}), d \in OBoxes({0, -2}) :
              /\ (b.k = 0 => Code(c.a) <= Code(b)) /\ (d.k = 0 => Code(c.a) <= Code(d)) /\ ((b.k = 0 /\ d.k = 0) => Code(b) <= Code(d))
              /\ c' = OwnCase(<<c.a, b, d>>)
  \/ /\ stage = 0 /\ Mode = "ownsim" /\ stage' = 1 /\ \E n \in 4..8 : c' = [n |-> n, bs |-> <<>>]
  \/ /\ stage = 1 /\ Mode = "ownsim" /\ Len(c.bs) < c.n /\ stage' = 1
     /\ \E b \in SBoxes : c' = [c EXCEPT !.bs = Append(@, b)]
  \/ /\ stage = 1 /\ Mode = "ownsim" /\ Len(c.bs) = c.n /\ stage' = 2 /\ c' = OwnCase(c.bs)
Spec == Init /\ [][Next]_vars
Emit == stage = 2 => PrintT(<<"REPLAY", ToJson(c)>>)
====
