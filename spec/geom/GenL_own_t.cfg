CONSTANTS
 Mode = "own"
 Tier = "thorough"
SPECIFICATION Spec
INVARIANT Emit
CHECK_DEADLOCK FALSE
