CONSTANTS
 Mode = "ownsim"
 Tier = "quick"
SPECIFICATION Spec
INVARIANT Emit
CHECK_DEADLOCK FALSE
