CONSTANTS
 Mode = "pair"
 Tier = "quick"
SPECIFICATION Spec
INVARIANT Emit
CHECK_DEADLOCK FALSE
