CONSTANTS
 Mode = "pair"
 Tier = "thorough"
SPECIFICATION Spec
INVARIANT Emit
CHECK_DEADLOCK FALSE
