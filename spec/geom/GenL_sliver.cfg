CONSTANTS
 Mode = "sliver"
 Tier = "quick"
SPECIFICATION Spec
INVARIANT Emit
CHECK_DEADLOCK FALSE
