---- MODULE GenN ----
EXTENDS Nms, Json
Bx == [x : {0, 1, 2}, y : {0}, w : {2, 4}, h : {2, 3, 0}, k : {0, 1}]
Scores == {-1, 500, 2500, 2600}
VARIABLES dets, thr, sthr, done
Dt == [box : Bx, score : Scores]
Init == /\ dets \in [1..3 -> Dt] /\ thr \in {<<3, 10>>, <<7, 10>>} /\ sthr \in {-1, 400, 2550} /\ done = FALSE
        \* distinct ranks among valid, passing detections keep the expected output unique
        /\ \A i, j \in 1..3 : (i # j /\ Passes(dets[i], sthr) /\ Passes(dets[j], sthr)) => Rank(dets[i]) # Rank(dets[j])
        /\ dets[1].box.x <= dets[2].box.x
Next == done = FALSE /\ done' = TRUE /\ UNCHANGED <<dets, thr, sthr>>
Emit == done => PrintT(<<"REPLAY", ToJson([kind |-> "nms", dets |-> dets, thr |-> thr, sthr |-> sthr, out |-> Nms(dets, thr, sthr)])>>)
====
