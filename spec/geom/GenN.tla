-------------------------------- MODULE GenN --------------------------------
(* Generation instance for property C14: one JSON line per case                    *)
(*   [dets, thr, sthr, outs, nt]                                                    *)
(* where outs is the set of lists Nms.tla admits (a single list unless ranks tie)   *)
(* and nt = 1 iff some box is suppressed while a box other than the top survives.   *)
(*                                                                                  *)
(* Mode "enum": every list of MinLen..MaxLen detections over the alphabet Alpha, every   *)
(*   score pattern / score threshold (none, below, on, inside, above the score      *)
(*   range) and every nms threshold of the grid.  Inputs are enumerated in Next in  *)
(*   two stages (first detection, then the rest) so that TLC parallelises.          *)
(* Mode "sim": for `tlc -simulate`: lists grown one random box at a time over a     *)
(*   large lattice, ranks distinct by construction, emitted at the lengths in       *)
(*   SimLens (up to 40).                                                            *)
(* Skipped: cases in which a cover ratio equals the nms threshold exactly (a float  *)
(*   implementation may decide either way) and, unless Ties, cases with equal ranks *)
(*   among the boxes that pass the filter.                                          *)
EXTENDS Nms, Json
CONSTANTS Mode,     \* "enum" | "sim"
          Alpha,    \* "tiny" | "small" | "full" | "elong" : box alphabet
          MinLen,   \* shortest list (enum)
          MaxLen,   \* longest list (enum)
          Grid,     \* "quick" | "full" : nms threshold grid
          Ties      \* TRUE: emit rank-tied cases with every admissible list
VARIABLES stage, c
vars == <<stage, c>>

B(x, y, w, h, k, na) == [x |-> x, y |-> y, w |-> w, h |-> h, k |-> k, na |-> na]
(* half-unit lattice boxes: centre (x/2, y/2), width w/2, height h/2, angle k quarter turns (na = 1: angle None) *)
Nested    == { B(0, 0, 8, 6, 0, 1), B(0, 0, 6, 4, 0, 0), B(0, 0, 2, 2, 0, 1), B(1, 1, 4, 3, 0, 0) }
Clustered == { B(2, 0, 8, 6, 0, 0), B(4, 1, 8, 6, 0, 1), B(0, 3, 6, 4, 0, 1), B(3, 1, 6, 4, 0, 0),
               B(-2, -1, 6, 8, 0, 1), B(1, -2, 4, 2, 0, 0), B(5, 2, 3, 3, 0, 1), B(-3, 2, 5, 4, 0, 0) }
Rotated   == { B(0, 0, 8, 4, 1, 0), B(1, 0, 6, 2, 1, 0), B(1, 1, 4, 8, 1, 0), B(2, 2, 6, 3, 1, 0),
               B(0, 0, 6, 4, 3, 0), B(1, 1, 4, 3, 2, 0), B(-1, 1, 3, 6, 3, 0), B(3, -1, 2, 8, 5, 0),
               B(0, 0, 6, 8, 1, 0) }             \* the last one covers the same region as B(0,0,8,6,0)
Sparse    == { B(30, 30, 4, 4, 0, 1), B(30, 0, 6, 3, 1, 0), B(-30, 5, 2, 6, 0, 0), B(0, 40, 4, 2, 2, 0) }
Invalid   == { B(0, 0, 0, 4, 0, 1), B(0, 0, 4, 0, 0, 0), B(1, 1, -2, 4, 0, 1), B(0, 0, 4, -2, 1, 0), B(2, 0, 0, 0, 0, 1), B(0, 0, -4, -2, 0, 1), B(1, 0, -6, -8, 0, 0) }
Full  == Nested \cup Clustered \cup Rotated \cup Sparse \cup Invalid          \* 30 boxes
Small == { B(0, 0, 8, 6, 0, 1), B(0, 0, 6, 4, 0, 0), B(0, 0, 2, 2, 0, 1), B(1, 1, 4, 3, 0, 0),
           B(2, 0, 8, 6, 0, 0), B(0, 3, 6, 4, 0, 1), B(3, 1, 6, 4, 0, 0), B(-2, -1, 6, 8, 0, 1),
           B(0, 0, 8, 4, 1, 0), B(1, 0, 6, 2, 1, 0), B(2, 2, 6, 3, 1, 0), B(1, 1, 4, 3, 2, 0), B(0, 0, 6, 8, 1, 0),
           B(30, 30, 4, 4, 0, 1), B(0, 0, 0, 4, 0, 1), B(0, 0, 4, 0, 0, 0), B(0, 0, -4, -2, 0, 1) }          \* 17 boxes (negative width AND height: positive aspect, negative height)
Tiny  == { B(0, 0, 8, 6, 0, 1), B(0, 0, 6, 4, 0, 0), B(1, 1, 4, 3, 0, 0), B(2, 0, 8, 6, 0, 0),
           B(1, 0, 6, 2, 1, 0), B(2, 2, 6, 3, 1, 0), B(-2, -1, 6, 8, 0, 1), B(0, 0, 4, 0, 0, 0) }           \* 8 boxes
(* long thin boxes in a row: a short, higher one whose circumscribed circle stops short of the centre of a long, lower one
   that it nevertheless covers by 0.325 (19.5 x 1 of 60 x 1) - a distance pre-check must look at BOTH radii; the same pair
   turned by a quarter turn, and two bystanders *)
Elong == { B(0, 0, 40, 3, 0, 1), B(41, 0, 120, 2, 0, 0), B(0, 0, 40, 3, 1, 0), B(0, 41, 120, 2, 1, 0), B(0, 0, 8, 6, 0, 1), B(30, 30, 4, 4, 0, 1) }
Boxes == IF Alpha = "full" THEN Full ELSE IF Alpha = "small" THEN Small ELSE IF Alpha = "elong" THEN Elong ELSE Tiny

Thrs == IF Grid = "full" THEN {<<1, 10>>, <<3, 10>>, <<1, 2>>, <<7, 10>>, <<9, 10>>} ELSE {<<3, 10>>, <<7, 10>>}
(* score patterns by position (hundredths; NoScore = no score; zero and negative scores are scores like any other) with their score thresholds:
   none / below / equal to a score / inside / above the score range.  Heights rank as 50 h = 100 .. 400 *)
Configs ==
  {<<p, s>> : p \in {<<NoScore, NoScore, NoScore, NoScore>>}, s \in {NoScore, 90}} \cup
  {<<p, s>> : p \in {<<20, 40, 60, 80>>}, s \in {NoScore, 10, 40, 50, 90}} \cup
  {<<p, s>> : p \in {<<NoScore, 130, NoScore, 70>>, <<170, NoScore, 250, NoScore>>}, s \in {NoScore, 130, 300}} \cup
  {<<p, s>> : p \in {<<0, -40, 60, -120>>, <<-30, 0, -250, NoScore>>}, s \in {NoScore, -300, -40, 0}}

Case(dets, thr, sthr) ==
  [kind |-> "nms", dets |-> dets, thr |-> thr, sthr |-> sthr,
   outs |-> NmsAll(dets, thr, sthr), nt |-> IF Interesting(dets, thr, sthr) THEN 1 ELSE 0]
Emittable(dets, thr, sthr) == ~KnifeEdge(dets, thr, sthr) /\ (Ties \/ TieFree(dets, sthr))
(* the specification's own facts, asserted on every emitted case (cheap forms; MCN checks uniqueness) *)
Facts(dets, thr, sthr) == IsResult(dets, thr, sthr, NmsSet(dets, thr, sthr)) /\ Ordered(dets, thr, sthr) /\ Idempotent(dets, thr, sthr)

Init == stage = 0 /\ c = [kind |-> "init"]
EnumNext ==
  \/ /\ stage = 0 /\ stage' = 1
     /\ \/ MinLen = 0 /\ c' = [n |-> 0, b |-> B(0, 0, 0, 0, 0, 0)]
        \/ \E n \in 1..MaxLen, b \in Boxes : n >= MinLen /\ c' = [n |-> n, b |-> b]
  \/ /\ stage = 1 /\ stage' = 2
     /\ \E rest \in [2..c.n -> Boxes], cf \in Configs, thr \in Thrs :
          LET dets == [i \in 1..c.n |-> [box |-> IF i = 1 THEN c.b ELSE rest[i], score |-> cf[1][i]]] IN
          /\ Emittable(dets, thr, cf[2])
          /\ Assert(Facts(dets, thr, cf[2]), <<"C14 violated by the specification", dets, thr, cf[2]>>)
          /\ c' = Case(dets, thr, cf[2])

(* ---- simulation: boxes on a large lattice built coordinate by coordinate (TLC's simulator draws each choice
   uniformly among the successors); ranks distinct by construction (a used rank is never offered again).
   TLC evaluates invariants on every candidate successor, so the case is emitted from the single successor
   (ph = 5 -> 0) of the state the simulator actually drew. *)
SimLens == {6, 12, 24, 40}
SimMax == 40
ScoreSpace == {5 * i : i \in 1..160}
SimNext ==
  \/ /\ stage = 0 /\ stage' = 1
     /\ \E m \in {"none", "scored", "mixed"}, thr \in Thrs, st \in {NoScore, 60, 150, 900} :
          c' = [mode |-> m, thr |-> thr, sthr |-> st, dets |-> <<>>, ranks |-> {}, ph |-> 0, b |-> B(0, 0, 0, 0, 0, 0)]
  \/ /\ stage = 1 /\ Len(c.dets) < SimMax /\ stage' = 1
     /\ \/ /\ c.ph = 0 /\ \E x \in -60..60 : c' = [c EXCEPT !.ph = 1, !.b.x = x]
        \/ /\ c.ph = 1 /\ \E y \in -30..30 : c' = [c EXCEPT !.ph = 2, !.b.y = y]
        \/ /\ c.ph = 2 /\ \E w \in 0..24, k \in 0..4 : c' = [c EXCEPT !.ph = 3, !.b.w = w, !.b.k = IF k = 4 THEN 0 ELSE k, !.b.na = IF k = 4 THEN 1 ELSE 0]
        \/ /\ c.ph = 3 /\ \E h \in 0..(IF c.mode = "none" THEN 48 ELSE 16) : c' = [c EXCEPT !.ph = 4, !.b.h = h]
        \/ /\ c.ph = 4
           /\ \E sc \in (IF c.mode = "scored" THEN {} ELSE {NoScore}) \cup (IF c.mode = "none" THEN {} ELSE ScoreSpace) :
                LET d == [box |-> c.b, score |-> sc] IN
                /\ Valid(d) => Rank(d) \notin c.ranks
                /\ c' = [c EXCEPT !.ph = 5, !.dets = Append(@, d), !.ranks = IF Valid(d) THEN @ \cup {Rank(d)} ELSE @]
        \/ /\ c.ph = 4 /\ c.mode = "none" /\ Valid([box |-> c.b]) /\ 50 * c.b.h \in c.ranks      \* height already used: draw it again
           /\ c' = [c EXCEPT !.ph = 3]
        \/ /\ c.ph = 5 /\ c' = [c EXCEPT !.ph = 0]       \* the only successor of a drawn state: the case is emitted here, once
SimOut == [kind |-> "nms", dets |-> c.dets, thr |-> c.thr, sthr |-> c.sthr,
           outs |-> {Nms(c.dets, c.thr, c.sthr)}, nt |-> IF Interesting(c.dets, c.thr, c.sthr) THEN 1 ELSE 0]

Next == IF Mode = "enum" THEN EnumNext ELSE SimNext
Spec == Init /\ [][Next]_vars
Emit == IF Mode = "enum" THEN stage = 2 => PrintT(<<"REPLAY", ToJson(c)>>)
        ELSE (stage = 1 /\ c.ph = 0 /\ Len(c.dets) \in SimLens /\ ~KnifeEdge(c.dets, c.thr, c.sthr)) =>
               /\ Assert(IsResult(c.dets, c.thr, c.sthr, NmsSet(c.dets, c.thr, c.sthr)), "C14 violated by the specification (sim)")
               /\ PrintT(<<"REPLAY", ToJson(SimOut)>>)
=============================================================================
