------------------------------- MODULE GenObj -------------------------------
(* A box OBJECT under a history of in-place operations (properties C08, C14, C15, C19): *)
(* gen_vertices (fills the vertex cache), a quarter turn in place, a move, a    *)
(* resize, clone.  The properties speak about "any two boxes": intersection,    *)
(* IoU and exclusively-owned shares are functions of the boxes' CURRENT          *)
(* geometry, whatever was done to the objects before.  TLC enumerates operation *)
(* sequences and emits the exact values for the current geometry against a      *)
(* probe box; `vh replay boxobj` applies the same operations to one real         *)
(* Universal2DBox object and compares.                                          *)
EXTENDS Lattice, Json
CONSTANTS D
VARIABLES box, ops, probe
Ops == {"gen", "turn", "move", "resize", "clone"}
Start == {[x |-> 0, y |-> 0, w |-> 4, h |-> 2, k |-> 0], [x |-> 1, y |-> 0, w |-> 2, h |-> 6, k |-> 1], [x |-> -2, y |-> 1, w |-> 4, h |-> 4, k |-> 2]}
Probes == {[x |-> 1, y |-> 0, w |-> 4, h |-> 4, k |-> 0], [x |-> 0, y |-> 1, w |-> 2, h |-> 6, k |-> 0], [x |-> 5, y |-> 0, w |-> 4, h |-> 2, k |-> 0]}
Do(b, o) == CASE o = "turn" -> [b EXCEPT !.k = @ + 1]
              [] o = "move" -> [b EXCEPT !.x = @ + 2]
              [] o = "resize" -> [b EXCEPT !.h = IF @ = 2 THEN 4 ELSE 2]     \* width kept: the harness sets aspect and height
              [] OTHER -> b
Init == box \in Start /\ probe \in Probes /\ ops = <<>>
Next == Len(ops) < D /\ \E o \in Ops : box' = Do(box, o) /\ ops' = Append(ops, o) /\ UNCHANGED probe
Spec == Init /\ [][Next]_<<box, ops, probe>>
RECURSIVE SetToSeqV(_)
SetToSeqV(S) == IF S = {} THEN <<>> ELSE LET v == CHOOSE y \in S : TRUE IN <<v>> \o SetToSeqV(S \ {v})
PJ(b) == [x |-> b.x, y |-> b.y, w |-> b.w, h |-> b.h, k |-> b.k]
(* non-maximum suppression over the object and the probe (C14): a function of the current geometry as well *)
N == INSTANCE Nms
Dets(objHigher) == <<[box |-> PJ(box), score |-> IF objHigher THEN 200 ELSE 100], [box |-> PJ(probe), score |-> IF objHigher THEN 100 ELSE 200]>>
NmsCases == {[hi |-> IF oh THEN 1 ELSE 0, thr |-> t, out |-> N!Nms(Dets(oh), t, N!NoScore)] :
               oh \in BOOLEAN, t \in {tt \in {<<3, 10>>, <<7, 10>>} : ~N!KnifeEdge(Dets(TRUE), tt, N!NoScore)}}
Emit == Len(ops) = D =>
  PrintT(<<"REPLAY", ToJson([kind |-> "boxobj", ops |-> ops, final |-> PJ(box), probe |-> PJ(probe),
                              inter16 |-> Inter16(box, probe), union16 |-> Union16(box, probe), area16 |-> Area16(box),
                              verts |-> SetToSeqV(Vertices(box)),
                              own |-> <<Own(<<box, probe>>, 1), Own(<<box, probe>>, 2)>>,
                              cells |-> <<Cardinality(Cells(box)), Cardinality(Cells(probe))>>,
                              nms |-> SetToSeqV(NmsCases)])>>)
=============================================================================
