------------------------------- MODULE Lattice -------------------------------
(* Exact geometry of boxes on a half-unit lattice.  A box is                    *)
(*   [x, y, w, h, k] : centre (x/2, y/2), width w/2, height h/2 (w, h > 0),      *)
(*   k = angle in quarter turns (any integer; "none" is modelled as k = 0 with   *)
(*   flag noAngle in the emitted record).  All quantities below are integers:    *)
(*   areas in quarter-units (x4), squared lengths in quarter-units.              *)
EXTENDS Integers, Sequences, FiniteSets, TLC

Abs(a) == IF a < 0 THEN -a ELSE a
Min(a, b) == IF a <= b THEN a ELSE b
Max(a, b) == IF a >= b THEN a ELSE b
Odd(k) == k % 2 = 1                       \* TLA+ % is non-negative for positive modulus
EW(b) == IF Odd(b.k) THEN b.h ELSE b.w    \* extent along x after rotation (in half-units)
EH(b) == IF Odd(b.k) THEN b.w ELSE b.h
(* doubled interval ends: [2c - e, 2c + e] / 4 ... keep everything x2: lo = 2x - ew, hi = 2x + ew (quarter-units) *)
Lo(c, e) == 2 * c - e
Hi(c, e) == 2 * c + e
OverlapLen(c1, e1, c2, e2) == Max(0, Min(Hi(c1, e1), Hi(c2, e2)) - Max(Lo(c1, e1), Lo(c2, e2)))
(* intersection area in 1/16 units (quarter x quarter) *)
Inter16(a, b) == OverlapLen(a.x, EW(a), b.x, EW(b)) * OverlapLen(a.y, EH(a), b.y, EH(b))
Area16(b) == 4 * b.w * b.h                (* (w/2)(h/2) = wh/4 -> x16 = 4wh *)
Union16(a, b) == Area16(a) + Area16(b) - Inter16(a, b)
(* IoU = Inter16 / Union16 (exact rational) ; absent iff Inter16 = 0 *)

(* bounding radius^2 in 1/16 units: (w/4)^2 + (h/4)^2 -> x16 = w^2 + h^2 *)
R16(b) == b.w * b.w + b.h * b.h
(* centre distance^2 in 1/16 units: ((x1-x2)/2)^2 + ... -> x16 = 4 dx^2 + 4 dy^2 *)
D16(a, b) == 4 * (a.x - b.x) * (a.x - b.x) + 4 * (a.y - b.y) * (a.y - b.y)
(* too_far <=> d > r1 + r2 <=> d^2 - r1^2 - r2^2 > 2 r1 r2 : decided by squaring *)
TooFar(a, b) == LET lhs == D16(a, b) - R16(a) - R16(b) IN lhs > 0 /\ lhs * lhs > 4 * R16(a) * R16(b)
Touching(a, b) == LET lhs == D16(a, b) - R16(a) - R16(b) IN lhs > 0 /\ lhs * lhs = 4 * R16(a) * R16(b)

Translate(b, dx, dy) == [b EXCEPT !.x = @ + dx, !.y = @ + dy]
Turn(b) == [b EXCEPT !.x = -b.y, !.y = b.x, !.k = @ + 1]          \* quarter turn about the origin
(* vertices in half-units x2 (quarter-units), as a set *)
Vertices(b) == {<<2 * b.x + sx * EW(b), 2 * b.y + sy * EH(b)>> : sx \in {-1, 1}, sy \in {-1, 1}}

(* exclusively owned share of box i in a sequence of axis-aligned (even k) boxes, by cell counting:
   cells are quarter-unit squares indexed by their lower-left corner                               *)
Cells(b) == {<<cx, cy>> \in (Lo(b.x, EW(b))..(Hi(b.x, EW(b)) - 1)) \X (Lo(b.y, EH(b))..(Hi(b.y, EH(b)) - 1)) : TRUE}
Own(bs, i) == Cardinality(Cells(bs[i]) \ UNION {Cells(bs[j]) : j \in DOMAIN bs \ {i}})
(* share = Own / |Cells| *)

(* ---- algebraic facts TLC checks over an alphabet of boxes ---- *)
Symmetric(a, b) == Inter16(a, b) = Inter16(b, a)
Bounded(a, b) == 0 <= Inter16(a, b) /\ Inter16(a, b) <= Min(Area16(a), Area16(b))
SelfOne(a) == Inter16(a, a) = Area16(a)
RigidInvariant(a, b) == /\ Inter16(Translate(a, 3, -5), Translate(b, 3, -5)) = Inter16(a, b)
                        /\ Inter16(Turn(a), Turn(b)) = Inter16(a, b)
PrefilterSound(a, b) == Inter16(a, b) > 0 => ~TooFar(a, b)
CellsAgree(a, b) == (~Odd(a.k) /\ ~Odd(b.k)) => Cardinality(Cells(a) \cap Cells(b)) = Inter16(a, b)
=============================================================================
