------------------------------- MODULE Lattice -------------------------------
(* Exact geometry of boxes on a half-unit lattice (properties C08, C15, C19; C14 *)
(* uses Inter16 / Area16 through Nms.tla).  A box is the record                  *)
(*   [x, y, w, h, k] : centre (x/2, y/2), width w/2, height h/2 (w, h > 0),      *)
(*   k = angle in quarter turns (any integer; "no angle" is the encoding of      *)
(*   k = 0 chosen by the replay harness).                                        *)
(* Every quantity below is an integer:                                           *)
(*   lengths / coordinates in quarter-units (1 unit = 4),                        *)
(*   areas and squared lengths in 1/16 units (quarter x quarter).                *)
(* No constants: the module is INSTANCEd by Nms.tla.                             *)
EXTENDS Integers, Sequences, FiniteSets, TLC

Abs(a) == IF a < 0 THEN -a ELSE a
Min(a, b) == IF a <= b THEN a ELSE b
Max(a, b) == IF a >= b THEN a ELSE b
Odd(k) == k % 2 = 1                       \* TLA+ % is non-negative for positive modulus
EW(b) == IF Odd(b.k) THEN b.h ELSE b.w    \* extent along x after rotation (in half-units)
EH(b) == IF Odd(b.k) THEN b.w ELSE b.h
(* interval ends in quarter-units: centre 2c, half extent e *)
Lo(c, e) == 2 * c - e
Hi(c, e) == 2 * c + e
OverlapLen(c1, e1, c2, e2) == Max(0, Min(Hi(c1, e1), Hi(c2, e2)) - Max(Lo(c1, e1), Lo(c2, e2)))
(* intersection area in 1/16 units (quarter x quarter) *)
Inter16(a, b) == OverlapLen(a.x, EW(a), b.x, EW(b)) * OverlapLen(a.y, EH(a), b.y, EH(b))
Area16(b) == 4 * b.w * b.h                (* (w/2)(h/2) = wh/4 -> x16 = 4wh *)
Union16(a, b) == Area16(a) + Area16(b) - Inter16(a, b)
(* IoU as an exact rational <<numerator, denominator>>; absent iff the numerator is 0 *)
IoU(a, b) == <<Inter16(a, b), Union16(a, b)>>

(* bounding radius^2 in 1/16 units: (w/4)^2 + (h/4)^2 -> x16 = w^2 + h^2 *)
R16(b) == b.w * b.w + b.h * b.h
(* centre distance^2 in 1/16 units: ((x1-x2)/2)^2 + ... -> x16 = 4 dx^2 + 4 dy^2 *)
D16(a, b) == 4 * (a.x - b.x) * (a.x - b.x) + 4 * (a.y - b.y) * (a.y - b.y)
(* too_far <=> d > r1 + r2 <=> d^2 - r1^2 - r2^2 > 2 r1 r2 : decided by squaring *)
TooFar(a, b) == LET lhs == D16(a, b) - R16(a) - R16(b) IN lhs > 0 /\ lhs * lhs > 4 * R16(a) * R16(b)
Touching(a, b) == LET lhs == D16(a, b) - R16(a) - R16(b) IN lhs > 0 /\ lhs * lhs = 4 * R16(a) * R16(b)

Translate(b, dx, dy) == [b EXCEPT !.x = @ + dx, !.y = @ + dy]
Turn(b) == [b EXCEPT !.x = -b.y, !.y = b.x, !.k = @ + 1]          \* quarter turn about the origin
(* vertices in quarter-units, as a set (extent form) *)
Vertices(b) == {<<2 * b.x + sx * EW(b), 2 * b.y + sy * EH(b)>> : sx \in {-1, 1}, sy \in {-1, 1}}

(* ---- relative position of two boxes, from the interval ends only (independent of Inter16) ---- *)
SepX(a, b) == Hi(a.x, EW(a)) <= Lo(b.x, EW(b)) \/ Hi(b.x, EW(b)) <= Lo(a.x, EW(a))
SepY(a, b) == Hi(a.y, EH(a)) <= Lo(b.y, EH(b)) \/ Hi(b.y, EH(b)) <= Lo(a.y, EH(a))
DisjointOrTouching(a, b) == SepX(a, b) \/ SepY(a, b)
GapX(a, b) == Hi(a.x, EW(a)) < Lo(b.x, EW(b)) \/ Hi(b.x, EW(b)) < Lo(a.x, EW(a))
GapY(a, b) == Hi(a.y, EH(a)) < Lo(b.y, EH(b)) \/ Hi(b.y, EH(b)) < Lo(a.y, EH(a))
StrictlyDisjoint(a, b) == GapX(a, b) \/ GapY(a, b)
ContactOnly(a, b) == DisjointOrTouching(a, b) /\ ~StrictlyDisjoint(a, b)      \* common boundary points, no common area
Inside(a, b) == /\ Lo(b.x, EW(b)) <= Lo(a.x, EW(a)) /\ Hi(a.x, EW(a)) <= Hi(b.x, EW(b))     \* a is contained in b
                /\ Lo(b.y, EH(b)) <= Lo(a.y, EH(a)) /\ Hi(a.y, EH(a)) <= Hi(b.y, EH(b))
SameRectangle(a, b) == Inside(a, b) /\ Inside(b, a)
(* some side of a lies on the same line as some side of b *)
SharedEdgeLine(a, b) == \/ {Lo(a.x, EW(a)), Hi(a.x, EW(a))} \cap {Lo(b.x, EW(b)), Hi(b.x, EW(b))} # {}
                        \/ {Lo(a.y, EH(a)), Hi(a.y, EH(a))} \cap {Lo(b.y, EH(b)), Hi(b.y, EH(b))} # {}
Class(a, b) == IF SameRectangle(a, b) THEN "identical"
               ELSE IF StrictlyDisjoint(a, b) THEN "disjoint"
               ELSE IF DisjointOrTouching(a, b) THEN "contact"
               ELSE IF Inside(a, b) \/ Inside(b, a) THEN "nested"
               ELSE "partial"

(* ---- the polygon of a box: the rectangle of that size rotated by k quarter turns about the centre ---- *)
RotQ(v, k) == LET m == k % 4 IN
              IF m = 0 THEN v ELSE IF m = 1 THEN <<-v[2], v[1]>> ELSE IF m = 2 THEN <<-v[1], -v[2]>> ELSE <<v[2], -v[1]>>
Corners(b) == <<<<-b.w, b.h>>, <<b.w, b.h>>, <<b.w, -b.h>>, <<-b.w, -b.h>>>>    \* relative to the centre, quarter-units
VertexSeq(b) == [i \in 1..4 |-> LET r == RotQ(Corners(b)[i], b.k) IN <<2 * b.x + r[1], 2 * b.y + r[2]>>]
Centre4(b) == <<2 * b.x, 2 * b.y>>                                               \* quarter-units
Shoelace2(p) == LET n == Len(p)
                    t(i) == LET j == (i % n) + 1 IN p[i][1] * p[j][2] - p[j][1] * p[i][2]
                    s == t(1) + t(2) + t(3) + t(4) IN Abs(s)                     \* twice the area (4 vertices)
Dist16(u, v) == (u[1] - v[1]) * (u[1] - v[1]) + (u[2] - v[2]) * (u[2] - v[2])

(* ---- left-top-width-height <-> centre / aspect / height (boxes without angle) ---- *)
ToLtwh(b) == [l |-> 2 * b.x - b.w, t |-> 2 * b.y - b.h, w |-> 2 * b.w, h |-> 2 * b.h]      \* quarter-units
FromLtwh(r) == [x |-> (2 * r.l + r.w) \div 4, y |-> (2 * r.t + r.h) \div 4, w |-> r.w \div 2, h |-> r.h \div 2, k |-> 0]
Aspect(b) == <<b.w, b.h>>                                                         \* exact rational w / h
(* closed form on two left-top-width-height boxes (1/16 units) *)
AAInter16(p, q) == Max(0, Min(p.l + p.w, q.l + q.w) - Max(p.l, q.l)) * Max(0, Min(p.t + p.h, q.t + q.h) - Max(p.t, q.t))

(* ---- exclusively owned share of box i in a sequence of boxes (any quarter-turn angles), by cell
   counting: cells are quarter-unit squares indexed by their lower-left corner; share = Own / |Cells| ---- *)
Cells(b) == {<<cx, cy>> \in (Lo(b.x, EW(b))..(Hi(b.x, EW(b)) - 1)) \X (Lo(b.y, EH(b))..(Hi(b.y, EH(b)) - 1)) : TRUE}
Own(bs, i) == Cardinality(Cells(bs[i]) \ UNION {Cells(bs[j]) : j \in DOMAIN bs \ {i}})

(* ---- angle normalisation on a lattice of n-th parts of a full turn: angle k * (2 pi / n) ---- *)
NormTurn(k, n) == k % n

(* ================= algebraic facts TLC checks over an alphabet of boxes ================= *)
(* C08 *)
Symmetric(a, b) == Inter16(a, b) = Inter16(b, a) /\ IoU(a, b) = IoU(b, a)
Bounded(a, b) == /\ 0 <= Inter16(a, b) /\ Inter16(a, b) <= Min(Area16(a), Area16(b))
                 /\ Union16(a, b) > 0 /\ Inter16(a, b) <= Union16(a, b)                    \* IoU in [0, 1]
SelfOne(a) == Inter16(a, a) = Area16(a) /\ IoU(a, a)[1] = IoU(a, a)[2]
IdenticalOne(a, b) == SameRectangle(a, b) <=> IoU(a, b)[1] = IoU(a, b)[2]                  \* IoU = 1 exactly for the same rectangle
AbsentIffNoOverlap(a, b) == Inter16(a, b) = 0 <=> DisjointOrTouching(a, b)
RigidInvariant(a, b) == /\ Inter16(Translate(a, 3, -5), Translate(b, 3, -5)) = Inter16(a, b)
                        /\ Inter16(Turn(a), Turn(b)) = Inter16(a, b)
                        /\ TooFar(Turn(a), Turn(b)) = TooFar(a, b) /\ TooFar(Translate(a, 3, -5), Translate(b, 3, -5)) = TooFar(a, b)
ClosedFormAgrees(a, b) == (a.k % 2 = 0 /\ b.k % 2 = 0) => AAInter16(ToLtwh(a), ToLtwh(b)) = Inter16(a, b)
PrefilterSound(a, b) == Inter16(a, b) > 0 => ~TooFar(a, b)
CellsAgree(a, b) == Cardinality(Cells(a) \cap Cells(b)) = Inter16(a, b)
PairFacts(a, b) == /\ Symmetric(a, b) /\ Bounded(a, b) /\ SelfOne(a) /\ IdenticalOne(a, b) /\ AbsentIffNoOverlap(a, b)
                   /\ RigidInvariant(a, b) /\ ClosedFormAgrees(a, b) /\ PrefilterSound(a, b) /\ CellsAgree(a, b)
(* C19 *)
PolygonIsRotatedRectangle(b) ==
  LET p == VertexSeq(b) IN
  /\ {p[i] : i \in 1..4} = Vertices(b)                                  \* rotation form = extent form
  /\ Shoelace2(p) = 2 * Area16(b)                                       \* the polygon has the box's area
  /\ p[1][1] + p[2][1] + p[3][1] + p[4][1] = 4 * Centre4(b)[1]          \* ... its centre
  /\ p[1][2] + p[2][2] + p[3][2] + p[4][2] = 4 * Centre4(b)[2]
  /\ \A i \in 1..4 : Dist16(p[i], Centre4(b)) = R16(b)                  \* ... its bounding radius
  /\ Vertices([b EXCEPT !.k = NormTurn(b.k, 4)]) = Vertices(b)          \* only the angle modulo a full turn matters
RoundTrip(b) == /\ FromLtwh(ToLtwh(b)) = [b EXCEPT !.k = 0]
                /\ ToLtwh(FromLtwh(ToLtwh(b))) = ToLtwh(b)
                /\ ToLtwh(b).w * b.h = ToLtwh(b).h * b.w                 \* aspect = width / height
NormFacts(k, n) == /\ NormTurn(k, n) \in 0..(n - 1)
                   /\ \E m \in -((Abs(k) \div n) + 1)..((Abs(k) \div n) + 1) : k = NormTurn(k, n) + m * n      \* equivalent angle
                   /\ NormTurn(NormTurn(k, n), n) = NormTurn(k, n)
                   /\ NormTurn(k + n, n) = NormTurn(k, n)
(* C15 *)
Perms(S) == {f \in [S -> S] : \A i, j \in S : f[i] = f[j] => i = j}
OwnFacts(bs) ==
  LET D == DOMAIN bs IN
  /\ \A i \in D : /\ 0 <= Own(bs, i) /\ Own(bs, i) <= Cardinality(Cells(bs[i]))                              \* share in [0, 1]
                  /\ Cardinality(Cells(bs[i])) = Area16(bs[i])
                  /\ (Own(bs, i) = Area16(bs[i])) <=> (\A j \in D \ {i} : Inter16(bs[i], bs[j]) = 0)        \* 1 iff overlapping nothing
                  /\ (\E j \in D \ {i} : Inside(bs[i], bs[j])) => Own(bs, i) = 0                             \* 0 when covered
  /\ \A p \in Perms(D) : \A i \in D : Own([j \in D |-> bs[p[j]]], i) = Own(bs, p[i])                        \* order independence
  /\ (Len(bs) = 2) => Own(bs, 1) = Area16(bs[1]) - Inter16(bs[1], bs[2])
=============================================================================
