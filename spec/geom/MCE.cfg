SPECIFICATION Spec
INVARIANT Inv
CHECK_DEADLOCK FALSE
