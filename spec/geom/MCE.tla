---- MODULE MCE ----
(* Model-checking instance for property C19: TLC checks                                         *)
(*   - EqFacts (reflexive, symmetric, verdict equal below / unequal above EPS) on pairs of      *)
(*     5-coordinate vectors whose coordinates differ by offsets around EPS = 10 units,          *)
(*   - OneCoordinate: the vector verdict of a one-coordinate change is the scalar verdict,      *)
(*   - NormFacts for every multiple of pi / 8 over +-8 turns (and of pi / 2 over +-3 turns),    *)
(*   - PolygonIsRotatedRectangle and RoundTrip on an alphabet of boxes.                         *)
EXTENDS Lattice, BoxEq
VARIABLES stage, g, u, v
vars == <<stage, g, u, v>>
Offs == {-11, -10, -9, 0, 9, 10, 11}
Bases == {<<0, 0, 0, 0, 0>>, <<3, -3, 1000000, 1, 0>>}
Boxes == [x : -2..2, y : {-1, 0, 3}, w : {1, 2, 5}, h : {1, 4}, k : -9..9]
Nil == <<0, 0, 0, 0, 0>>
Init == stage = 0 /\ g = "init" /\ u = Nil /\ v = Nil
Next ==
  \/ /\ stage = 0 /\ stage' = 1
     /\ \/ \E b \in Bases, o \in Offs : g' = "eq" /\ u' = b /\ v' = Bump(b, 1, o)
        \/ \E k \in -9..9 : g' = "box" /\ u' = <<k, 0, 0, 0, 0>> /\ v' = Nil
        \/ \E s \in {-1, 1} : g' = "norm" /\ u' = <<s, 0, 0, 0, 0>> /\ v' = Nil
  \/ /\ stage = 1 /\ stage' = 2 /\ g' = g
     /\ \/ g = "eq" /\ u' = u /\ \E o \in [2..5 -> Offs] : v' = [i \in 1..5 |-> IF i = 1 THEN v[1] ELSE u[i] + o[i]]
        \/ g = "box" /\ \E b \in Boxes : b.k = u[1] /\ u' = <<b.k, b.x, b.y, b.w, b.h>> /\ v' = v
        \/ g = "norm" /\ \E m \in 0..128 : u' = <<u[1] * m, 0, 0, 0, 0>> /\ v' = v
Spec == Init /\ [][Next]_vars
BoxOf(t) == [k |-> t[1], x |-> t[2], y |-> t[3], w |-> t[4], h |-> t[5]]
Inv == stage = 2 =>
         /\ g = "eq" => /\ EqFacts(u, v)
                        /\ \A i \in 1..5 : \A d \in Deltas : OneCoordinate(u, i, d) /\ EqSymmetric(u, Bump(u, i, d))
         /\ g = "box" => PolygonIsRotatedRectangle(BoxOf(u)) /\ RoundTrip(BoxOf(u))
         /\ g = "norm" => NormFacts(u[1], 16) /\ (Abs(u[1]) <= 12 => NormFacts(u[1], 4))
(* reachability witnesses (each must be VIOLATED) *)
W_NoOpenVerdict == ~(stage = 2 /\ g = "eq" /\ RequiredVec(u, v) = "open")
W_NoEqualVerdict == ~(stage = 2 /\ g = "eq" /\ RequiredVec(u, v) = "equal" /\ u # v)
W_NoUnequalVerdict == ~(stage = 2 /\ g = "eq" /\ RequiredVec(u, v) = "unequal")
W_NoNegativeWrap == ~(stage = 2 /\ g = "norm" /\ u[1] < -16 /\ NormTurn(u[1], 16) = 3)
====
