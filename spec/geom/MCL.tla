---- MODULE MCL ----
EXTENDS Lattice
Boxes == [x : -2..2, y : {0, 1}, w : {1, 2, 4}, h : {2, 3}, k : {0, 1, 5, -2}]
VARIABLES a, b
Init == a \in Boxes /\ b \in Boxes
Next == UNCHANGED <<a, b>>
Inv == Symmetric(a, b) /\ Bounded(a, b) /\ SelfOne(a) /\ RigidInvariant(a, b) /\ PrefilterSound(a, b) /\ CellsAgree(a, b)
W_NoTouch == ~(Inter16(a, b) = 0 /\ ~TooFar(a, b))
====
