---- MODULE MCL ----
(* Model-checking instance for the pair facts of Lattice.tla (C08) and the per-box facts (C19):  *)
(* TLC checks PairFacts on every ordered pair of the alphabet XA x YA x WA x HA x KA (first box)  *)
(* and XB x YB x WB x HB x KB (second box), and BoxFacts on every box of the second alphabet.     *)
(* Two-stage Next (the first box is chosen first) so that the work spreads over the workers.      *)
EXTENDS Lattice
CONSTANTS Tier      \* "tiny" (witness runs) | "quick" | "thorough"   (TLC configuration files cannot hold negative numbers)
T(t, q, th) == IF Tier = "tiny" THEN t ELSE IF Tier = "quick" THEN q ELSE th
XA == T({0, 1}, {0, 1}, {0, 1})
YA == T({0}, {0, 1}, {0, 1})
WA == T({2, 4}, {1, 2, 4}, {1, 2, 4, 5})
HA == T({2}, {2, 3}, {2, 3, 6})
KA == T({0, 1}, {0, 1, -2, 5}, {0, 1, -2, 5, 3, -8})
XB == T(-2..2, -4..4, -5..5)
YB == T({0, 2}, {-3, -1, 0, 1, 2}, -4..4)
WB == T({2, 4}, {1, 2, 4}, {1, 2, 4, 5})
HB == T({2}, {2, 3}, {2, 3, 6})
KB == T({0, 1, 4}, {0, 1, 2, -1, -4}, {0, 1, 2, -1, -4, 7})
VARIABLES stage, a, b
vars == <<stage, a, b>>
ABoxes == [x : XA, y : YA, w : WA, h : HA, k : KA]
BBoxes == [x : XB, y : YB, w : WB, h : HB, k : KB]
Nil == [x |-> 0, y |-> 0, w |-> 1, h |-> 1, k |-> 0]
Init == stage = 0 /\ a = Nil /\ b = Nil
Next == \/ stage = 0 /\ stage' = 1 /\ a' \in ABoxes /\ b' = b
        \/ stage = 1 /\ stage' = 2 /\ b' \in BBoxes /\ a' = a
Spec == Init /\ [][Next]_vars
Inv == stage = 2 => /\ PairFacts(a, b) /\ PairFacts(b, a)
                    /\ PolygonIsRotatedRectangle(b) /\ RoundTrip(b)
(* reachability witnesses: each must be VIOLATED (the class of pairs exists in the alphabet) *)
W_NoContactNotFar == ~(stage = 2 /\ Inter16(a, b) = 0 /\ ContactOnly(a, b) /\ ~TooFar(a, b))
W_NoRotatedPartial == ~(stage = 2 /\ Class(a, b) = "partial" /\ Odd(a.k) # Odd(b.k))
W_NoNested == ~(stage = 2 /\ Class(a, b) = "nested" /\ SharedEdgeLine(a, b))
W_NoIdenticalOtherAngle == ~(stage = 2 /\ Class(a, b) = "identical" /\ a.k # b.k)
W_NoTooFar == ~(stage = 2 /\ TooFar(a, b))
W_NoDisjointNotFar == ~(stage = 2 /\ StrictlyDisjoint(a, b) /\ ~TooFar(a, b))
====
