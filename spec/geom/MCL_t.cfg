CONSTANTS
 Tier = "thorough"
SPECIFICATION Spec
INVARIANT Inv
CHECK_DEADLOCK FALSE
