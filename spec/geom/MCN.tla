-------------------------------- MODULE MCN --------------------------------
(* Model-checking instance for Nms.tla (property C14): over every list of 0..MaxLen *)
(* detections from an alphabet (nested, shifted, rotated, invalid boxes; with and    *)
(* without scores; rank ties included) and every threshold of the grids, TLC checks  *)
(* that the greedy definition yields the UNIQUE set satisfying the declarative       *)
(* definition (for every way of breaking rank ties), that the list is rank-ordered,  *)
(* and that nms(nms(x)) = nms(x).  Inputs are enumerated in Next in two stages so    *)
(* that the work spreads over the workers.  No history variable.                     *)
EXTENDS Nms
CONSTANTS MaxLen,   \* longest list
          Grid      \* "quick" | "full" (threshold grids) | "small" (small alphabet, for MaxLen = 4)
VARIABLES stage, dets
vars == <<stage, dets>>
B(x, y, w, h, k) == [x |-> x, y |-> y, w |-> w, h |-> h, k |-> k]
BxFull == { B(0, 0, 4, 4, 0), B(0, 0, 2, 2, 0), B(1, 0, 4, 3, 0), B(2, 1, 4, 2, 0), B(0, 0, 4, 2, 1),
            B(1, 1, 2, 3, 1), B(3, 0, 2, 4, 2), B(9, 9, 2, 2, 0), B(0, 0, 0, 2, 0), B(0, 0, 2, 0, 0) }
BxSmall == { B(0, 0, 4, 4, 0), B(0, 0, 2, 2, 0), B(1, 0, 4, 3, 0), B(0, 0, 4, 2, 1), B(1, 1, 2, 3, 1), B(0, 0, 0, 2, 0) }
Bx == IF Grid = "small" THEN BxSmall ELSE BxFull
Scores == IF Grid = "full" THEN {NoScore, 120, 260, -20} ELSE {NoScore, 120, -20}
Dt == [box : Bx, score : Scores]
Thrs == IF Grid = "full" THEN {<<3, 10>>, <<1, 2>>, <<7, 10>>} ELSE {<<3, 10>>, <<7, 10>>}
SThrs == IF Grid = "full" THEN {NoScore, 100, 200, 300} ELSE {NoScore, 100, 200}
Init == stage = 0 /\ dets = <<>>
Next ==
  \/ /\ stage = 0 /\ stage' = 1
     /\ \/ dets' = <<>>
        \/ \E d \in Dt : dets' = <<d>>
  \/ /\ stage = 1 /\ stage' = 2
     /\ IF dets = <<>> THEN UNCHANGED dets
        ELSE \E n \in 0..(MaxLen - 1) : \E rest \in [1..n -> Dt] : dets' = dets \o rest
MCSpec == Init /\ [][Next]_vars
TieBreaks(sthr) == IF TieFree(dets, sthr) THEN {Ident(dets)} ELSE Perms(DOMAIN dets)
Inv == stage = 2 =>
  \A thr \in Thrs : \A sthr \in SThrs :
     /\ \A p \in TieBreaks(sthr) : GreedyIsTheResultP(dets, thr, sthr, p)
     /\ Ordered(dets, thr, sthr)
     /\ Idempotent(dets, thr, sthr)
     /\ Nms(dets, thr, sthr) \in NmsAll(dets, thr, sthr)
(* reachability witnesses: TLC must violate these *)
W_NeverInteresting == stage = 2 => \A thr \in Thrs : \A sthr \in SThrs : ~Interesting(dets, thr, sthr)
W_FilterNeverDrops == stage = 2 => \A sthr \in SThrs : \A i \in DOMAIN dets : Valid(dets[i]) => Passes(dets[i], sthr)
W_TieNeverMatters == stage = 2 => \A thr \in Thrs : \A sthr \in SThrs : Cardinality(NmsAll(dets, thr, sthr)) = 1
W_NoInvalidMixed == stage = 2 => ~(\E i, j \in DOMAIN dets : ~Valid(dets[i]) /\ Valid(dets[j]))
=============================================================================
