---- MODULE MCN ----
EXTENDS Nms
Bx == [x : {0, 1}, y : {0}, w : {2, 4}, h : {2, 0}, k : {0, 1}]
Dt == [box : Bx, score : {-1, 500, 2500}]
VARIABLES dets
Init == dets \in [1..3 -> Dt]
Next == UNCHANGED dets
Inv == \A thr \in {<<3, 10>>, <<7, 10>>} : \A sthr \in {-1, 400, 1000} :
          GreedyIsTheResult(dets, thr, sthr) /\ Idempotent(dets, thr, sthr)
====
