---- MODULE MCO ----
(* Model-checking instance for property C15: TLC checks OwnFacts (share in [0,1]; 1 iff the box   *)
(* overlaps nothing; 0 when covered by another box; independence of the input order; agreement of *)
(* cell counting with the interval formula) on every list of 1..3 boxes of the alphabet (thorough: *)
(* also lists of 4 over a reduced alphabet).                                                       *)
EXTENDS Lattice
CONSTANTS Tier
VARIABLES stage, bs
vars == <<stage, bs>>
T(t, q, th) == IF Tier = "tiny" THEN t ELSE IF Tier = "quick" THEN q ELSE th
Boxes == [x : T(-2..2, {-2, 0, 1}, {-2, 0, 1, 3}), y : T({0}, {0, 1}, {0, 1}), w : T({2}, {2, 4}, {2, 4}), h : T({2, 6}, {2, 6}, {2, 6}),
          k : T({0, 1}, {0, 1}, {0, 1, -2})]
Small == [x : {-2, 0, 1}, y : {0}, w : {2}, h : {2, 6}, k : {0, 1}]
Init == stage = 0 /\ bs = <<>>
Next == \/ stage = 0 /\ stage' = 1 /\ \E a \in Boxes : bs' = <<a>>
        \/ stage = 1 /\ stage' = 2 /\ \/ bs' = bs
                                      \/ \E b \in Boxes : bs' = bs \o <<b>>
                                      \/ \E b \in Boxes, d \in Boxes : bs' = bs \o <<b, d>>
                                      \/ Tier = "thorough" /\ bs[1] \in Small /\ \E b \in Small, d \in Small, e \in Small : bs' = bs \o <<b, d, e>>
Spec == Init /\ [][Next]_vars
Inv == stage = 2 => OwnFacts(bs)
(* reachability witnesses (each must be VIOLATED) *)
W_NoPartial == ~(stage = 2 /\ \E i \in DOMAIN bs : 0 < Own(bs, i) /\ Own(bs, i) < Area16(bs[i]))
W_NoCoveredByUnion == ~(stage = 2 /\ \E i \in DOMAIN bs : Own(bs, i) = 0 /\ ~\E j \in DOMAIN bs \ {i} : Inside(bs[i], bs[j]))
W_NoFullyOwned == ~(stage = 2 /\ Len(bs) = 3 /\ \A i \in DOMAIN bs : Own(bs, i) = Area16(bs[i]))
W_NoIdenticalPair == ~(stage = 2 /\ Len(bs) = 3 /\ SameRectangle(bs[1], bs[2]) /\ bs[1].k # bs[2].k /\ Own(bs, 3) > 0)
====
