CONSTANTS
 Tier = "quick"
SPECIFICATION Spec
INVARIANT Inv
CHECK_DEADLOCK FALSE
