---------------------------------- MODULE Nms ----------------------------------
(* Non-maximum suppression over lattice boxes.  dets: sequence of               *)
(* [box, score] (score = -1 : none -> rank = box height, always passes the score *)
(* filter).  thr = <<num, den>> nms threshold, sthr = score threshold or -1 (none) *)
EXTENDS Integers, Sequences, FiniteSets, TLC
L == INSTANCE Lattice
Valid(d) == d.box.w > 0 /\ d.box.h > 0
Rank(d) == IF d.score = -1 THEN d.box.h * 1000 ELSE d.score      \* common scale: caller keeps ranks distinct
Passes(d, sthr) == Valid(d) /\ (d.score = -1 \/ sthr = -1 \/ d.score > sthr)
Filtered(dets, sthr) == {i \in DOMAIN dets : Passes(dets[i], sthr)}
Higher(dets, i, j) == Rank(dets[i]) > Rank(dets[j]) \/ (Rank(dets[i]) = Rank(dets[j]) /\ i < j)   \* stable
Covers(dets, hi, lo, thr) == L!Inter16(dets[hi].box, dets[lo].box) * thr[2] > thr[1] * L!Area16(dets[lo].box)
(* declarative result: the unique K \subseteq F with
     top of F in K; no member covered by a higher member; every non-member covered by a higher member *)
IsResult(dets, thr, sthr, K) ==
  LET F == Filtered(dets, sthr) IN
  /\ K \subseteq F
  /\ \A i \in F : (\A j \in F : i = j \/ Higher(dets, i, j)) => i \in K
  /\ \A i \in K : ~\E j \in K : Higher(dets, j, i) /\ Covers(dets, j, i, thr)
  /\ \A i \in F \ K : \E j \in K : Higher(dets, j, i) /\ Covers(dets, j, i, thr)
(* operational: greedy in rank order *)
RECURSIVE Greedy(_, _, _, _)
Greedy(dets, thr, todo, kept) ==
  IF todo = {} THEN kept
  ELSE LET i == CHOOSE x \in todo : \A y \in todo : x = y \/ Higher(dets, x, y) IN
       IF \E j \in kept : Covers(dets, j, i, thr) THEN Greedy(dets, thr, todo \ {i}, kept)
       ELSE Greedy(dets, thr, todo \ {i}, kept \cup {i})
NmsSet(dets, thr, sthr) == Greedy(dets, thr, Filtered(dets, sthr), {})
(* the returned list: members in rank order *)
RECURSIVE Order(_, _)
Order(dets, S) == IF S = {} THEN <<>> ELSE LET i == CHOOSE x \in S : \A y \in S : x = y \/ Higher(dets, x, y) IN <<i>> \o Order(dets, S \ {i})
Nms(dets, thr, sthr) == Order(dets, NmsSet(dets, thr, sthr))
GreedyIsTheResult(dets, thr, sthr) ==
  /\ IsResult(dets, thr, sthr, NmsSet(dets, thr, sthr))
  /\ \A K \in SUBSET Filtered(dets, sthr) : IsResult(dets, thr, sthr, K) => K = NmsSet(dets, thr, sthr)
Idempotent(dets, thr, sthr) ==
  LET out == Nms(dets, thr, sthr)  d2 == [i \in DOMAIN out |-> dets[out[i]]] IN
  Nms(d2, thr, sthr) = [i \in DOMAIN out |-> i]
=============================================================================
