---------------------------------- MODULE Nms ----------------------------------
(* Non-maximum suppression over lattice boxes (property C14).                     *)
(*                                                                                *)
(* dets : sequence of [box, score]; box is a Lattice box [x, y, w, h, k] (extra    *)
(*        fields are ignored); score is an integer in hundredths (any sign), NoScore = no score.   *)
(*        A detection without score is ranked by its box height (h/2 units = 50 h  *)
(*        hundredths) and always passes the score filter.                          *)
(* thr  : <<num, den>>, the nms threshold num/den in (0, 1).                        *)
(* sthr : score threshold in hundredths, NoScore = none.                           *)
(*                                                                                *)
(* The result is DEFINED declaratively (IsResult); Greedy is the operational       *)
(* definition; TLC checks (MCN) that Greedy yields the unique set satisfying the   *)
(* declarative definition and that the operation is idempotent.                    *)
(*                                                                                *)
(* Rank ties: the property orders by rank only, so a tie may be broken either way. *)
(* Every operator takes a priority function pri (index -> integer, injective)      *)
(* that breaks ties; the operators without the suffix P use the input order        *)
(* (a stable sort).  NmsAll is the set of lists admissible under every tie-break.  *)
EXTENDS Integers, Sequences, FiniteSets, TLC
L == INSTANCE Lattice

NoScore == -100000
Valid(d) == d.box.w > 0 /\ d.box.h > 0
Rank(d) == IF d.score = NoScore THEN 50 * d.box.h ELSE d.score
Passes(d, sthr) == Valid(d) /\ (d.score = NoScore \/ sthr = NoScore \/ d.score > sthr)
Filtered(dets, sthr) == {i \in DOMAIN dets : Passes(dets[i], sthr)}
Ident(dets) == [i \in DOMAIN dets |-> i]
HigherP(dets, pri, i, j) == Rank(dets[i]) > Rank(dets[j]) \/ (Rank(dets[i]) = Rank(dets[j]) /\ pri[i] < pri[j])
Higher(dets, i, j) == HigherP(dets, Ident(dets), i, j)
(* hi covers lo: more than thr of lo's area lies inside hi (exact integers, 1/16 units) *)
Covers(dets, hi, lo, thr) == L!Inter16(dets[hi].box, dets[lo].box) * thr[2] > thr[1] * L!Area16(dets[lo].box)
(* the cover ratio equals the threshold exactly: a float implementation may go either way *)
KnifeEdge(dets, thr, sthr) ==
  \E i, j \in Filtered(dets, sthr) : i # j /\ L!Inter16(dets[i].box, dets[j].box) * thr[2] = thr[1] * L!Area16(dets[j].box)
TieFree(dets, sthr) == \A i, j \in Filtered(dets, sthr) : i # j => Rank(dets[i]) # Rank(dets[j])

(* ---- declarative result: K is a result iff
     K is a subset of the filtered boxes, the top-ranked filtered box is in K,
     no member is covered by a higher member, every non-member is covered by a higher member *)
IsResultP(dets, thr, sthr, pri, K) ==
  LET F == Filtered(dets, sthr) IN
  /\ K \subseteq F
  /\ \A i \in F : (\A j \in F : i = j \/ HigherP(dets, pri, i, j)) => i \in K
  /\ \A i \in K : ~\E j \in K : HigherP(dets, pri, j, i) /\ Covers(dets, j, i, thr)
  /\ \A i \in F \ K : \E j \in K : HigherP(dets, pri, j, i) /\ Covers(dets, j, i, thr)
IsResult(dets, thr, sthr, K) == IsResultP(dets, thr, sthr, Ident(dets), K)

(* ---- operational: greedy in rank order *)
RECURSIVE GreedyP(_, _, _, _, _)
GreedyP(dets, thr, pri, todo, kept) ==
  IF todo = {} THEN kept
  ELSE LET i == CHOOSE x \in todo : \A y \in todo : x = y \/ HigherP(dets, pri, x, y) IN
       IF \E j \in kept : Covers(dets, j, i, thr) THEN GreedyP(dets, thr, pri, todo \ {i}, kept)
       ELSE GreedyP(dets, thr, pri, todo \ {i}, kept \cup {i})
NmsSetP(dets, thr, sthr, pri) == GreedyP(dets, thr, pri, Filtered(dets, sthr), {})
NmsSet(dets, thr, sthr) == NmsSetP(dets, thr, sthr, Ident(dets))
(* the returned list: members in rank order *)
RECURSIVE OrderP(_, _, _)
OrderP(dets, pri, S) ==
  IF S = {} THEN <<>>
  ELSE LET i == CHOOSE x \in S : \A y \in S : x = y \/ HigherP(dets, pri, x, y) IN <<i>> \o OrderP(dets, pri, S \ {i})
NmsP(dets, thr, sthr, pri) == OrderP(dets, pri, NmsSetP(dets, thr, sthr, pri))
Nms(dets, thr, sthr) == NmsP(dets, thr, sthr, Ident(dets))
Perms(S) == {p \in [S -> S] : \A a, b \in S : a # b => p[a] # p[b]}
(* every list the property admits (one list when ranks are distinct) *)
NmsAll(dets, thr, sthr) ==
  IF TieFree(dets, sthr) THEN {Nms(dets, thr, sthr)}
  ELSE {NmsP(dets, thr, sthr, p) : p \in Perms(DOMAIN dets)}

(* ---- facts checked by TLC *)
GreedyIsTheResultP(dets, thr, sthr, pri) ==
  /\ IsResultP(dets, thr, sthr, pri, NmsSetP(dets, thr, sthr, pri))
  /\ \A K \in SUBSET Filtered(dets, sthr) : IsResultP(dets, thr, sthr, pri, K) => K = NmsSetP(dets, thr, sthr, pri)
GreedyIsTheResult(dets, thr, sthr) == GreedyIsTheResultP(dets, thr, sthr, Ident(dets))
Sub(dets, out) == [i \in DOMAIN out |-> dets[out[i]]]
Idempotent(dets, thr, sthr) ==
  LET out == Nms(dets, thr, sthr) IN Nms(Sub(dets, out), thr, sthr) = [i \in DOMAIN out |-> i]
(* the list is rank-descending and contains no box that failed the filter *)
Ordered(dets, thr, sthr) ==
  LET out == Nms(dets, thr, sthr) IN
  /\ \A i, j \in DOMAIN out : i < j => Higher(dets, out[i], out[j])
  /\ \A i \in DOMAIN out : Passes(dets[out[i]], sthr)
(* non-triviality: something is suppressed while a box other than the top one survives *)
Interesting(dets, thr, sthr) ==
  LET K == NmsSet(dets, thr, sthr) IN Cardinality(K) >= 2 /\ Filtered(dets, sthr) \ K # {}
=============================================================================
