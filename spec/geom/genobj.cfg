CONSTANTS
 D = 3
SPECIFICATION Spec
INVARIANT Emit
CHECK_DEADLOCK FALSE
