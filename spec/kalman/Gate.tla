--------------------------------- MODULE Gate ---------------------------------
(* chi-square gating cost conversions; distances in 1/10000 units.             *)
EXTENDS Naturals
Upper == 1000000                         \* CHI2_UPPER_BOUND = 100.0
Chi95(dof) == CASE dof = 2 -> 59915 [] dof = 5 -> 110700     \* CHI2INV95[dof-1]
Direct(d, dof)   == IF d > Chi95(dof) THEN Upper ELSE d
Inverted(d, dof) == IF d > Chi95(dof) THEN 0 ELSE Upper - d
Consistent(d, dof) == Inverted(d, dof) = Upper - Direct(d, dof)
SameGate(d, dof) == (Direct(d, dof) = Upper) <=> (Inverted(d, dof) = 0)      \* for d < Upper
=============================================================================
