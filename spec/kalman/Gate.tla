--------------------------------- MODULE Gate ---------------------------------
(* Property C07, gate consistency.  Chi-square gating of a squared Mahalanobis   *)
(* distance and its two cost conversions; distances and costs in 1/10000 units.  *)
(* A filter with `dof` measured coordinates gates at the 95 % quantile of the     *)
(* chi-square distribution with dof degrees of freedom: box filter 5 (xc, yc,     *)
(* angle, aspect, height), point filter and point-vector filter 2 (x, y).         *)
EXTENDS Naturals, Sequences
Upper == 1000000                         \* CHI2_UPPER_BOUND = 100.0
Chi95(dof) == CASE dof = 2 -> 59915 [] dof = 5 -> 110700     \* CHI2INV95[dof - 1] = 5.9915, 11.070
Dof(filter) == CASE filter = "box" -> 5 [] filter = "point" -> 2 [] filter = "vec" -> 2
Direct(d, dof)   == IF d > Chi95(dof) THEN Upper ELSE d
Inverted(d, dof) == IF d > Chi95(dof) THEN 0 ELSE Upper - d
(* what the property states *)
Consistent(d, dof) == Inverted(d, dof) = Upper - Direct(d, dof)
SameGate(d, dof) == (Direct(d, dof) = Upper) <=> (Inverted(d, dof) = 0)      \* for d < Upper
Filters == {"box", "point", "vec"}
(* grid of distances around both gates, the origin and the upper bound *)
Steps == {1, 7, 100, 2500, 10000}
Around(c) == {c} \cup {c + j * s : j \in 1..4, s \in Steps} \cup {c - j * s : j \in 1..4, s \in {t \in Steps : 4 * t <= c}}
Grid == {0, 1, 5000, 30000, 90000, 500000} \cup Around(Chi95(2)) \cup Around(Chi95(5)) \cup Around(Upper) \cup {2 * Upper}
=============================================================================
