------------------------------- MODULE GenGate -------------------------------
(* One case per filter and grid distance for the scalar filters; for the vector  *)
(* filter one case per window of three consecutive grid distances (its cost       *)
(* function takes a slice).                                                       *)
EXTENDS Gate, Json, TLC, FiniteSets
VARIABLES f, c
Init == f = "none" /\ c = [kind |-> "init"]
RECURSIVE AscSeq(_)
AscSeq(S) == IF S = {} THEN <<>> ELSE LET m == CHOOSE x \in S : \A y \in S : x <= y IN <<m>> \o AscSeq(S \ {m})
G == AscSeq(Grid)
Case(flt, ds) == [kind |-> "gate", filter |-> flt, dof |-> Dof(flt), d |-> ds, upper |-> Upper,
                  direct |-> [i \in 1..Len(ds) |-> Direct(ds[i], Dof(flt))],
                  inverted |-> [i \in 1..Len(ds) |-> Inverted(ds[i], Dof(flt))]]
Next == \/ f = "none" /\ f' \in Filters /\ c' = c
        \/ f \in {"box", "point"} /\ c.kind = "init" /\ f' = f /\ \E i \in 1..Len(G) : c' = Case(f, <<G[i]>>)
        \/ f = "vec" /\ c.kind = "init" /\ f' = f /\ \E i \in 1..(Len(G) - 2) : c' = Case(f, <<G[i], G[i + 1], G[i + 2]>>)
        \/ f = "vec" /\ c.kind = "init" /\ f' = f /\ c' = Case(f, <<>>)
Spec == Init /\ [][Next]_<<f, c>>
Emit == c.kind = "gate" => PrintT(<<"REPLAY", ToJson(c)>>)
=============================================================================
