---- MODULE GenK ----
EXTENDS KalmanExact
VARIABLES z, done
GInit == z \in [1..4 -> 98..102] /\ done = FALSE
GNext == done = FALSE /\ done' = TRUE /\ UNCHANGED z
Emit == done => PrintT(<<"REPLAY", ToJson([kind |-> "kalman", z |-> z, r |-> Run(z[1], z[2], z[3], z[4])])>>)
====
