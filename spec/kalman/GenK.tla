-------------------------------- MODULE GenK --------------------------------
(* Exact two-cycle runs: initiate(z0); predict; update(z1); predict;            *)
(* update(z2); predict; distance(z3) for every z in [1..4 -> Lo..Hi].           *)
(* (Mirror = 1: every z negated).  Every number is a rational <<num, den>>.      *)
EXTENDS KalmanExact, Json, TLC
CONSTANTS Lo, Hi, Mirror
Sg == IF Mirror = 1 THEN -1 ELSE 1
VARIABLES stage, z
vars == <<stage, z>>
Init == stage = 0 /\ z = <<>>
Next == \/ stage = 0 /\ stage' = 1 /\ \E a \in Lo..Hi, b \in Lo..Hi : z' = <<Sg * a, Sg * b>>
        \/ stage = 1 /\ stage' = 2 /\ \E c \in Lo..Hi, d \in Lo..Hi : z' = z \o <<Sg * c, Sg * d>>
Spec == Init /\ [][Next]_vars
St(s) == <<s.p, s.v, s.pp, s.pv, s.vv>>
Emit == stage = 2 =>
        LET r == Run(z[1], z[2], z[3], z[4]) IN
        /\ Assert(r.spd = 1, <<"exact covariance not positive-definite", z>>)
        /\ PrintT(<<"REPLAY", ToJson([kind |-> "exact", z |-> z, h |-> Height, wp |-> WPos, wv |-> WVel,
                    ops |-> <<"p", "u", "p", "u", "p">>,
                    st |-> <<St(r.s1), St(r.s2), St(r.s3), St(r.s4), St(r.s5)>>, d |-> r.d])>>)
=============================================================================
