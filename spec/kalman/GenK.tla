-------------------------------- MODULE GenK --------------------------------
(* Exact two-cycle runs: initiate(z0); predict; update(z1); predict;            *)
(* update(z2); predict; distance(z3) for every z in [1..4 -> Lo..Hi].           *)
(* (Mirror = 1: every z negated).  Every number is a rational <<num, den>>.      *)
EXTENDS KalmanExact, Json, TLC
CONSTANTS Lo, Hi, Mirror
Sg == IF Mirror = 1 THEN -1 ELSE 1
VARIABLES stage, z
vars == <<stage, z>>
Init == stage = 0 /\ z = <<>>
Next == \/ stage = 0 /\ stage' = 1 /\ \E a \in Lo..Hi, b \in Lo..Hi : z' = <<Sg * a, Sg * b>>
        \/ stage = 1 /\ stage' = 2 /\ \E c \in Lo..Hi, d \in Lo..Hi : z' = z \o <<Sg * c, Sg * d>>
Spec == Init /\ [][Next]_vars
St(s) == <<s.p, s.v, s.pp, s.pv, s.vv>>
(* the recurrence depends on the weights and the height only through sigma = w * h: a second parameter set with the same
   sigmas (half the height, twice the weights) must give the same numbers - the harness runs both, also through a tracker *)
Alt == [h |-> R(10), wp |-> <<1, 10>>, wv |-> <<1, 20>>]
(* a scene seen 16 times smaller (around the first measurement): small boxes, small standard deviations - same filter *)
Shrink == <<1, 16>>
AltOK == /\ Mul(Mul(Alt.wp, Alt.h), Mul(Alt.wp, Alt.h)) = SigP2
         /\ Mul(Mul(Alt.wv, Alt.h), Mul(Alt.wv, Alt.h)) = SigV2
Emit == stage = 2 =>
        LET r == Run(z[1], z[2], z[3], z[4]) IN
        /\ Assert(r.spd = 1, <<"exact covariance not positive-definite", z>>)
        /\ Assert(AltOK, "alternative parameter set has other sigmas")
        /\ Assert(ScaledOK(z[1], z[2], z[3], z[4], Shrink), <<"scaling law violated by the specification", z>>)
        /\ PrintT(<<"REPLAY", ToJson([kind |-> "exact", z |-> z, h |-> Height, wp |-> WPos, wv |-> WVel, alt |-> Alt, shrink |-> Shrink,
                    ops |-> <<"p", "u", "p", "u", "p">>,
                    st |-> <<St(r.s1), St(r.s2), St(r.s3), St(r.s4), St(r.s5)>>, d |-> r.d])>>)
=============================================================================
