-------------------------------- MODULE GenKH --------------------------------
(* Exact runs with a height jump: initiate(x0, h0 = 20); predict;              *)
(* update(x1, h0 + 31 j); predict; distance(x2, h2).                            *)
EXTENDS KalmanExactH, Json, TLC
CONSTANTS Xs, Js, H2s
VARIABLES stage, z
vars == <<stage, z>>
Init == stage = 0 /\ z = <<>>
Next == \/ stage = 0 /\ stage' = 1 /\ \E a \in Xs, j \in Js : z' = <<a, j>>
        \/ stage = 1 /\ stage' = 2 /\ \E b \in Xs, c \in Xs, g \in H2s : z' = z \o <<b, c, g>>
Spec == Init /\ [][Next]_vars
St(s) == <<s.p, s.v, s.pp, s.pv, s.vv>>
Emit == stage = 2 =>
        LET r == RunH(100 + z[1], 20, 100 + z[3], 20 + 31 * z[2], 100 + z[4], 20 + 31 * z[2] + z[5]) IN
        PrintT(<<"REPLAY", ToJson([kind |-> "exacth", x |-> <<100 + z[1], 100 + z[3], 100 + z[4]>>,
                    hs |-> <<20, 20 + 31 * z[2], 20 + 31 * z[2] + z[5]>>, wp |-> WPos, wv |-> WVel,
                    x3 |-> St(r.s3.x), h3 |-> St(r.s3.h), x2 |-> St(r.s2.x), h2 |-> St(r.s2.h), d |-> r.d])>>)
=============================================================================
