-------------------------------- MODULE GenKP --------------------------------
(* Every operation sequence of length D over OpsOver(M), for every initiating    *)
(* measurement index, filter kind and weight pair; flags tell for which prefixes *)
(* the stationary outcome is mandated.  Measurements are in 1/1000 units:        *)
(*   box j   = <<xc, yc, angle (0 = none), aspect, height>>                       *)
(*   point set j = <<<<x, y>>, ...>> (the vector filter takes the whole set; the  *)
(*   point filter each point separately)                                          *)
EXTENDS KalmanProto, Json, TLC
CONSTANTS M, D
(* box 2 is rotated by a NEGATIVE angle, box 3 by more than a full turn: a filter works on the angle as measured *)
Boxes == << <<100000, 50000, 0, 500, 20000>>, <<103500, 48250, -300, 550, 21000>>, <<4000000, 3000250, 6600, 2000, 160000>> >>
PointSets == << << <<100000, 50000>>, <<-7500, 1250>>, <<0, 0>> >>,
                << <<101500, 49250>>, <<-7000, 1000>>, <<250, -125>> >>,
                << <<9000000, 1000>>, <<-7500, 1250>>, <<3000, 4000>> >> >>
(* weights as denominators: <<a, b>> = (1/a, 1/b); <<20, 160>> is the library default *)
Weights == << <<20, 160>>, <<10, 40>> >>
VARIABLES flt, i0, w, h
vars == <<flt, i0, w, h>>
Init == flt = "none" /\ i0 = 0 /\ w = 0 /\ h = <<>>
Next == \/ flt = "none" /\ flt' \in {"box", "vec"} /\ i0' \in 1..M /\ w' \in 1..Len(Weights) /\ h' = h
        \/ flt # "none" /\ Len(h) < D /\ UNCHANGED <<flt, i0, w>> /\ \E op \in OpsOver(M) \cup (IF flt = "vec" THEN ReinitOps(M) ELSE {}) : h' = Append(h, op)
Spec == Init /\ [][Next]_vars
Emit == (flt # "none" /\ Len(h) = D) =>
        PrintT(<<"REPLAY", ToJson([kind |-> "proto", filter |-> flt, i0 |-> i0, w |-> Weights[w], ops |-> h,
                 stat |-> StatFlags(h, i0), dzero |-> ZeroDistFlags(h, i0),
                 meas |-> IF flt = "box" THEN SubSeq(Boxes, 1, M) ELSE SubSeq(PointSets, 1, M)])>>)
=============================================================================
