---------------------------- MODULE KalmanExact ----------------------------
(* Textbook constant-velocity Kalman filter for ONE dimension in exact       *)
(* rationals <<num, den>> (den > 0, normalised).  State: mean (p, v), cov    *)
(* (pp, pv, vv).  Noise: Q = diag(qp, qv), R = r, P0 = diag(4 qp', ...)      *)
EXTENDS Integers, Sequences, TLC, Json
RECURSIVE Gcd(_, _)
Gcd(a, b) == IF b = 0 THEN a ELSE Gcd(b, a % b)
Abs(x) == IF x < 0 THEN -x ELSE x
Norm(n, d) == LET g == Gcd(Abs(n), d) IN IF n = 0 THEN <<0, 1>> ELSE <<n \div g, d \div g>>
R(n) == <<n, 1>>
Add(x, y) == LET g == Gcd(x[2], y[2]) IN Norm(x[1] * (y[2] \div g) + y[1] * (x[2] \div g), (x[2] \div g) * y[2])
Neg(x) == <<-x[1], x[2]>>
Sub(x, y) == Add(x, Neg(y))
Mul(x, y) == LET g1 == Gcd(Abs(x[1]), y[2])  g2 == Gcd(Abs(y[1]), x[2]) IN
             Norm((x[1] \div (IF g1 = 0 THEN 1 ELSE g1)) * (y[1] \div (IF g2 = 0 THEN 1 ELSE g2)),
                  (x[2] \div (IF g2 = 0 THEN 1 ELSE g2)) * (y[2] \div (IF g1 = 0 THEN 1 ELSE g1)))
Inv(x) == IF x[1] > 0 THEN <<x[2], x[1]>> ELSE <<-x[2], -x[1]>>
Div(x, y) == Mul(x, Inv(y))

(* parameters: height 20, position weight 1/20, velocity weight 1/160:
   sigma_p = 1, sigma_v = 1/8                                                *)
SigP2 == R(1)            \* (w_p h)^2
SigV2 == <<1, 4>>        \* (w_v h)^2 with w_v = 1/40
Initiate(z) == [p |-> R(z), v |-> R(0), pp |-> Mul(R(4), SigP2), pv |-> R(0), vv |-> Mul(R(100), SigV2)]
Predict(s) == [p  |-> Add(s.p, s.v), v |-> s.v,
               pp |-> Add(Add(Add(s.pp, Mul(R(2), s.pv)), s.vv), SigP2),
               pv |-> Add(s.pv, s.vv),
               vv |-> Add(s.vv, SigV2)]
S(s) == Add(s.pp, SigP2)                              \* innovation variance
Update(s, z) == LET sv == S(s)  kp == Div(s.pp, sv)  kv == Div(s.pv, sv)  y == Sub(R(z), s.p) IN
                [p  |-> Add(s.p, Mul(kp, y)), v |-> Add(s.v, Mul(kv, y)),
                 pp |-> Mul(kp, SigP2),                 \* = pp - pp^2/S  because S = pp + R
                 pv |-> Mul(kv, SigP2),
                 vv |-> Sub(s.vv, Mul(kv, s.pv))]
Dist2(s, z) == LET y == Sub(R(z), s.p) IN Div(Mul(y, y), S(s))
SPD(s) == s.pp[1] > 0 /\ Sub(Mul(s.pp, s.vv), Mul(s.pv, s.pv))[1] > 0

Run(z0, z1, z2, z3) ==
  LET s0 == Initiate(z0)  s1 == Predict(s0)  s2 == Update(s1, z1)
      s3 == Predict(s2)   s4 == Update(s3, z2)  s5 == Predict(s4)
  IN [s2 |-> s2, s4 |-> s4, s5 |-> s5, d |-> Dist2(s5, z3), spd |-> SPD(s2) /\ SPD(s4) /\ SPD(s5)]
ASSUME PrintT(Run(100, 102, 105, 107))
ASSUME PrintT(Run(-10, -13, -13, -20))
VARIABLE x
Init == x = 0
Next == x' = x
=============================================================================
