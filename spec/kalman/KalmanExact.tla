---------------------------- MODULE KalmanExact ----------------------------
(* Property C07, exact recurrence.  Textbook constant-velocity Kalman filter   *)
(* for ONE coordinate in exact rationals <<num, den>> (den > 0, lowest terms). *)
(* State: mean (p, v), covariance (pp, pv, vv).  dt = 1.                       *)
(*   F = [1 1; 0 1],  H = [1 0],  Q = diag(SigP2, SigV2),  R = SigP2,          *)
(*   P0 = diag(4 SigP2, 100 SigV2)                                             *)
(* which is the library's noise model for a coordinate whose standard          *)
(* deviations are sigma_p = w_p * h and sigma_v = w_v * h (box filter: h = box *)
(* height; point filters: h = 1): initial std 2 sigma_p and 10 sigma_v,        *)
(* process and measurement std sigma_p resp. sigma_v.                          *)
(* Parameters are dyadic so that two predict/update cycles fit TLC's 32-bit    *)
(* integers: h = 20, w_p = 1/20, w_v = 1/40 (the default 1/160 overflows).     *)
EXTENDS Integers, Sequences
RECURSIVE Gcd(_, _)
Gcd(a, b) == IF b = 0 THEN a ELSE Gcd(b, a % b)
Abs(x) == IF x < 0 THEN -x ELSE x
Norm(n, d) == LET g == Gcd(Abs(n), d) IN IF n = 0 THEN <<0, 1>> ELSE <<n \div g, d \div g>>
R(n) == <<n, 1>>
Add(x, y) == LET g == Gcd(x[2], y[2]) IN Norm(x[1] * (y[2] \div g) + y[1] * (x[2] \div g), (x[2] \div g) * y[2])
Neg(x) == <<-x[1], x[2]>>
Sub(x, y) == Add(x, Neg(y))
Mul(x, y) == LET g1 == Gcd(Abs(x[1]), y[2])  g2 == Gcd(Abs(y[1]), x[2]) IN
             Norm((x[1] \div (IF g1 = 0 THEN 1 ELSE g1)) * (y[1] \div (IF g2 = 0 THEN 1 ELSE g2)),
                  (x[2] \div (IF g2 = 0 THEN 1 ELSE g2)) * (y[2] \div (IF g1 = 0 THEN 1 ELSE g1)))
Inv(x) == IF x[1] > 0 THEN <<x[2], x[1]>> ELSE <<-x[2], -x[1]>>
Div(x, y) == Mul(x, Inv(y))
Pos(x) == x[1] > 0

Height == R(20)
WPos == <<1, 20>>
WVel == <<1, 40>>
SigP2 == Mul(Mul(WPos, Height), Mul(WPos, Height))      \* (w_p h)^2 = 1
SigV2 == Mul(Mul(WVel, Height), Mul(WVel, Height))      \* (w_v h)^2 = 1/4
Initiate(z) == [p |-> R(z), v |-> R(0), pp |-> Mul(R(4), SigP2), pv |-> R(0), vv |-> Mul(R(100), SigV2)]
(* m' = F m,  P' = F P F^T + Q *)
Predict(s) == [p  |-> Add(s.p, s.v), v |-> s.v,
               pp |-> Add(Add(Add(s.pp, Mul(R(2), s.pv)), s.vv), SigP2),
               pv |-> Add(s.pv, s.vv),
               vv |-> Add(s.vv, SigV2)]
S(s) == Add(s.pp, SigP2)                              \* innovation variance H P H^T + R
(* K = P H^T / S,  m' = m + K (z - H m),  P' = P - K S K^T *)
Update(s, z) == LET sv == S(s)  kp == Div(s.pp, sv)  kv == Div(s.pv, sv)  y == Sub(R(z), s.p) IN
                [p  |-> Add(s.p, Mul(kp, y)), v |-> Add(s.v, Mul(kv, y)),
                 pp |-> Sub(s.pp, Mul(kp, s.pp)),
                 pv |-> Sub(s.pv, Mul(kp, s.pv)),
                 vv |-> Sub(s.vv, Mul(kv, s.pv))]
(* squared Mahalanobis distance of a measurement from the projected state *)
Dist2(s, z) == LET y == Sub(R(z), s.p) IN Div(Mul(y, y), S(s))
(* symmetric by construction (pv stored once); positive-definite: leading minors *)
SPD(s) == Pos(s.pp) /\ Pos(Sub(Mul(s.pp, s.vv), Mul(s.pv, s.pv)))

(* ---- the same recurrence with rational measurements and explicit noise variances (for the scaling law below) ---- *)
InitiateQ(zq, sp2, sv2) == [p |-> zq, v |-> R(0), pp |-> Mul(R(4), sp2), pv |-> R(0), vv |-> Mul(R(100), sv2)]
PredictQ(s, sp2, sv2) == [p  |-> Add(s.p, s.v), v |-> s.v,
                          pp |-> Add(Add(Add(s.pp, Mul(R(2), s.pv)), s.vv), sp2),
                          pv |-> Add(s.pv, s.vv),
                          vv |-> Add(s.vv, sv2)]
UpdateQ(s, zq, sp2) == LET sv == Add(s.pp, sp2)  kp == Div(s.pp, sv)  kv == Div(s.pv, sv)  y == Sub(zq, s.p) IN
                       [p  |-> Add(s.p, Mul(kp, y)), v |-> Add(s.v, Mul(kv, y)),
                        pp |-> Sub(s.pp, Mul(kp, s.pp)),
                        pv |-> Sub(s.pv, Mul(kp, s.pv)),
                        vv |-> Sub(s.vv, Mul(kv, s.pv))]
Dist2Q(s, zq, sp2) == LET y == Sub(zq, s.p) IN Div(Mul(y, y), Add(s.pp, sp2))
RunQ(q0, q1, q2, q3, sp2, sv2) ==
  LET s0 == InitiateQ(q0, sp2, sv2)  s1 == PredictQ(s0, sp2, sv2)  s2 == UpdateQ(s1, q1, sp2)
      s3 == PredictQ(s2, sp2, sv2)   s4 == UpdateQ(s3, q2, sp2)    s5 == PredictQ(s4, sp2, sv2)
  IN [s1 |-> s1, s2 |-> s2, s3 |-> s3, s4 |-> s4, s5 |-> s5, d |-> Dist2Q(s5, q3, sp2)]
(* Scaling law: measurements c + k (z - c) and standard deviations k sigma give means c + k (p - c), velocities k v,
   covariances k^2 P and the same distance.  ScaledOK compares the run at the scaled inputs with the scaled run. *)
ScaleP(x, c, k) == Add(R(c), Mul(k, Sub(x, R(c))))
ScaleS(s, c, k) == [p |-> ScaleP(s.p, c, k), v |-> Mul(k, s.v), pp |-> Mul(Mul(k, k), s.pp), pv |-> Mul(Mul(k, k), s.pv), vv |-> Mul(Mul(k, k), s.vv)]
Run(z0, z1, z2, z3) ==
  LET s0 == Initiate(z0)  s1 == Predict(s0)  s2 == Update(s1, z1)
      s3 == Predict(s2)   s4 == Update(s3, z2)  s5 == Predict(s4)
  IN [s1 |-> s1, s2 |-> s2, s3 |-> s3, s4 |-> s4, s5 |-> s5, d |-> Dist2(s5, z3),
      spd |-> IF SPD(s0) /\ SPD(s1) /\ SPD(s2) /\ SPD(s3) /\ SPD(s4) /\ SPD(s5) THEN 1 ELSE 0]
ScaledOK(z0, z1, z2, z3, k) ==
  LET r == Run(z0, z1, z2, z3)
      q == RunQ(R(z0), ScaleP(R(z1), z0, k), ScaleP(R(z2), z0, k), ScaleP(R(z3), z0, k), Mul(Mul(k, k), SigP2), Mul(Mul(k, k), SigV2))
  IN /\ q.s1 = ScaleS(r.s1, z0, k) /\ q.s2 = ScaleS(r.s2, z0, k) /\ q.s3 = ScaleS(r.s3, z0, k)
     /\ q.s4 = ScaleS(r.s4, z0, k) /\ q.s5 = ScaleS(r.s5, z0, k) /\ q.d = r.d
=============================================================================
