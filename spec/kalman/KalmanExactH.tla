--------------------------- MODULE KalmanExactH ---------------------------
(* Property C07, exact recurrence with a CHANGING box height.  The library's  *)
(* noise model is height-scaled: the process noise of a predict step uses the  *)
(* height estimate of the state it starts from, the measurement noise of an    *)
(* update / distance uses the height estimate of the (predicted) state it is   *)
(* applied to.  Two coordinates are carried in exact rationals: x and the       *)
(* height h itself (every coordinate evolves independently with the same        *)
(* covariance; the others are kept stationary by the harness).                  *)
(* With h0 = 20, w_p = 1/20, w_v = 1/40 the first gain is (30/31, 25/31), so a  *)
(* height jump that is a multiple of 31 gives an integer height estimate and    *)
(* the next predict step - where "which height scales the noise" matters -      *)
(* stays inside TLC's 32-bit integers.                                          *)
EXTENDS KalmanExact
SP2(h) == Mul(Mul(WPos, h), Mul(WPos, h))
SV2(h) == Mul(Mul(WVel, h), Mul(WVel, h))
InitD(z, h) == [p |-> R(z), v |-> R(0), pp |-> Mul(R(4), SP2(h)), pv |-> R(0), vv |-> Mul(R(100), SV2(h))]
PredD(s, h) == [p  |-> Add(s.p, s.v), v |-> s.v,
                pp |-> Add(Add(Add(s.pp, Mul(R(2), s.pv)), s.vv), SP2(h)),
                pv |-> Add(s.pv, s.vv),
                vv |-> Add(s.vv, SV2(h))]
SD(s, h) == Add(s.pp, SP2(h))
UpdD(s, z, h) == LET sv == SD(s, h)  kp == Div(s.pp, sv)  kv == Div(s.pv, sv)  y == Sub(z, s.p) IN
                 [p  |-> Add(s.p, Mul(kp, y)), v |-> Add(s.v, Mul(kv, y)),
                  pp |-> Sub(s.pp, Mul(kp, s.pp)), pv |-> Sub(s.pv, Mul(kp, s.pv)), vv |-> Sub(s.vv, Mul(kv, s.pv))]
DistD(s, z, h) == LET y == Sub(z, s.p) IN Div(Mul(y, y), SD(s, h))
(* state = [x, h] ; the height that scales the noise is the height MEAN of the state the step starts from *)
InitH(zx, zh) == [x |-> InitD(zx, R(zh)), h |-> InitD(zh, R(zh))]
PredH(s) == [x |-> PredD(s.x, s.h.p), h |-> PredD(s.h, s.h.p)]
UpdH(s, zx, zh) == [x |-> UpdD(s.x, R(zx), s.h.p), h |-> UpdD(s.h, R(zh), s.h.p)]
DistH(s, zx, zh) == Add(DistD(s.x, R(zx), s.h.p), DistD(s.h, R(zh), s.h.p))
RunH(zx0, zh0, zx1, zh1, zx2, zh2) ==
  LET s0 == InitH(zx0, zh0)  s1 == PredH(s0)  s2 == UpdH(s1, zx1, zh1)  s3 == PredH(s2)
  IN [s1 |-> s1, s2 |-> s2, s3 |-> s3, d |-> DistH(s3, zx2, zh2)]
=============================================================================
