---------------------------- MODULE KalmanProto ----------------------------
(* Property C07, operation protocol:  initiate(m) ; (predict | update(m') |    *)
(* distance(m'))*.  The filter state is the exact one-coordinate state of      *)
(* KalmanExact.tla.  What the property states about such sequences:            *)
(*  - stationary object (every measurement equals the initiating one): the     *)
(*    mean stays exactly at the measurement, the velocity stays 0, the         *)
(*    distance of the measurement is 0;                                        *)
(*  - the covariance stays symmetric positive-definite after every operation;  *)
(*  - distance does not change the state;                                      *)
(*  - the filters work coordinate by coordinate (the vector filter point by    *)
(*    point): nothing in a coordinate's recurrence mentions another one - the  *)
(*    state here IS one coordinate.                                            *)
EXTENDS KalmanExact
OpNames == {"p", "u", "d"}
(* applying one operation with measurement z; returns the new state *)
Apply(s, op, z) == CASE op = "p" -> Predict(s) [] op = "u" -> Update(s, z) [] op = "d" -> s
Stationary(s, z) == s.p = R(z) /\ s.v = R(0) /\ Dist2(s, z) = R(0)

(* ---- operation sequences over measurement indices (generation) ----              *)
(* An operation is <<name, j>>: j = index of the measurement it uses (0 for predict). *)
(* The state after k operations is stationary when every UPDATE so far used the       *)
(* initiating measurement i0 (distance does not change the state); for such a state   *)
(* the property fixes the outcome whatever the gain is: position = measurement i0,     *)
(* velocity = 0, and the distance of measurement i0 is 0.  Otherwise the mean is left  *)
(* open here (it is decided on the exact runs of GenK.tla).                            *)
OpsOver(M) == {<<"p", 0>>} \cup {<<o, j>> : o \in {"u", "d"}, j \in 1..M}
(* "r": the vector filter only - point 1 of the state vector is re-initiated from measurement set j while the other
   points keep their history (the vector filter treats its points independently) *)
ReinitOps(M) == {<<"r", j>> : j \in 1..M}
StatState(h, i0, k) == \A i \in 1..k : h[i][1] \in {"u", "r"} => h[i][2] = i0
StatFlags(h, i0) == [k \in 1..Len(h) |-> IF StatState(h, i0, k) THEN 1 ELSE 0]
ZeroDistFlags(h, i0) == [k \in 1..Len(h) |-> IF StatState(h, i0, k) /\ h[k] = <<"d", i0>> THEN 1 ELSE 0]
=============================================================================
