------------------------------- MODULE MCGate -------------------------------
(* TLC: over every distance 0 .. 20.0 in steps of 1/10000 (both gates inside),   *)
(* and the grid points up to 2 * Upper, both conversions gate at the same         *)
(* distance and inverted = upper - direct; costs stay in 0 .. Upper.              *)
EXTENDS Gate, Integers, TLC
VARIABLES dof, blk
Init == dof \in {2, 5} /\ blk = -1
Next == blk = -1 /\ blk' \in 0..19 /\ UNCHANGED dof
Spec == Init /\ [][Next]_<<dof, blk>>
Ok(d) == /\ Consistent(d, dof) /\ (d < Upper => SameGate(d, dof))
         /\ Direct(d, dof) \in 0..Upper /\ Inverted(d, dof) \in 0..Upper
         /\ (d <= Chi95(dof) => Direct(d, dof) = d) /\ (d > Chi95(dof) => Direct(d, dof) = Upper)
Inv == blk >= 0 => /\ \A d \in (blk * 10000)..(blk * 10000 + 10000) : Ok(d)
                   /\ \A d \in Grid : Ok(d)
(* witnesses: TLC must violate *)
W_NeverGated == blk >= 0 => \A d \in Grid : Direct(d, dof) = d
W_NeverAdmitted == blk >= 0 => \A d \in Grid : d > 0 => Direct(d, dof) = Upper
=============================================================================
