SPECIFICATION Spec
INVARIANT W_NeverGated
CHECK_DEADLOCK FALSE
