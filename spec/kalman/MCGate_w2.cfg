SPECIFICATION Spec
INVARIANT W_NeverAdmitted
CHECK_DEADLOCK FALSE
