------------------------------ MODULE MCKalman ------------------------------
(* TLC explores every operation sequence of length <= D after initiate(Z) on    *)
(* the exact recurrence (no history in the state: sequences that lead to the    *)
(* same exact state are merged) and checks the protocol facts.                  *)
EXTENDS KalmanProto, TLC
CONSTANTS Zs, D
VARIABLES z, s, n
vars == <<z, s, n>>
Init == z \in (Zs \cup {-x : x \in Zs}) /\ s = Initiate(z) /\ n = 0
Next == n < D /\ n' = n + 1 /\ z' = z /\ \E op \in OpNames : s' = Apply(s, op, z)
Spec == Init /\ [][Next]_vars
Facts == Stationary(s, z) /\ SPD(s)
W_CovNeverShrinks == Sub(s.pp, Initiate(z).pp)[1] >= 0      \* witness: an update reduces the position variance
W_NoCorrelation == s.pv = R(0)                              \* witness: predict correlates position and velocity
=============================================================================
