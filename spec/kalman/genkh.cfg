CONSTANTS
 Xs = {0, 1, 3}
 Js = {1, 2}
 H2s = {0, 5}
SPECIFICATION Spec
INVARIANT Emit
CHECK_DEADLOCK FALSE
