------------------------------ MODULE GenPyOpt ------------------------------
(* Generation instance for C18 (Python bindings): option objects and default   *)
(* arguments.                                                                   *)
(*                                                                              *)
(* The documented defaults of the Python API are constants of this module:      *)
(*   - VisualSortOptions()  (Rust doc of VisualSortOptions::default and of      *)
(*     VisualMetricBuilder::default: "Euclidean visual metric, IoU(0.3)         *)
(*     positional metric, minimal visual track length 3", ...)                  *)
(*   - Sort(...), BatchSort(...) and the three Kalman filters: the              *)
(*     #[pyo3(signature = ...)] attributes (shards = 4, bbox_history = 1,       *)
(*     max_idle_epochs = 5, method = Mahalanobis, min_confidence = 0.05,        *)
(*     no constraints, kalman weights 1/20 and 1/160).                          *)
(*                                                                              *)
(* A script is a sequence of builder calls on a fresh VisualSortOptions; the    *)
(* expected object is the default record overridden call by call (last call of  *)
(* a method wins, calls on different fields commute).  Every value is a tuple   *)
(* of integers so that all calls have one type:                                 *)
(*   counts                 <<n>>                                               *)
(*   areas, qualities, ...  <<hundredths>>                                      *)
(*   kalman weights         <<den>>  = 1 / den                                  *)
(*   visual_metric          <<0, t>> = Euclidean(t / 100), <<1, t>> = Cosine;   *)
(*                          t = -1: the largest f32 (the default)               *)
(*   positional_metric      <<0>> = Mahalanobis, <<1, t>> = IoU(t / 100)        *)
(*   constraints            <<gap1, limit1, gap2, limit2, ...>>, limits in 1/2  *)
EXTENDS Integers, Sequences, FiniteSets, TLC, Json
CONSTANTS MaxCalls      \* builder calls per script: 0 .. MaxCalls
VARIABLES cs

OptDefaults ==
  [max_idle_epochs |-> <<2>>, kept_history_length |-> <<10>>,
   visual_metric |-> <<0, -1>>, positional_metric |-> <<1, 30>>,
   visual_minimal_track_length |-> <<3>>, visual_minimal_area |-> <<0>>,
   visual_minimal_quality_use |-> <<0>>, visual_minimal_quality_collect |-> <<0>>,
   visual_max_observations |-> <<5>>, visual_min_votes |-> <<1>>,
   visual_minimal_own_area_percentage_use |-> <<0>>, visual_minimal_own_area_percentage_collect |-> <<0>>,
   positional_min_confidence |-> <<10>>, spatio_temporal_constraints |-> <<>>,
   kalman_position_weight |-> <<20>>, kalman_velocity_weight |-> <<160>>]

(* constructor defaults; weights as denominators, min_confidence in hundredths *)
CtorDefaults ==
  [Sort |-> [shards |-> 4, bbox_history |-> 1, max_idle_epochs |-> 5, method |-> <<0>>, min_confidence |-> 5,
             spatio_temporal_constraints |-> <<>>, kalman_position_weight |-> 20, kalman_velocity_weight |-> 160],
   BatchSort |-> [distance_shards |-> 4, voting_shards |-> 4, bbox_history |-> 1, max_idle_epochs |-> 5, method |-> <<0>>,
                  min_confidence |-> 5, spatio_temporal_constraints |-> <<>>, kalman_position_weight |-> 20,
                  kalman_velocity_weight |-> 160],
   Kalman |-> [position_weight |-> 20, velocity_weight |-> 160],
   BatchRequestAdd |-> [custom_object_id |-> <<>>]]

Alphabet ==
  [max_idle_epochs |-> {<<0>>, <<3>>}, kept_history_length |-> {<<1>>, <<4>>},
   visual_metric |-> {<<0, 350>>, <<1, 90>>}, positional_metric |-> {<<0>>, <<1, 45>>},
   visual_minimal_track_length |-> {<<1>>, <<7>>}, visual_minimal_area |-> {<<500>>, <<25>>},
   visual_minimal_quality_use |-> {<<45>>, <<100>>}, visual_minimal_quality_collect |-> {<<50>>, <<75>>},
   visual_max_observations |-> {<<1>>, <<25>>}, visual_min_votes |-> {<<2>>, <<5>>},
   visual_minimal_own_area_percentage_use |-> {<<10>>, <<100>>},
   visual_minimal_own_area_percentage_collect |-> {<<20>>, <<50>>},
   positional_min_confidence |-> {<<13>>, <<75>>},
   spatio_temporal_constraints |-> {<<5, 14>>, <<1, 2, 3, 5>>},
   kalman_position_weight |-> {<<10>>, <<40>>}, kalman_velocity_weight |-> {<<80>>, <<320>>}]

Methods == DOMAIN OptDefaults
Calls == {[m |-> m, v |-> v] : m \in Methods, v \in UNION {Alphabet[x] : x \in Methods}}
CallsOK == {c \in Calls : c.v \in Alphabet[c.m]}

RECURSIVE Eff(_)
Eff(s) == IF s = <<>> THEN OptDefaults
          ELSE LET n == Len(s) IN [Eff(SubSeq(s, 1, n - 1)) EXCEPT ![s[n].m] = s[n].v]

Init == cs = <<>>
Next == /\ Len(cs) < MaxCalls
        /\ \E c \in CallsOK : cs' = Append(cs, c)
Spec == Init /\ [][Next]_cs

(* facts of the fold the comparison relies on *)
Facts == /\ \A i \in DOMAIN cs : (\A j \in DOMAIN cs : j > i => cs[j].m # cs[i].m) => Eff(cs)[cs[i].m] = cs[i].v
         /\ \A m \in Methods : (\A i \in DOMAIN cs : cs[i].m # m) => Eff(cs)[m] = OptDefaults[m]

Emit == /\ PrintT(<<"REPLAY", ToJson([kind |-> "opts", calls |-> cs, exp |-> Eff(cs)])>>)
        /\ (cs = <<>> => PrintT(<<"REPLAY", ToJson([kind |-> "ctor_defaults", ctor |-> CtorDefaults, opts |-> OptDefaults])>>))
=============================================================================
