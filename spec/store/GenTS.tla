------------------------------- MODULE GenTS -------------------------------
(* Generation configuration of TrackStore: an operation alphabet as records,  *)
(* a history variable and a depth bound.  Every behaviour of length D is       *)
(* printed as one JSON line and replayed into the real store by `vh replay     *)
(* store`; each step carries the spec's return value, the admissible           *)
(* notification counts and the projected store.                                *)
EXTENDS TrackStore, Json, Integers, Randomization
CONSTANTS D,        \* behaviour length
          Alpha,    \* "full" | "small" : operation alphabet
          Sim,      \* 0 = enumerate every operation; k > 0 = draw k candidate operations per step (for -simulate)
          Pre       \* 0 = behaviours start from the empty store; 1 = every behaviour starts by adding two tracks (ids 1, 2
                    \* with observations in different classes), so that short behaviours reach successful owned merges
VARIABLE h

HasObs(t) == \E c \in Classes : t.obs[c] # <<>>
PT(t) == [id |-> t.id, cnt |-> t.attrs.cnt, tag |-> t.attrs.tag, st |-> t.attrs.st,
          obs |-> [c \in Classes |-> t.obs[c]],
          cls |-> AscSeq({c \in Classes : t.obs[c] # <<>>}),      \* the classes the track has
          calls |-> IF HasObs(t) THEN t.calls ELSE -1,      \* metric state is observable only through an observation
          hist |-> t.hist]
PJ(st) == LET ids == AscSeq(Dom(st)) IN
          [ids |-> ids, tr |-> [i \in 1..Len(ids) |-> PT(st[ids[i]])],
           stats |-> [s \in 1..N |-> ShardStats(st)[s - 1]],
           usable |-> FindUsable(st)]

AddVariants == IF Alpha = "full"
  THEN {<<1, "none", FALSE>>, <<1, "ok", FALSE>>, <<0, "ready", FALSE>>, <<1, "fail", FALSE>>, <<1, "none", TRUE>>,
        <<2, "tag1", FALSE>>, <<0, "wasted", FALSE>>, <<0, "none", FALSE>>, <<0, "broken", FALSE>>}
  ELSE {<<1, "none", FALSE>>, <<0, "ready", FALSE>>, <<1, "fail", FALSE>>, <<1, "none", TRUE>>, <<0, "none", FALSE>>}
OwnedClassLists == IF Alpha = "full" THEN {<<>>, <<0>>, <<0, 1>>, <<1, 0>>} ELSE {<<0>>, <<1, 0>>}
OwnedFaults == IF Alpha = "full" THEN {"none", "attr", "opt1", "opt2"} ELSE {"none", "opt2"}

Ops ==
  (* a track built externally (TrackBuilder) and inserted: with an ordinary observation, and with an attribute-only
     observation (no feature, no observation attribute, only a track-attribute update: the update must be applied) *)
  {[op |-> "add_track", id |-> id, cls |-> c, v |-> 2, u |-> "none"] : id \in Ids, c \in Classes}
  \cup {[op |-> "add_track", id |-> id, cls |-> 0, v |-> 0, u |-> uu] : id \in Ids, uu \in (IF Alpha = "full" THEN {"ready", "tag1"} ELSE {"ready"})}
  \cup {[op |-> "add", id |-> id, cls |-> c, v |-> a[1], u |-> a[2], optfail |-> a[3]] : id \in Ids, c \in Classes, a \in AddVariants}
  \cup {[op |-> "fetch", ids |-> AscSeq(S)] : S \in (SUBSET Ids) \ {{}}}
  \cup {[op |-> "merge_owned", dst |-> d, src |-> s, classes |-> cl, all |-> al, remove |-> rm, hist |-> hf, fault |-> f] :
           d \in Ids, s \in Ids, cl \in OwnedClassLists, al \in BOOLEAN, rm \in BOOLEAN,
           hf \in (IF Alpha = "full" THEN {TRUE} ELSE BOOLEAN), f \in OwnedFaults}
  \cup {[op |-> "merge_external", dst |-> d, ext |-> e, ecls |-> c, ev |-> 1, classes |-> cl, all |-> FALSE, hist |-> hf, fault |-> f, noblock |-> nb] :
           d \in Ids, e \in ExtIds, c \in Classes, cl \in {<<0>>, <<1, 0>>}, hf \in BOOLEAN, f \in {"none", "opt1"},
           nb \in (IF Alpha = "full" THEN {FALSE} ELSE BOOLEAN)}
  \cup {[op |-> "merge_external", dst |-> d, ext |-> d, ecls |-> 0, ev |-> 1, classes |-> <<0>>, all |-> TRUE, hist |-> TRUE, fault |-> "none", noblock |-> FALSE] : d \in Ids}
  \cup {[op |-> "lookup", tag |-> g] : g \in {0, 1}}
  \cup {[op |-> "clear"]}
Valid(o) == o.op = "merge_owned" => (o.all => o.classes = <<>>) /\ (~o.all => o.classes # <<>>)

UpdOf(k) == [kind |-> k]
Exec(st, o) ==
  CASE o.op = "add_track" -> OpAddTrack(st, T!Build(o.id, o.cls, o.v, UpdOf(o.u), FALSE).t)
    [] o.op = "add" -> OpAdd(st, o.id, o.cls, o.v, UpdOf(o.u), o.optfail)
    [] o.op = "fetch" -> OpFetch(st, {o.ids[i] : i \in DOMAIN o.ids})
    [] o.op = "merge_owned" -> OpMergeOwned(st, o.dst, o.src, o.classes, o.all, o.remove, o.hist, o.fault)
    [] o.op = "merge_external" -> OpMergeExternal(st, o.dst, ExtTrack(o.ext, o.ecls, o.ev), o.classes, o.all, o.hist, o.fault)
    [] o.op = "lookup" -> [st |-> st, ret |-> Lookup(st, o.tag), notes |-> {0}]
    [] o.op = "clear" -> OpClear(st)

ValidOps == {o \in Ops : Valid(o)}
Step(o) == LET r == Exec(store, o) IN
           /\ store' = r.st
           /\ h' = Append(h, [o |-> o, ret |-> r.ret, notes |-> r.notes, proj |-> PJ(r.st)])
PreOps == IF Pre = 0 THEN <<>>
          ELSE <<[op |-> "add_track", id |-> 1, cls |-> 0, v |-> 2, u |-> "none"], [op |-> "add_track", id |-> 2, cls |-> 1, v |-> 2, u |-> "none"]>>
RECURSIVE Run(_, _, _)
Run(st, hh, ops) ==
  IF ops = <<>> THEN [st |-> st, h |-> hh]
  ELSE LET r == Exec(st, Head(ops)) IN
       Run(r.st, Append(hh, [o |-> Head(ops), ret |-> r.ret, notes |-> r.notes, proj |-> PJ(r.st)]), Tail(ops))
GInit == LET r == Run(Empty, <<>>, PreOps) IN store = r.st /\ h = r.h
GNext == /\ Len(h) < D
         /\ \E o \in (IF Sim = 0 THEN ValidOps ELSE RandomSubset(Sim, ValidOps)) : Step(o)
GSpec == GInit /\ [][GNext]_<<store, h>>
Emit == Len(h) = D => PrintT(<<"REPLAY", ToJson(h)>>)
NOps == Cardinality(ValidOps)
=============================================================================
