CONSTANTS
 Ids = {1, 2}
 ExtIds = {9}
 Classes = {0, 1}
 Cap = 2
 N = 2
 D = 2
 Alpha = "full"
 Sim = 0
SPECIFICATION GSpec
INVARIANT Emit
CHECK_DEADLOCK FALSE
