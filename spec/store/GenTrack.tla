------------------------------ MODULE GenTrack ------------------------------
(* Fault enumeration for property C11 on a single track (no store): every      *)
(* destination shape x source shape x class list x history flag x fault         *)
(* position for Track::merge, every shape x class x value x update x fault for  *)
(* add_observation, and (Mode = "merge2") sequences of two merges.  One JSON    *)
(* line per case with the result the specification requires.                    *)
EXTENDS Track, Json, Integers, TLC
CONSTANTS Mode    \* "single" | "merge2"
VARIABLES stage, c
vars == <<stage, c>>

Shapes == [Classes -> 0..2]              \* number of observations per class
RECURSIVE AscSeq(_)
AscSeq(S) == IF S = {} THEN <<>> ELSE LET m == CHOOSE x \in S : \A y \in S : x <= y IN <<m>> \o AscSeq(S \ {m})
(* build a track of a given shape with the operators of the specification itself *)
RECURSIVE AddAll(_, _, _)
AddAll(t, cs, sh) == IF cs = <<>> THEN t
                     ELSE LET cl == Head(cs)
                              t1 == IF sh[cl] >= 1 THEN AddObservation(t, cl, 1, [kind |-> "ok"], FALSE).t ELSE t
                              t2 == IF sh[cl] >= 2 THEN AddObservation(t1, cl, 2, [kind |-> "ok"], FALSE).t ELSE t1
                          IN AddAll(t2, Tail(cs), sh)
Mk(id, sh) == AddAll(NewTrack(id), AscSeq(Classes), sh)
SeqsNoRep(S, n) == UNION {{q \in [1..k -> S] : \A i, j \in 1..k : i # j => q[i] # q[j]} : k \in 0..n}
ClassListsAll == SeqsNoRep(Classes, 3)
FaultsAll == {"none", "attr", "opt1", "opt2", "opt3"}

PT(t) == [id |-> t.id, cnt |-> t.attrs.cnt, tag |-> t.attrs.tag, st |-> t.attrs.st,
          obs |-> [k \in Classes |-> t.obs[k]],
          cls |-> AscSeq({k \in Classes : t.obs[k] # <<>>}),
          calls |-> IF \E k \in Classes : t.obs[k] # <<>> THEN t.calls ELSE -1, hist |-> t.hist]
PR(r) == [ok |-> r.ok, notes |-> r.notes, t |-> PT(r.t)]

Init == stage = 0 /\ c = [kind |-> "init"]
SmallShapes == {s \in Shapes : s[2] = 0}
SmallLists == {<<0>>, <<1, 0>>, <<2>>, <<0, 2>>}
SmallFaults == {"none", "attr", "opt2"}
Pick == IF Mode = "single" THEN Shapes ELSE SmallShapes
Next ==
  \/ /\ stage = 0 /\ \E ds \in Pick : c' = [ds |-> ds] /\ stage' = 1
  \/ /\ stage = 1 /\ Mode = "single" /\ stage' = 2
     /\ \/ \E ss \in Shapes, cl \in ClassListsAll, hf \in BOOLEAN, f \in FaultsAll :
             LET d == Mk(1, c.ds)  s == Mk(2, ss)  r == Merge(d, s, cl, hf, f) IN
             /\ Assert(Atomic(d, r) /\ NotifiedOnce(r) /\ HistRule(d, s, cl, hf, r), <<"C11 violated by the specification", c.ds, ss, cl, hf, f>>)
             /\ c' = [kind |-> "merge", ds |-> c.ds, ss |-> ss, classes |-> cl, hist |-> hf, fault |-> f, exp |-> PR(r)]
        \/ \E cl \in Classes, v \in {0, 1, 3}, u \in Updates, of \in BOOLEAN :
             LET d == Mk(1, c.ds)  r == AddObservation(d, cl, v, u, of) IN
             /\ Assert(Atomic(d, r) /\ NotifiedOnce(r), "C11 violated by the specification (add)")
             /\ c' = [kind |-> "add", ds |-> c.ds, cls |-> cl, v |-> v, u |-> u.kind, optfail |-> of, exp |-> PR(r)]
        (* the builder: Track::new, then the observations in order; the first failing one fails the build *)
        \/ \E c1 \in Classes, c2 \in Classes, u1 \in {"ok", "ready"}, u2 \in {"none", "ok", "fail"}, f \in {"none", "opt1", "opt2"} :
             LET t0 == NewTrack(1)
                 r1 == AddObservation(t0, c1, 1, [kind |-> u1], f = "opt1")
                 r2 == IF r1.ok THEN AddObservation(r1.t, c2, 2, [kind |-> u2], f = "opt2") ELSE r1 IN
             /\ c.ds = [cc \in Classes |-> 0]
             /\ c' = [kind |-> "build", ds |-> c.ds, obs |-> <<[cls |-> c1, v |-> 1, u |-> u1], [cls |-> c2, v |-> 2, u |-> u2]>>,
                      fault |-> f, exp |-> [ok |-> r2.ok, notes |-> {0}, t |-> PT(IF r2.ok THEN r2.t ELSE t0)]]
  \/ /\ stage = 1 /\ Mode = "merge2" /\ stage' = 2
     /\ \E s1 \in SmallShapes, cl1 \in SmallLists, h1 \in BOOLEAN, f1 \in SmallFaults,
           s2 \in SmallShapes, cl2 \in SmallLists, h2 \in BOOLEAN, f2 \in SmallFaults :
             LET d == Mk(1, c.ds)  a == Mk(2, s1)  b == Mk(3, s2)
                 r1 == Merge(d, a, cl1, h1, f1)  r2 == Merge(r1.t, b, cl2, h2, f2) IN
             /\ Assert(Atomic(r1.t, r2) /\ HistRule(r1.t, b, cl2, h2, r2), "C11 violated by the specification (second merge)")
             /\ c' = [kind |-> "merge2", ds |-> c.ds, s1 |-> s1, cl1 |-> cl1, h1 |-> h1, f1 |-> f1,
                      s2 |-> s2, cl2 |-> cl2, h2 |-> h2, f2 |-> f2, exp1 |-> PR(r1), exp2 |-> PR(r2)]
Spec == Init /\ [][Next]_vars
Emit == stage = 2 => PrintT(<<"REPLAY", ToJson(c)>>)
=============================================================================
