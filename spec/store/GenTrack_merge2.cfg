CONSTANTS
 Classes = {0, 1, 2}
 Cap = 2
 Mode = "merge2"
SPECIFICATION Spec
INVARIANT Emit
CHECK_DEADLOCK FALSE
