CONSTANTS
 Classes = {0, 1, 2}
 Cap = 2
 Mode = "single"
SPECIFICATION Spec
INVARIANT Emit
CHECK_DEADLOCK FALSE
