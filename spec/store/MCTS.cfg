CONSTANTS
 Ids = {1, 2}
 ExtIds = {9}
 Classes = {0, 1}
 Cap = 2
 N = 2
SPECIFICATION MCSpec
INVARIANTS StatsSum IdsMatch HistStartsWithOwn ObsBounded
CONSTRAINT MCBound
CHECK_DEADLOCK FALSE
