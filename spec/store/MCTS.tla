-------------------------------- MODULE MCTS --------------------------------
(* Model-checking instance of TrackStore: the same operators, a reduced       *)
(* argument alphabet so that the complete state graph is finite and small.    *)
EXTENDS TrackStore
MCUpdates == {T!NoUpd, [kind |-> "ready"], [kind |-> "tag1"], [kind |-> "fail"]}
MCFaults == {"none", "attr", "opt1", "opt2"}
MCClassLists == {<<>>, <<0>>, <<1, 0>>}
MCNext ==
  \/ \E id \in Ids, c \in Classes :
        LET b == T!Build(id, c, 2, T!NoUpd, FALSE) IN Do(OpAddTrack(store, b.t))
  \/ \E id \in Ids, c \in Classes, v \in {0, 1}, u \in MCUpdates, f \in BOOLEAN :
        LET r == OpAdd(store, id, c, v, u, f) IN
        /\ Assert(r.ret = "err" => r.st = store, "failed add changed the store")
        /\ Do(r)
  \/ \E S \in SUBSET Ids : S # {} /\
        LET r == OpFetch(store, S) IN
        /\ Assert(\A id \in S : ~Has(r.st, id), "fetched id still present")
        /\ Do(r)
  \/ \E d \in Ids, s \in Ids, cl \in MCClassLists, rm \in BOOLEAN, h \in BOOLEAN, f \in MCFaults :
        LET r == OpMergeOwned(store, d, s, cl, cl = <<>>, rm, h, f) IN
        /\ Assert(MergeFrame(store, r, d, s, rm), <<"merge_owned frame", store, d, s, cl, rm, h, f>>)
        /\ Assert((~Has(store, d) \/ ~Has(store, s) \/ d = s \/ (f = "attr")) => r.ret = "err", "merge failure not reported")
        /\ Do(r)
  \/ \E d \in Ids, e \in ExtIds \cup Ids, c \in Classes, cl \in MCClassLists, h \in BOOLEAN, f \in MCFaults :
        LET r == OpMergeExternal(store, d, ExtTrack(e, c, 1), cl, cl = <<>>, h, f) IN
        /\ Assert(MergeFrame(store, r, d, 0, FALSE), "merge_external frame")
        /\ Assert((~Has(store, d) \/ d = e \/ f = "attr") => r.ret = "err", "merge failure not reported")
        /\ Do(r)
  \/ Do(OpClear(store))
MCSpec == Init /\ [][MCNext]_vars
MCBound == \A id \in Dom(store) : Len(store[id].hist) <= 3 /\ store[id].attrs.cnt <= 2 /\ store[id].calls <= 3
MCBoundQ == \A id \in Dom(store) : Len(store[id].hist) <= 2 /\ store[id].attrs.cnt <= 1 /\ store[id].calls <= 2
=============================================================================
