CONSTANTS
 Ids = {1, 2}
 ExtIds = {9}
 Classes = {0, 1}
 Cap = 1
 N = 2
SPECIFICATION MCSpec
INVARIANTS StatsSum IdsMatch HistStartsWithOwn ObsBounded
CONSTRAINT MCBoundQ
CHECK_DEADLOCK FALSE
