CONSTANTS
 Ids = {1, 2}
 ExtIds = {9}
 Classes = {0, 1}
 Cap = 2
 N = 2
SPECIFICATION Spec
INVARIANTS StatsSum IdsMatch HistStartsWithOwn ObsBounded
CONSTRAINT Bound
CHECK_DEADLOCK FALSE
