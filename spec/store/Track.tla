-------------------------------- MODULE Track --------------------------------
(* One track of the store layer: attributes, observations per feature class,  *)
(* metric state, merge history.  The user callbacks are the ones of the       *)
(* harness doubles (harness/src/doubles.rs), modelled exactly:                *)
(*   update.apply       : cnt + 1 and an optional tag / status change; "fail" *)
(*                        fails without touching anything                     *)
(*   attrs.merge        : cnt + other.cnt, may be made to fail                *)
(*   metric.optimise(c) : calls + 1, stable sort descending by observation    *)
(*                        value, truncate to Cap; the k-th invocation of an   *)
(*                        operation may be made to fail                       *)
(* Every operator returns [ok, t, notes]: success flag, resulting track and   *)
(* the set of admissible numbers of change notifications.  On failure t is    *)
(* the input track: updates are atomic (property C11).                        *)
EXTENDS Naturals, Sequences, FiniteSets
CONSTANTS Classes, Cap

NoUpd == [kind |-> "none"]
Updates == {NoUpd, [kind |-> "ok"], [kind |-> "ready"], [kind |-> "wasted"],
            [kind |-> "tag1"], [kind |-> "fail"], [kind |-> "broken"]}      \* "broken": from now on the status computation itself fails (status "e")
Apply(a, u) == CASE u.kind = "ok"     -> [a EXCEPT !.cnt = @ + 1]
                 [] u.kind = "ready"  -> [a EXCEPT !.cnt = @ + 1, !.st = "r"]
                 [] u.kind = "wasted" -> [a EXCEPT !.cnt = @ + 1, !.st = "w"]
                 [] u.kind = "tag1"   -> [a EXCEPT !.cnt = @ + 1, !.tag = 1]
                 [] u.kind = "broken" -> [a EXCEPT !.cnt = @ + 1, !.st = "e"]
                 [] OTHER             -> a

NewTrack(id) == [id |-> id, attrs |-> [cnt |-> 0, tag |-> 0, st |-> "p"],
                 obs |-> [c \in Classes |-> <<>>], calls |-> 0, hist |-> <<id>>]

(* insertion sort, descending, stable - what the double's optimise does *)
RECURSIVE SortDesc(_), Insert(_, _)
Insert(x, s) == IF s = <<>> THEN <<x>>
                ELSE IF x > Head(s) THEN <<x>> \o s ELSE <<Head(s)>> \o Insert(x, Tail(s))
SortDesc(s) == IF s = <<>> THEN <<>> ELSE Insert(s[Len(s)], SortDesc(SubSeq(s, 1, Len(s) - 1)))
Trunc(s) == IF Len(s) > Cap THEN SubSeq(s, 1, Cap) ELSE s
Optimise(s) == Trunc(SortDesc(s))

Fail(t) == [ok |-> FALSE, t |-> t, notes |-> {0}]

(* v = 0 : neither observation attribute nor feature given -> only the        *)
(* attribute update happens (and is notified).  optFail: the optimise call of  *)
(* this operation fails.                                                       *)
AddObservation(t, cls, v, u, optFail) ==
  IF u.kind = "fail" THEN Fail(t)
  ELSE LET a1 == Apply(t.attrs, u) IN
       IF v = 0 THEN [ok |-> TRUE, t |-> [t EXCEPT !.attrs = a1], notes |-> {1}]
       ELSE IF optFail THEN Fail(t)
       ELSE [ok |-> TRUE, notes |-> {1},
             t |-> [t EXCEPT !.attrs = a1, !.obs[cls] = Optimise(Append(@, v)), !.calls = @ + 1]]

(* builder: Track::new (one notification) followed by the observation *)
Build(id, cls, v, u, optFail) ==
  LET r == AddObservation(NewTrack(id), cls, v, u, optFail) IN
  [ok |-> r.ok, t |-> r.t, notes |-> IF r.ok THEN {2} ELSE {1}]

OptName(k) == <<"opt1", "opt2", "opt3", "opt4">>[k]
Present(t, src, cls) == t.obs[cls] # <<>> \/ src.obs[cls] # <<>>
(* classes: sequence without repetitions.  fault: "none", "attr" (attribute    *)
(* merge fails) or "opt<k>": the k-th optimise call of this merge fails; calls  *)
(* are made for the requested classes present in either track, in list order.  *)
RECURSIVE MergeClasses(_, _, _, _, _)
MergeClasses(t, src, classes, k, fault) ==
  IF classes = <<>> THEN [ok |-> TRUE, t |-> t]
  ELSE LET c == Head(classes) IN
       IF ~Present(t, src, c) THEN MergeClasses(t, src, Tail(classes), k, fault)
       ELSE IF fault = OptName(k) THEN [ok |-> FALSE, t |-> t]
       ELSE MergeClasses([t EXCEPT !.obs[c] = Optimise(@ \o src.obs[c]), !.calls = @ + 1],
                         src, Tail(classes), k + 1, fault)
AnyPresent(t, src, classes) == \E i \in DOMAIN classes : Present(t, src, classes[i])
Merge(t, src, classes, histFlag, fault) ==
  IF fault = "attr" THEN Fail(t)
  ELSE LET t1 == [t EXCEPT !.attrs.cnt = @ + src.attrs.cnt]
           r  == MergeClasses(t1, src, classes, 1, fault)
       IN IF ~r.ok THEN Fail(t)
          ELSE [ok |-> TRUE, notes |-> {1},
                t |-> [r.t EXCEPT !.hist = IF histFlag /\ AnyPresent(t, src, classes)
                                            THEN @ \o src.hist ELSE @]]

Status(t) == t.attrs.st
Compatible(a, b) == a.attrs.tag <= b.attrs.tag

(* ---- C11, stated on the operators themselves ---- *)
Atomic(t, r) == ~r.ok => (r.t = t /\ r.notes = {0})
NotifiedOnce(r) == r.ok => r.notes = {1}
HistRule(t, src, classes, histFlag, r) ==
  r.ok => r.t.hist = (IF histFlag /\ AnyPresent(t, src, classes) THEN t.hist \o src.hist ELSE t.hist)
=============================================================================
