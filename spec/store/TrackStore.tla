------------------------------ MODULE TrackStore ------------------------------
(* The track store as a map id -> track; shard of id = id % N.  Sequential     *)
(* API: every public operation is one operator returning                       *)
(*   [st, ret, notes] = new store, return value, admissible notification counts *)
(* (property C09; the fault parameters carry C11 through the store).           *)
EXTENDS Naturals, Sequences, FiniteSets, TLC
CONSTANTS Ids, ExtIds, Classes, Cap, N
T == INSTANCE Track
NoTrack == [id |-> 0]
VARIABLES store
vars == <<store>>

Has(st, id) == id \in Ids /\ st[id] # NoTrack
Dom(st) == {id \in Ids : Has(st, id)}
Shard(id) == id % N
ShardStats(st) == [s \in 0..(N-1) |-> Cardinality({id \in Dom(st) : Shard(id) = s})]
Empty == [id \in Ids |-> NoTrack]

Init == store = Empty

SeqsNoRep(S, n) == UNION {{q \in [1..k -> S] : \A i, j \in 1..k : i # j => q[i] # q[j]} : k \in 0..n}
ClassLists == SeqsNoRep(Classes, 2)
(* classes = None: all classes defined in the source, in any order (the result *)
(* does not depend on it) - ascending here                                      *)
RECURSIVE AscSeq(_)
AscSeq(S) == IF S = {} THEN <<>> ELSE LET m == CHOOSE x \in S : \A y \in S : x <= y IN <<m>> \o AscSeq(S \ {m})
AllClasses(src) == AscSeq({c \in Classes : src.obs[c] # <<>>})

OpAddTrack(st, t) == IF Has(st, t.id) THEN [st |-> st, ret |-> "err", notes |-> {0}]
                     ELSE [st |-> [st EXCEPT ![t.id] = t], ret |-> "ok", notes |-> {0}]
(* add by id: on an existing track = add_observation; on a missing id "creates  *)
(* the track exactly as building it externally and inserting it would"          *)
OpAdd(st, id, cls, v, u, optFail) ==
  IF Has(st, id)
  THEN LET r == T!AddObservation(st[id], cls, v, u, optFail) IN
       [st |-> [st EXCEPT ![id] = r.t], ret |-> IF r.ok THEN "ok" ELSE "err", notes |-> r.notes]
  ELSE LET r == T!Build(id, cls, v, u, optFail) IN
       IF r.ok THEN [st |-> [st EXCEPT ![id] = r.t], ret |-> "ok", notes |-> r.notes]
       ELSE [st |-> st, ret |-> "err", notes |-> {0, 1}]   \* creation itself may or may not be notified
OpFetch(st, S) == [st |-> [id \in Ids |-> IF id \in S THEN NoTrack ELSE st[id]],
                   ret |-> S \cap Dom(st), notes |-> {0}]
OpMergeExternal(st, dst, src, classes, useAll, histFlag, fault) ==
  IF ~Has(st, dst) \/ dst = src.id THEN [st |-> st, ret |-> "err", notes |-> {0}]
  ELSE LET r == T!Merge(st[dst], src, IF useAll THEN AllClasses(src) ELSE classes, histFlag, fault) IN
       [st |-> [st EXCEPT ![dst] = r.t], ret |-> IF r.ok THEN "ok" ELSE "err", notes |-> r.notes]
OpMergeOwned(st, dst, src, classes, useAll, remove, histFlag, fault) ==
  IF ~Has(st, src) THEN [st |-> st, ret |-> "err", notes |-> {0}]
  ELSE LET st1 == [st EXCEPT ![src] = NoTrack]
           r   == OpMergeExternal(st1, dst, st[src], classes, useAll, histFlag, fault)
       IN IF r.ret = "ok" /\ remove THEN [st |-> r.st, ret |-> "okremoved", notes |-> r.notes]
          ELSE [st |-> [r.st EXCEPT ![src] = st[src]], ret |-> r.ret, notes |-> r.notes]
OpClear(st) == [st |-> Empty, ret |-> "ok", notes |-> {0}]
FindUsable(st) == {<<id, T!Status(st[id])>> : id \in {x \in Dom(st) : T!Status(st[x]) # "p"}}
Lookup(st, tag) == {<<id, T!Status(st[id])>> : id \in {x \in Dom(st) : st[x].attrs.tag = tag}}

(* ---- frame conditions of merges, asserted on every merge taken ---- *)
MergeFrame(st, r, dst, src, remove) ==
  /\ \A id \in Ids : id \notin {dst, src} => r.st[id] = st[id]
  /\ (r.ret = "err" => r.st = st)
  /\ (src \in Ids /\ src # dst => (r.st[src] = st[src] \/ (remove /\ r.ret = "okremoved" /\ r.st[src] = NoTrack)))
  /\ (r.ret = "okremoved" => remove)

Vals == {1, 2}
ExtTrack(id, cls, v) == T!Build(id, cls, v, T!NoUpd, FALSE).t
Faults == {"none", "attr", "opt1", "opt2"}

Do(r) == store' = r.st
Next ==
  \/ \E id \in Ids, c \in Classes, v \in Vals, u \in {T!NoUpd, [kind |-> "ready"]} :
        LET b == T!Build(id, c, v, u, FALSE) IN Do(OpAddTrack(store, b.t))
  \/ \E id \in Ids, c \in Classes, v \in {0} \cup Vals, u \in T!Updates, f \in BOOLEAN :
        LET r == OpAdd(store, id, c, v, u, f) IN
        /\ Assert(r.ret = "err" => r.st = store, "failed add changed the store")
        /\ Do(r)
  \/ \E S \in SUBSET Ids : S # {} /\
        LET r == OpFetch(store, S) IN
        /\ Assert(\A id \in S : ~Has(r.st, id), "fetched id still present")
        /\ Do(r)
  \/ \E d \in Ids, s \in Ids, cl \in ClassLists, all \in BOOLEAN, rm \in BOOLEAN, h \in BOOLEAN, f \in Faults :
        LET r == OpMergeOwned(store, d, s, cl, all, rm, h, f) IN
        /\ Assert(MergeFrame(store, r, d, s, rm), <<"merge_owned frame", store, d, s, cl, all, rm, h, f>>)
        /\ Assert((~Has(store, d) \/ ~Has(store, s) \/ d = s \/ (f = "attr")) => r.ret = "err", "merge failure not reported")
        /\ Do(r)
  \/ \E d \in Ids, e \in ExtIds \cup Ids, c \in Classes, v \in Vals, cl \in ClassLists, all \in BOOLEAN, h \in BOOLEAN, f \in Faults :
        LET r == OpMergeExternal(store, d, ExtTrack(e, c, v), cl, all, h, f) IN
        /\ Assert(MergeFrame(store, r, d, 0, FALSE), "merge_external frame")
        /\ Assert((~Has(store, d) \/ d = e \/ f = "attr") => r.ret = "err", "merge failure not reported")
        /\ Do(r)
  \/ Do(OpClear(store))
Spec == Init /\ [][Next]_vars

(* ---- model-level properties ---- *)
RECURSIVE SumTo(_, _)
SumTo(f, k) == IF k = 0 THEN f[0] ELSE f[k] + SumTo(f, k - 1)
StatsSum == Cardinality(Dom(store)) = SumTo(ShardStats(store), N - 1)
IdsMatch == \A id \in Dom(store) : store[id].id = id
HistStartsWithOwn == \A id \in Dom(store) : store[id].hist # <<>> /\ store[id].hist[1] = id
ObsBounded == \A id \in Dom(store) : \A c \in Classes : Len(store[id].obs[c]) <= Cap
Bound == \A id \in Dom(store) : Len(store[id].hist) <= 3 /\ store[id].attrs.cnt <= 3 /\ store[id].calls <= 4
(* witnesses: TLC must be able to violate these (reachability, non-vacuity) *)
W_NoLongHist == \A id \in Dom(store) : Len(store[id].hist) < 3
W_NoTwoShards == ~(\E a, b \in Dom(store) : Shard(a) # Shard(b))
=============================================================================
