--------------------------- MODULE AbstractTracker ---------------------------
(* Collector-free tracker: a track is "main" (in the tracker) until handed out *)
(* by wasted() or cleared.  Tracker refines it for every auto-collection        *)
(* periodicity: none of predict / wasted / idle / epochs depends on when the     *)
(* internal collection runs (C03).                                              *)
EXTENDS Naturals, Sequences, FiniteSets, TLC
CONSTANTS Scenes, Slots, Confs, Cids, Metric, Thr, MinConf, MaxIdle, H, NShards
VARIABLES aepoch, atracks
avars == <<aepoch, atracks>>
T == INSTANCE Tracker
ASt == [epoch |-> aepoch, tracks |-> atracks, aw |-> [period |-> 100, counter |-> 100], gone |-> 0, sub |-> 0]
AExpired(t) == t.last + MaxIdle < aepoch[t.scene]
AInit == aepoch = [s \in Scenes |-> 0] /\ atracks = <<>>
APredict(s, dets) == LET b == T!PredictBody(ASt, s, dets) IN
                     b.unique /\ atracks' = b.st.tracks /\ aepoch' = b.st.epoch
ASkip(s, n) == aepoch' = [aepoch EXCEPT ![s] = @ + n] /\ UNCHANGED atracks
AWasted == /\ atracks' = [k \in DOMAIN atracks |->
                 IF atracks[k].place = "main" /\ AExpired(atracks[k]) THEN T!Dead("out") ELSE atracks[k]]
           /\ UNCHANGED aepoch
(* clear_wasted is defined on the collected store: abstractly, any subset of the expired tracks *)
AClear == /\ \E X \in SUBSET {k \in DOMAIN atracks : atracks[k].place = "main" /\ AExpired(atracks[k])} :
               atracks' = [k \in DOMAIN atracks |-> IF k \in X THEN T!Dead("cleared") ELSE atracks[k]]
          /\ UNCHANGED aepoch
ANext == \/ \E s \in Scenes, d \in T!DetLists : APredict(s, d)
         \/ \E s \in Scenes, n \in 1..2 : ASkip(s, n)
         \/ AWasted \/ AClear
ASpec == AInit /\ [][ANext]_avars
=============================================================================
