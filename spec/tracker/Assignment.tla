------------------------------ MODULE Assignment ------------------------------
(* Gated maximum-weight one-to-one assignment, "own column = threshold".      *)
(* W : [Rows -> [Cols -> Nat]], 0 = no pair.  Rows = detections, Cols = tracks *)
EXTENDS Naturals, FiniteSets, Sequences

Max(a, b) == IF a >= b THEN a ELSE b

(* all partial injections using only present pairs; 0 = "starts a new track"   *)
Assignments(W, Rows, Cols) ==
  { a \in [Rows -> Cols \cup {0}] :
      /\ \A r \in Rows : a[r] # 0 => W[r][a[r]] > 0
      /\ \A r1, r2 \in Rows : (r1 # r2 /\ a[r1] # 0) => a[r1] # a[r2] }

RECURSIVE SumOver(_, _)
SumOver(f, S) == IF S = {} THEN 0
                 ELSE LET x == CHOOSE y \in S : TRUE IN f[x] + SumOver(f, S \ {x})

Value(W, Rows, a, thr) ==
  SumOver([r \in Rows |-> IF a[r] = 0 THEN thr ELSE W[r][a[r]]], Rows)

Best(W, Rows, Cols, thr) ==
  LET A == Assignments(W, Rows, Cols)
      m == CHOOSE v \in {Value(W, Rows, a, thr) : a \in A} :
             \A a \in A : Value(W, Rows, a, thr) <= v
  IN {a \in A : Value(W, Rows, a, thr) = m}

(* a pair below the threshold is never part of an optimum (own column wins)    *)
GateRespected(W, Rows, Cols, thr) ==
  \A a \in Best(W, Rows, Cols, thr) : \A r \in Rows : a[r] # 0 => W[r][a[r]] >= thr
=============================================================================
