----------------------------- MODULE Constraints -----------------------------
(* Spatio-temporal constraint table (property C20, calculator half).            *)
(* A table is built by add calls, each a sequence of <<gap, limit>> pairs; a gap *)
(* configured twice keeps its FIRST limit.  Limits and distances are integers    *)
(* in half units (limit 1.0 = 2).                                                *)
(*                                                                               *)
(* Two definitions:                                                              *)
(*  - declarative (what the property states): the table is the function          *)
(*    gap -> first configured limit; Validate picks the smallest configured gap  *)
(*    not below the probe gap, none -> admitted;                                 *)
(*  - operational (shaped like an implementation): append, stable sort by gap,   *)
(*    drop every later entry of a repeated gap, scan for the first entry whose   *)
(*    gap is >= the probe gap.                                                   *)
(* TLC checks that they agree (MCC.tla); only the declarative one is replayed.   *)
EXTENDS Naturals, Sequences, FiniteSets

(* ---------------- declarative ---------------- *)
RECURSIVE Fold(_, _)
Fold(tbl, pairs) == IF pairs = <<>> THEN tbl
                    ELSE LET p == Head(pairs) IN
                         Fold(IF p[1] \in DOMAIN tbl THEN tbl
                              ELSE [g \in DOMAIN tbl \cup {p[1]} |-> IF g = p[1] THEN p[2] ELSE tbl[g]], Tail(pairs))
RECURSIVE Build(_, _)
Build(tbl, calls) == IF calls = <<>> THEN tbl ELSE Build(Fold(tbl, Head(calls)), Tail(calls))
Empty == [g \in {} |-> 0]
Applicable(tbl, gap) == {g \in DOMAIN tbl : g >= gap}
MinOf(S) == CHOOSE x \in S : \A y \in S : x <= y
(* 0 = no applicable limit *)
Limit(tbl, gap) == IF Applicable(tbl, gap) = {} THEN 0 ELSE tbl[MinOf(Applicable(tbl, gap))]
Validate(tbl, gap, d) == Applicable(tbl, gap) = {} \/ d <= tbl[MinOf(Applicable(tbl, gap))]
Monotone(tbl, gap, d1, d2) == (d1 <= d2 /\ Validate(tbl, gap, d2)) => Validate(tbl, gap, d1)

(* ---------------- operational ---------------- *)
RECURSIVE InsertStable(_, _)
(* inserts p after every entry whose gap is <= p's gap: insertion sort, stable *)
InsertStable(s, p) == IF s = <<>> THEN <<p>>
                      ELSE IF Head(s)[1] <= p[1] THEN <<Head(s)>> \o InsertStable(Tail(s), p)
                      ELSE <<p>> \o s
RECURSIVE SortStable(_, _)
SortStable(acc, s) == IF s = <<>> THEN acc ELSE SortStable(InsertStable(acc, Head(s)), Tail(s))
RECURSIVE Dedup(_)
Dedup(s) == IF Len(s) <= 1 THEN s
            ELSE IF s[1][1] = s[2][1] THEN Dedup(<<s[1]>> \o Tail(Tail(s)))
            ELSE <<s[1]>> \o Dedup(Tail(s))
OpAdd(t, pairs) == Dedup(SortStable(<<>>, t \o pairs))
RECURSIVE OpBuild(_, _)
OpBuild(t, calls) == IF calls = <<>> THEN t ELSE OpBuild(OpAdd(t, Head(calls)), Tail(calls))
RECURSIVE OpFind(_, _)
OpFind(t, gap) == IF t = <<>> THEN 0 ELSE IF Head(t)[1] >= gap THEN Head(t)[2] ELSE OpFind(Tail(t), gap)
OpValidate(t, gap, d) == OpFind(t, gap) = 0 \/ d <= OpFind(t, gap)
=============================================================================
