------------------------------- MODULE GenTR -------------------------------
(* Generation configuration of Tracker: every call sequence of length D over   *)
(* the API alphabet (or random ones with -simulate), one JSON line per         *)
(* behaviour: each step carries the operation, the return value the            *)
(* specification requires and the projected tracker state.  Replayed into the  *)
(* four real trackers by `vh replay tracker`.                                  *)
EXTENDS Tracker, Json, Randomization
CONSTANTS D,        \* behaviour length
          Kind,     \* "simple": predict(scene, dets) ; "batch": batch({scene -> dets}) ; "fullbatch": only batches that
                    \* carry every scene, and wasted() (voting threads of one scene overlap the scans for the next)
          Periods,  \* set_auto_waste arguments
          MaxDets,  \* detections per list: 0..MaxDets (<= 2)
          Sim       \* 0 = enumerate every operation; k > 0 = draw k candidate operations per step
VARIABLES st, h

(* custom ids are tied to confidences to keep the alphabet small: highest confidence -> smallest cid *)
MaxConf == CHOOSE c \in Confs : \A c2 \in Confs : c2 <= c
MinCid == CHOOSE c \in Cids : \A c2 \in Cids : c <= c2
MaxCid == CHOOSE c \in Cids : \A c2 \in Cids : c2 <= c
GDet(d) == d.cid = (IF d.conf = MaxConf THEN MinCid ELSE MaxCid)
DL == {l \in DetLists : Len(l) <= MaxDets /\ \A i \in DOMAIN l : GDet(l[i])}
RECURSIVE AscSeq(_)
AscSeq(S) == IF S = {} THEN <<>> ELSE LET m == CHOOSE x \in S : \A y \in S : x <= y IN <<m>> \o AscSeq(S \ {m})
SceneSeq == AscSeq(Scenes)

(* a batch cannot express a scene without detections; the empty batch is allowed *)
DLne == DL \ {<<>>}
BatchOps == {[op |-> "batch", b |-> [i \in 1..Len(AscSeq(S)) |-> [scene |-> AscSeq(S)[i], dets |-> f[AscSeq(S)[i]]]]] :
               S \in SUBSET Scenes, f \in [Scenes -> DLne]}
FullBatchOps == {o \in BatchOps : Len(o.b) = Cardinality(Scenes)} \cup {[op |-> "wasted"]}
Ops == IF Kind = "fullbatch" THEN FullBatchOps ELSE
       (IF Kind = "simple" THEN {[op |-> "predict", scene |-> s, dets |-> d] : s \in Scenes, d \in DL}
                           ELSE {o \in BatchOps : TRUE})
       \cup {[op |-> "skip", scene |-> s, n |-> n] : s \in Scenes, n \in 1..2}
       \cup {[op |-> "idle", scene |-> s] : s \in Scenes}
       \cup {[op |-> "epoch", scene |-> s] : s \in Scenes}
       \cup {[op |-> "setaw", p |-> p] : p \in Periods}
       \cup {[op |-> "wasted"], [op |-> "clear"], [op |-> "stats"]}

BFun(o) == [s \in {o.b[i].scene : i \in DOMAIN o.b} |-> (CHOOSE i \in DOMAIN o.b : o.b[i].scene = s) ]
Exec(s0, o) ==
  CASE o.op = "predict" -> Predict(s0, o.scene, o.dets)
    [] o.op = "batch" -> LET B == [s \in {o.b[i].scene : i \in DOMAIN o.b} |-> o.b[CHOOSE i \in DOMAIN o.b : o.b[i].scene = s].dets]
                             r == PredictBatch(s0, B) IN
                         [unique |-> r.unique, st |-> r.st,
                          ret |-> [i \in DOMAIN o.b |-> [scene |-> o.b[i].scene, recs |-> r.ret[o.b[i].scene]]]]
    [] o.op = "skip" -> Skip(s0, o.scene, o.n) @@ [unique |-> TRUE]
    [] o.op = "idle" -> Idle(s0, o.scene) @@ [unique |-> TRUE]
    [] o.op = "epoch" -> Epoch(s0, o.scene) @@ [unique |-> TRUE]
    [] o.op = "setaw" -> SetAutoWaste(s0, o.p) @@ [unique |-> TRUE]
    [] o.op = "wasted" -> Wasted(s0) @@ [unique |-> TRUE]
    [] o.op = "clear" -> ClearWasted(s0) @@ [unique |-> TRUE]
    [] o.op = "stats" -> Stats(s0) @@ [unique |-> TRUE]

Held(s0) == In(s0, "main") \cup In(s0, "coll")
PT(s0, k) == [id |-> k, place |-> s0.tracks[k].place, scene |-> s0.tracks[k].scene, last |-> s0.tracks[k].last,
              len |-> s0.tracks[k].len, slot |-> s0.tracks[k].slot, cid |-> s0.tracks[k].cid, ring |-> s0.tracks[k].ring]
PJ(s0) == [epochs |-> [i \in 1..Len(SceneSeq) |-> <<SceneSeq[i], s0.epoch[SceneSeq[i]]>>],
           tracks |-> [i \in 1..Cardinality(Held(s0)) |-> PT(s0, AscSeq(Held(s0))[i])],
           issued |-> Len(s0.tracks)]

GInit == st = InitState /\ h = <<>>
Step(o) == LET r == Exec(st, o) IN
           /\ r.unique
           /\ st' = r.st
           /\ h' = Append(h, [o |-> o, ret |-> r.ret, proj |-> PJ(r.st)])
GNext == /\ Len(h) < D
         /\ \E o \in (IF Sim = 0 THEN Ops ELSE RandomSubset(Sim, Ops)) : Step(o)
GSpec == GInit /\ [][GNext]_<<st, h>>
Emit == Len(h) = D => PrintT(<<"REPLAY", ToJson(h)>>)
=============================================================================
