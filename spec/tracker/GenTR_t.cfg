CONSTANTS
 Scenes = {1, 2}
 Slots = {1, 2}
 Confs = {900, 500}
 Cids = {0, 7}
 Metric = "iou"
 Thr = 300
 MinConf = 50
 MaxIdle = 0
 H = 2
 NShards = 2
 Periods = {0, 1}
 MaxDets = 2
 D = 2
 Kind = "simple"
 Sim = 0
SPECIFICATION GSpec
INVARIANT Emit
CHECK_DEADLOCK FALSE
