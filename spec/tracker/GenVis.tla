------------------------------- MODULE GenVis -------------------------------
(* Generation configuration of Visual: behaviours of VisualSORT in the slot    *)
(* world (look-alike / overlapping objects on one slot told apart by feature    *)
(* symbols), replayed into VisualSort and BatchVisualSort.                      *)
EXTENDS Visual, Json, Randomization
CONSTANTS D, Kind, Periods, MaxDets, Sim, LifecycleOps
VARIABLES st, h
RECURSIVE AscSeq(_)
AscSeq(S) == IF S = {} THEN <<>> ELSE LET m == CHOOSE x \in S : \A y \in S : x <= y IN <<m>> \o AscSeq(S \ {m})
SceneSeq == AscSeq(Scenes)
MinCid == CHOOSE c \in Cids : \A c2 \in Cids : c <= c2
GDet(d) == d.cid = MinCid
VDL == {<<>>} \cup {<<d>> : d \in {x \in VDet : GDet(x)}}
       \cup (IF MaxDets >= 2 THEN {<<d1, d2>> : d1 \in {x \in VDet : GDet(x)}, d2 \in {x \in VDet : GDet(x)}} ELSE {})
       \cup (IF MaxDets >= 3 THEN {<<d1, d2, d3>> : d1 \in {x \in VDet : GDet(x)}, d2 \in {x \in VDet : GDet(x)}, d3 \in {x \in VDet : GDet(x)}} ELSE {})
Ops == (IF Kind = "simple" THEN {[op |-> "predict", scene |-> s, dets |-> d] : s \in Scenes, d \in VDL}
        ELSE {[op |-> "batch", b |-> [i \in 1..Len(AscSeq(S)) |-> [scene |-> AscSeq(S)[i], dets |-> f[AscSeq(S)[i]]]]] :
                 S \in SUBSET Scenes, f \in [Scenes -> VDL \ {<<>>}]})
       \cup (IF LifecycleOps THEN
               {[op |-> "skip", scene |-> s, n |-> 1] : s \in Scenes} \cup {[op |-> "idle", scene |-> s] : s \in Scenes}
               \cup {[op |-> "wasted"], [op |-> "stats"]}
             ELSE {})
Exec(s0, o) ==
  CASE o.op = "predict" -> VPredict(s0, o.scene, o.dets)
    [] o.op = "batch" -> LET B == [s \in {o.b[i].scene : i \in DOMAIN o.b} |-> o.b[CHOOSE i \in DOMAIN o.b : o.b[i].scene = s].dets]
                             r == VPredictBatch(s0, B) IN
                         [unique |-> r.unique, st |-> r.st, ok |-> r.ok,
                          nt |-> [lost |-> r.nlost, vis |-> r.nvis, evicts |-> r.nevicts, refused |-> r.nrefused],
                          ret |-> [i \in DOMAIN o.b |-> [scene |-> o.b[i].scene, recs |-> r.ret[o.b[i].scene]]]]
    [] o.op = "skip" -> Skip(s0, o.scene, o.n) @@ [unique |-> TRUE]
    [] o.op = "idle" -> Idle(s0, o.scene) @@ [unique |-> TRUE]
    [] o.op = "wasted" -> VWasted(s0) @@ [unique |-> TRUE]
    [] o.op = "stats" -> Stats(s0) @@ [unique |-> TRUE]
Held(s0) == In(s0, "main") \cup In(s0, "coll")
PT(s0, k) == LET t == s0.tracks[k] IN
             [id |-> k, place |-> t.place, scene |-> t.scene, last |-> t.last, len |-> t.len, slot |-> t.slot, cid |-> t.cid,
              ring |-> t.ring, gal |-> [j \in DOMAIN t.gal |-> <<t.gal[j].f, t.gal[j].q>>], coll |-> Collected(t.gal), fh |-> t.fh]
PJ(s0) == [epochs |-> [i \in 1..Len(SceneSeq) |-> <<SceneSeq[i], s0.epoch[SceneSeq[i]]>>],
           tracks |-> [i \in 1..Cardinality(Held(s0)) |-> PT(s0, AscSeq(Held(s0))[i])],
           issued |-> Len(s0.tracks)]
GInit == st = InitState /\ h = <<>>
Step(o) == LET r == Exec(st, o) IN
           /\ r.unique
           /\ (o.op \in {"predict", "batch"} => Assert(r.ok, <<"operational outcome outside what C12 / C13 allow", st, o>>))
           /\ st' = r.st
           /\ h' = Append(h, [o |-> o, ret |-> r.ret, proj |-> PJ(r.st),
                              nt |-> IF o.op = "predict" THEN [lost |-> Cardinality(r.lost), vis |-> Cardinality(r.claimers), evicts |-> Cardinality(r.evicts), refused |-> Cardinality(r.refused)]
                                    ELSE IF o.op = "batch" THEN r.nt ELSE [lost |-> 0, vis |-> 0, evicts |-> 0, refused |-> 0]])
GNext == /\ Len(h) < D
         /\ \E o \in (IF Sim = 0 THEN Ops ELSE RandomSubset(Sim, Ops)) : Step(o)
GSpec == GInit /\ [][GNext]_<<st, h>>
(* C13 on every reachable state of the generation instance *)
VisInv == \A k \in Held(st) : LET t == st.tracks[k] IN
            /\ Collected(t.gal) <= MaxObs /\ t.gal # <<>>
            /\ Len(t.fh) = (IF t.len < H THEN t.len ELSE H) /\ Len(t.ring) = Len(t.fh)
            /\ \A j \in DOMAIN t.gal : j > 1 => t.gal[j].f # 0
Emit == Len(h) = D => PrintT(<<"REPLAY", ToJson(h)>>)
=============================================================================
