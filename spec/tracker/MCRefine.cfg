CONSTANTS
 Scenes = {1, 2}
 Slots = {1, 2}
 Confs = {900}
 Cids = {0}
 Metric = "iou"
 Thr = 300
 MinConf = 50
 MaxIdle = 0
 H = 1
 NShards = 2
 Periods = {0, 1}
 MaxTracks = 3
 MaxEpoch = 2
SPECIFICATION Spec
PROPERTY Refines
INVARIANTS TypeOK Conservation
CONSTRAINT Bound
CHECK_DEADLOCK FALSE
