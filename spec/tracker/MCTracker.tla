------------------------------ MODULE MCTracker ------------------------------
(* Model-checking instance of Tracker: the operators as a state machine        *)
(* without observation variable, the invariants of C03 / C01 / C04, and the    *)
(* refinement of the collector-free AbstractTracker.                           *)
EXTENDS Tracker
CONSTANTS Periods, MaxTracks, MaxEpoch
VARIABLE st
vars == <<st>>
Init == st = InitState
(* the default counter is "far": it cannot reach 0 inside the bound, so it is not counted down *)
FarFix(s2) == IF s2.aw.period = Far /\ s2.aw.counter # 0 THEN [s2 EXCEPT !.aw.counter = Far] ELSE s2
(* contract of one predict call (C01, C02 gate, C03 expiry, C04 frame), asserted on every call taken *)
Contract(s, d, p, b) ==
       /\ Len(b.ret) = Len(d)
       /\ \A i, j \in DOMAIN b.ret : i # j => b.ret[i].id # b.ret[j].id
       /\ \A i \in DOMAIN b.ret : b.ret[i].id \notin DOMAIN st.tracks =>
              b.ret[i].len = 1 /\ b.ret[i].id > Len(st.tracks)
       /\ \A i \in DOMAIN b.ret : b.ret[i].id \in DOMAIN st.tracks =>
              /\ p.tracks[b.ret[i].id].place = "main" /\ p.tracks[b.ret[i].id].scene = s
              /\ ~Expired([p EXCEPT !.epoch[s] = @ + 1], p.tracks[b.ret[i].id])
              /\ b.W[i][b.ret[i].id] >= Thr
              /\ b.ret[i].len = p.tracks[b.ret[i].id].len + 1
       /\ b.st.epoch = [p.epoch EXCEPT ![s] = @ + 1]
       /\ \A k \in DOMAIN p.tracks : p.tracks[k].scene # s => b.st.tracks[k] = p.tracks[k]
       (* the same call on the collected state gives the same records: collection timing is unobservable *)
       /\ LET y == PredictBody(Collect(p), s, d) IN y.ret = b.ret /\ y.unique = b.unique
PredictAct(s, d) == LET p == Prologue(st)  b == PredictBody(p, s, d) IN
                    /\ b.unique
                    /\ Assert(Contract(s, d, p, b), <<"predict contract violated", st, s, d>>)
                    /\ st' = FarFix(b.st)
SkipAct(s, n) == st' = Skip(st, s, n).st
WastedAct == st' = Wasted(st).st
ClearAct == st' = ClearWasted(st).st
SetAwAct(p) == st' = SetAutoWaste(st, p).st
Next == \/ \E s \in Scenes, d \in DetLists : PredictAct(s, d)
        \/ \E s \in Scenes, n \in 1..2 : SkipAct(s, n)
        \/ WastedAct \/ ClearAct
        \/ \E p \in Periods : SetAwAct(p)
Spec == Init /\ [][Next]_vars
Bound == /\ Len(st.tracks) <= MaxTracks /\ \A s \in Scenes : st.epoch[s] <= MaxEpoch

Held == In(st, "main") \cup In(st, "coll")
Places == {"main", "coll", "out", "cleared"}
TypeOK == \A k \in DOMAIN st.tracks : st.tracks[k].place \in Places
CollectedAreExpired == \A k \in In(st, "coll") : Expired(st, st.tracks[k])
RingBound == \A k \in Held : Len(st.tracks[k].ring) = (IF st.tracks[k].len < H THEN st.tracks[k].len ELSE H)
LastLeEpoch == \A k \in Held : st.tracks[k].last <= st.epoch[st.tracks[k].scene]
Conservation == st.sub = LenOf(st, Held) + st.gone
(* wasted() hands out exactly the expired tracks and leaves none behind *)
WastedExact == LET r == Wasted(st) IN
                 /\ \A k \in In(r.st, "main") : ~Expired(r.st, r.st.tracks[k])
                 /\ In(r.st, "coll") = {}
                 /\ {x.id : x \in r.ret} = {k \in Held : Expired(st, st.tracks[k])}
(* observable results do not depend on collection timing *)
GcUnobservable == /\ \A s \in Scenes : IdleIds(st, s) = IdleIds(Collect(st), s)
                  /\ {x.id : x \in Wasted(st).ret} = {x.id : x \in Wasted(Collect(st)).ret}
StatsAccount == LET r == Stats(st).ret IN r.active + r.wasted = Cardinality(Held)
(* bodies of different scenes commute (C04; the order of scenes inside a batch is irrelevant) *)
Commute ==
  \A s1, s2 \in Scenes, d1, d2 \in DetLists : s1 # s2 =>
     LET x == PredictBody(PredictBody(st, s1, d1).st, s2, d2)
         y == PredictBody(PredictBody(st, s2, d2).st, s1, d1)
     IN (x.unique /\ y.unique) =>
          /\ x.st.epoch = y.st.epoch
          /\ Len(x.st.tracks) = Len(y.st.tracks)
          /\ {x.st.tracks[k] : k \in DOMAIN x.st.tracks} = {y.st.tracks[k] : k \in DOMAIN y.st.tracks}
(* reachability witnesses: TLC must violate these *)
W_NoExpiredUncollected == ~(\E k \in In(st, "main") : Expired(st, st.tracks[k]))
W_NoCollected == In(st, "coll") = {}
W_NoLongTrack == \A k \in Held : st.tracks[k].len < 3
W_NoOut == In(st, "out") = {}

(* ---------------- refinement of the collector-free tracker ---------------- *)
Forget(s2) == [k \in DOMAIN s2.tracks |->
                 IF s2.tracks[k].place = "coll" THEN [s2.tracks[k] EXCEPT !.place = "main"] ELSE s2.tracks[k]]
AT == INSTANCE AbstractTracker WITH aepoch <- st.epoch, atracks <- Forget(st)
Refines == AT!ASpec
=============================================================================
