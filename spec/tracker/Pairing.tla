------------------------------- MODULE Pairing -------------------------------
(* Relates two recorded runs of a tracker.                                     *)
(*  mode "renaming": run A is a multi-scene history, run B the same calls for   *)
(*      one scene only; A filtered to that scene must equal B up to an id       *)
(*      bijection (C04, also batch vs simple for C06)                           *)
(*  mode "equal":    A and B are the same history under different shard counts  *)
(*      / schedules; records must be equal, ids literally (C05)                 *)
EXTENDS Integers, Sequences, FiniteSets, TLC, Json, IOUtils
CONSTANTS Mode, Scene
RecA == ndJsonDeserialize(IOEnv.TRACE_A)
RecB == ndJsonDeserialize(IOEnv.TRACE_B)
Preds(r) == SelectSeq(r, LAMBDA e : e.ev = "predict")
A == IF Mode = "renaming" THEN SelectSeq(Preds(RecA), LAMBDA e : e.scene = Scene) ELSE Preds(RecA)
B == Preds(RecB)
VARIABLES i, ren
Init == i = 1 /\ ren = {} /\ TLCSet(1, 1)
Same(a, b) == /\ a.scene = b.scene /\ a.eps = b.eps /\ a.lens = b.lens /\ a.boxes = b.boxes /\ a.cids = b.cids
              /\ Len(a.ids) = Len(b.ids)
Step == /\ i <= Len(B) /\ i <= Len(A)
        /\ Same(A[i], B[i])
        /\ LET all == ren \cup {<<A[i].ids[j], B[i].ids[j]>> : j \in DOMAIN A[i].ids} IN
           /\ \A p, q \in all : (p[1] = q[1]) <=> (p[2] = q[2])          \* a bijection between the ids seen so far
           /\ (Mode = "equal" => \A p \in all : p[1] = p[2])
           /\ ren' = all
        /\ i' = i + 1
Spec == Init /\ [][Step]_<<i, ren>>
Progress == TLCSet(1, IF i > TLCGet(1) THEN i ELSE TLCGet(1))
Accepted == IF Len(A) = Len(B) /\ TLCGet(1) = Len(B) + 1 THEN TRUE
            ELSE PrintT("REJECTED at predict " \o ToString(<<TLCGet(1), "lengths", Len(A), Len(B)>>)) /\ FALSE
=============================================================================
