------------------------------- MODULE Tracker -------------------------------
(* R1 "slot world" model of the four trackers (Sort, BatchSort, VisualSort,    *)
(* BatchVisualSort in positional mode): per-scene epochs, tracks, expiry,      *)
(* the two stores (main / collected), the auto-collection counter.             *)
(*                                                                             *)
(* Detections sit on fixed, mutually far-apart slots; a stationary object's     *)
(* Kalman estimate equals its measurement, so the positional weight of a        *)
(* (detection, track) pair is a function of slot equality and confidence and    *)
(* the specification computes association, ids, lengths, epochs, expiry, idle / *)
(* wasted sets, statistics and histories itself.                                *)
(*                                                                             *)
(* The state is one record  st = [epoch, tracks, aw, gone, sub]                   *)
(*   epoch  : [Scenes -> Nat]                                                   *)
(*   tracks : Seq(track); a track's id is its index (the simple trackers issue  *)
(*            ids 1, 2, 3, ... in creation order)                               *)
(*   track  = [scene, slot, last, len, cid, ring, place]                        *)
(*            place in main / coll (collected, in the wasted store) / out       *)
(*            (handed out by wasted()) / cleared                                *)
(*   aw     : [period, counter]  auto-collection                                *)
(*   gone   : detections carried by tracks that left (out / cleared)            *)
(*   sub    : detections submitted so far (ghost, for conservation)              *)
(* Every operation is a pure operator returning [st, ret].                      *)
EXTENDS Naturals, Sequences, FiniteSets, TLC
CONSTANTS Scenes, Slots, Confs, Cids, Metric, Thr, MinConf, MaxIdle, H, NShards
A == INSTANCE Assignment

Det == [slot : Slots, conf : Confs, cid : Cids]
DetLists == {<<>>} \cup {<<d>> : d \in Det} \cup {<<d1, d2>> : d1 \in Det, d2 \in Det}

Far == 100          \* the default periodicity; counts down from here
InitState == [epoch |-> [s \in Scenes |-> 0], tracks |-> <<>>,
              aw |-> [period |-> Far, counter |-> Far], gone |-> 0, sub |-> 0]

Dead(pl) == [scene |-> 0, slot |-> 0, last |-> 0, len |-> 0, cid |-> 0, ring |-> <<>>, place |-> pl]
In(st, pl) == {k \in DOMAIN st.tracks : st.tracks[k].place = pl}
Expired(st, t) == t.last + MaxIdle < st.epoch[t.scene]
Collect(st) == [st EXCEPT !.tracks = [k \in DOMAIN st.tracks |->
                  IF st.tracks[k].place = "main" /\ Expired(st, st.tracks[k])
                  THEN [st.tracks[k] EXCEPT !.place = "coll"] ELSE st.tracks[k]]]
(* predict prologue: collection runs when the counter is 0, else the counter counts down *)
Prologue(st) == IF st.aw.counter = 0 THEN [Collect(st) EXCEPT !.aw.counter = st.aw.period]
                ELSE [st EXCEPT !.aw.counter = @ - 1]

(* positional weight of a same-slot pair, in 1/1000 (IoU = 1, squared Mahalanobis distance = 0) *)
Weight(c) == IF Metric = "iou" THEN A!Max(c, MinConf)
             ELSE (100 * 1000 * 1000) \div A!Max(c, MinConf)

Ring(r, x) == LET q == Append(r, x) IN IF Len(q) > H THEN Tail(q) ELSE q
NewBefore(a, i) == Cardinality({j \in 1..(i-1) : a[j] = 0})

(* tracks a detection of scene s may continue at the new epoch e *)
Live(st, s, e) == {k \in In(st, "main") : st.tracks[k].scene = s /\ e - st.tracks[k].last <= MaxIdle}

PredictBody(st, s, dets) ==
  LET e    == st.epoch[s] + 1
      n    == Len(st.tracks)
      rows == 1..Len(dets)
      live == Live(st, s, e)
      W    == [i \in rows |-> [k \in live |->
                 IF dets[i].slot = st.tracks[k].slot THEN Weight(dets[i].conf) ELSE 0]]
      best == A!Best(W, rows, live, Thr)
      a    == CHOOSE x \in best : TRUE
      kOf(i) == IF a[i] # 0 THEN a[i] ELSE n + NewBefore(a, i) + 1
      nNew == Cardinality({i \in rows : a[i] = 0})
      upd(k) == IF \E i \in rows : a[i] = k
                THEN LET i == CHOOSE j \in rows : a[j] = k IN
                     [st.tracks[k] EXCEPT !.last = e, !.len = @ + 1, !.cid = dets[i].cid,
                                          !.ring = Ring(@, <<dets[i].slot, dets[i].conf>>)]
                ELSE st.tracks[k]
      newt(m) == LET i == CHOOSE j \in rows : a[j] = 0 /\ NewBefore(a, j) = m - 1 IN
                 [scene |-> s, slot |-> dets[i].slot, last |-> e, len |-> 1, cid |-> dets[i].cid,
                  ring |-> <<<<dets[i].slot, dets[i].conf>>>>, place |-> "main"]
      trs  == [k \in 1..(n + nNew) |-> IF k <= n THEN upd(k) ELSE newt(k - n)]
  IN [unique |-> Cardinality(best) = 1,
      st     |-> [st EXCEPT !.tracks = trs, !.epoch[s] = e, !.sub = @ + Len(dets)],
      ret    |-> [i \in rows |-> [id |-> kOf(i), scene |-> s, ep |-> e, len |-> trs[kOf(i)].len,
                                  slot |-> dets[i].slot, conf |-> dets[i].conf, cid |-> dets[i].cid]],
      assign |-> a, live |-> live, W |-> W]

(* simple trackers: one scene per call *)
Predict(st, s, dets) == PredictBody(Prologue(st), s, dets)

(* batch trackers: one prologue per batch, then every scene of the batch; B is a function from a
   set of scenes to detection lists.  Scenes are processed in some order; the bodies of different
   scenes commute (checked: Commute), ids are therefore compared modulo renaming for batch kinds *)
RECURSIVE BatchBodies(_, _, _)
BatchBodies(st, B, todo) ==
  IF todo = {} THEN [unique |-> TRUE, st |-> st, ret |-> [s \in {} |-> <<>>]]
  ELSE LET s == CHOOSE x \in todo : \A y \in todo : x <= y
           b == PredictBody(st, s, B[s])
           r == BatchBodies(b.st, B, todo \ {s})
       IN [unique |-> b.unique /\ r.unique, st |-> r.st,
           ret |-> [x \in DOMAIN r.ret \cup {s} |-> IF x = s THEN b.ret ELSE r.ret[x]]]
PredictBatch(st, B) == BatchBodies(Prologue(st), B, DOMAIN B)

Skip(st, s, n) == [st |-> Collect([st EXCEPT !.epoch[s] = @ + n]), ret |-> "ok"]
WastedIds(st) == In(Collect(st), "coll")
LenOf(st, S) == LET RECURSIVE Sum(_)
                    Sum(X) == IF X = {} THEN 0 ELSE LET x == CHOOSE y \in X : TRUE IN st.tracks[x].len + Sum(X \ {x})
                IN Sum(S)
Kill(st, S, pl) == [st EXCEPT !.tracks = [k \in DOMAIN st.tracks |-> IF k \in S THEN Dead(pl) ELSE st.tracks[k]],
                              !.gone = @ + LenOf(st, S)]
(* wasted(): collect, then hand out every collected track (with its final record and histories) *)
Wasted(st) == LET c == Collect(st)  w == In(c, "coll") IN
              [st |-> Kill(c, w, "out"),
               ret |-> {[id |-> k, scene |-> c.tracks[k].scene, ep |-> c.tracks[k].last, len |-> c.tracks[k].len,
                         ring |-> c.tracks[k].ring] : k \in w}]
(* idle tracks of a scene: unexpired and not updated in the current epoch *)
IdleIds(st, s) == {k \in DOMAIN st.tracks : /\ st.tracks[k].place \in {"main", "coll"} /\ st.tracks[k].scene = s
                                             /\ ~Expired(st, st.tracks[k]) /\ st.tracks[k].last # st.epoch[s]}
Idle(st, s) == [st |-> st, ret |-> IdleIds(st, s)]
ClearWasted(st) == [st |-> Kill(st, In(st, "coll"), "cleared"), ret |-> "ok"]
SetAutoWaste(st, p) == [st |-> [st EXCEPT !.aw = [period |-> p, counter |-> 0]], ret |-> "ok"]
ShardCount(st, pl) == [sh \in 0..(NShards - 1) |-> Cardinality({k \in In(st, pl) : k % NShards = sh})]
Stats(st) == [st |-> st, ret |-> [active |-> Cardinality(In(st, "main")), wasted |-> Cardinality(In(st, "coll")),
                                  active_shards |-> ShardCount(st, "main"), wasted_shards |-> ShardCount(st, "coll")]]
Epoch(st, s) == [st |-> st, ret |-> st.epoch[s]]

=============================================================================
