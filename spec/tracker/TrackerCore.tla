----------------------------- MODULE TrackerCore -----------------------------
(* Tracker semantics shared by generation (R1: the spec supplies weights and   *)
(* canonical ids) and trace validation (R2: weights and ids come from the log  *)
(* and are checked).  Pure operators on a state record                         *)
(*   st = [epoch : [Scenes -> Nat], tracks : [Id -> track], aw : [period, counter]] *)
(* track = [scene, last, len, cid, place]   place in main / coll / out / cleared *)
EXTENDS Integers, Sequences, FiniteSets, TLC
CONSTANTS MaxIdle, Thr

Max(a, b) == IF a >= b THEN a ELSE b
MaxOf(S) == CHOOSE x \in S : \A y \in S : y <= x
Ids(st) == DOMAIN st.tracks
Ep(st, s) == IF s \in DOMAIN st.epoch THEN st.epoch[s] ELSE 0
Expired(st, t) == t.last + MaxIdle < Ep(st, t.scene)
In(st, pl) == {i \in Ids(st) : st.tracks[i].place = pl}
Collect(st) == [st EXCEPT !.tracks = [i \in Ids(st) |->
                  IF st.tracks[i].place = "main" /\ Expired(st, st.tracks[i])
                  THEN [st.tracks[i] EXCEPT !.place = "coll"] ELSE st.tracks[i]]]
Prologue(st) == IF st.aw.counter = 0 THEN [Collect(st) EXCEPT !.aw.counter = st.aw.period]
                ELSE [st EXCEPT !.aw.counter = @ - 1]
Bump(st, s, n) == [st EXCEPT !.epoch = [x \in DOMAIN st.epoch \cup {s} |-> IF x = s THEN Ep(st, s) + n ELSE st.epoch[x]]]

(* tracks a detection of scene s at the new epoch e may continue *)
Live(st, s, e) == {i \in In(st, "main") : st.tracks[i].scene = s /\ e - st.tracks[i].last <= MaxIdle}

(* optimum of the gated assignment; W[r] is a function on a subset of columns (absent = no pair) *)
BestValue(W, n, Cols) ==
  LET f[i \in 0..n, U \in SUBSET Cols] ==
        IF i = n THEN 0
        ELSE LET skip == Thr + f[i + 1, U]
                 opts == {W[i + 1][c] + f[i + 1, U \cup {c}] : c \in (DOMAIN W[i + 1] \cap Cols) \ U}
             IN IF opts = {} THEN skip ELSE Max(skip, MaxOf(opts))
  IN f[0, {}]
ValueOf(W, n, a) == LET g[i \in 0..n] == IF i = 0 THEN 0 ELSE g[i-1] + (IF a[i] \in DOMAIN W[i] THEN W[i][a[i]] ELSE Thr) IN g[n]

(* a[i] = id the i-th detection ends up in (existing = continued, otherwise new) *)
ValidAssignment(st, s, e, W, a) ==
  LET n == Len(a)  live == Live(st, s, e)  cont == {i \in 1..n : a[i] \in Ids(st)} IN
  /\ \A i, j \in 1..n : i # j => a[i] # a[j]                                    \* C01: distinct ids in one call
  /\ \A i \in cont : a[i] \in live /\ a[i] \in DOMAIN W[i] /\ W[i][a[i]] >= Thr   \* C02/C03/C04: gated, same scene, unexpired
  /\ \A i \in 1..n : DOMAIN W[i] \subseteq live                                  \* no weight for a foreign / expired track
  /\ ValueOf(W, n, a) = BestValue(W, n, live)                                    \* C02: maximum total weight

Predict(st0, s, cids, W, a) ==      \* returns the new state; caller checks ValidAssignment
  LET st == Prologue(st0)
      e  == Ep(st, s) + 1
      n  == Len(a)
      newIds == {a[i] : i \in {j \in 1..n : a[j] \notin Ids(st)}}
      upd(i) == LET k == CHOOSE j \in 1..n : a[j] = i IN
                [st.tracks[i] EXCEPT !.last = e, !.len = @ + 1, !.cid = cids[k]]
      new(i) == LET k == CHOOSE j \in 1..n : a[j] = i IN
                [scene |-> s, last |-> e, len |-> 1, cid |-> cids[k], place |-> "main"]
  IN [Bump(st, s, 1) EXCEPT !.tracks = [i \in Ids(st) \cup newIds |->
        IF i \in newIds THEN new(i) ELSE IF \E j \in 1..n : a[j] = i THEN upd(i) ELSE st.tracks[i]]]

Skip(st, s, n) == Collect(Bump(st, s, n))
WastedIds(st) == In(Collect(st), "coll")
Wasted(st) == LET c == Collect(st) IN [c EXCEPT !.tracks = [i \in Ids(c) |->
                 IF c.tracks[i].place = "coll" THEN [c.tracks[i] EXCEPT !.place = "out"] ELSE c.tracks[i]]]
IdleIds(st, s) == {i \in In(st, "main") : st.tracks[i].scene = s /\ ~Expired(st, st.tracks[i])
                                         /\ st.tracks[i].last # Ep(st, s)}
Clear(st) == [st EXCEPT !.tracks = [i \in Ids(st) |->
                 IF st.tracks[i].place = "coll" THEN [st.tracks[i] EXCEPT !.place = "cleared"] ELSE st.tracks[i]]]
SetAw(st, p) == [st EXCEPT !.aw = [period |-> p, counter |-> 0]]
=============================================================================
