----------------------------- MODULE TrackerTrace -----------------------------
(* impl -> spec (regime R2, "free world"): validates one recorded run of a      *)
(* real tracker against TrackerCore.  Random moving / crossing / occluding       *)
(* objects; before every predict call the harness reads the observable store     *)
(* and measures, with the library's own public primitives, the integer-scaled    *)
(* positional weight of every compatible (detection, track) pair, the epoch gap  *)
(* and the centre distance in units of the radius sum.  The specification        *)
(* recomputes gates, expiry, the constraint filter, the optimum of the gated     *)
(* assignment (subset DP), fresh ids, epochs, lengths and the physical content   *)
(* of the two stores, and checks the recorded decision against them.             *)
(* Lines (ints and strings only):                                               *)
(*  {"ev":"config","max_idle":m,"thr":t,"margin":g,"cons":[[gap,limit],..],"eps":e}        *)
(*  {"ev":"predict","scene":s,"cids":[..],"w":[[[id,weight],..],..],"c":[[[id,gap,dist],..],..], *)
(*   "ids":[..],"eps":[..],"lens":[..],"main":[..],"coll":[..]}                  *)
(*  {"ev":"skip","scene":s,"n":k,"main":[..],"coll":[..]}  {"ev":"wasted","ids":[..],"main":..,"coll":..} *)
(*  {"ev":"idle","scene":s,"ids":[..]}  {"ev":"clear"}  {"ev":"setaw","p":k}  {"ev":"stats","active":a,"wasted":w} *)
EXTENDS TrackerCore, Json, IOUtils
Rec == ndJsonDeserialize(IOEnv.TRACE)
Cfg == Rec[1]
TraceMaxIdle == Cfg.max_idle
TraceThr == Cfg.thr
Margin == Cfg.margin
C == INSTANCE Constraints
Table == C!Fold(C!Empty, Cfg.cons)
VARIABLES st, l
SetOf(q) == {q[i] : i \in DOMAIN q}
Wof(e) == [i \in DOMAIN e.w |-> [c \in {e.w[i][j][1] : j \in DOMAIN e.w[i]} |->
              e.w[i][CHOOSE j \in DOMAIN e.w[i] : e.w[i][j][1] = c][2]]]
(* constraint verdict of pair (i, k): "yes" / "no" / "edge" (within eps of the limit: either) *)
Verdict(e, i, k) ==
  LET S == {j \in DOMAIN e.c[i] : e.c[i][j][1] = k} IN
  IF S = {} THEN "yes"
  ELSE LET j == CHOOSE x \in S : TRUE  gap == e.c[i][j][2]  d == e.c[i][j][3]  lim == C!Limit(Table, gap) IN
       IF lim = 0 THEN "yes"
       ELSE IF d + Cfg.eps <= lim THEN "yes" ELSE IF d > lim + Cfg.eps THEN "no" ELSE "edge"
HasEdge(e) == \E i \in DOMAIN e.w : \E k \in DOMAIN Wof(e)[i] : Verdict(e, i, k) = "edge"
(* weights of the pairs the constraint table admits *)
(* the harness measures every same-scene track it sees in the live store; liveness (expiry, scene) is decided here *)
Weff(e, live) == LET W == Wof(e) IN [i \in DOMAIN W |-> [k \in {x \in DOMAIN W[i] \cap live : Verdict(e, i, x) # "no"} |-> W[i][k]]]

TraceInit == /\ st = [epoch |-> << >>, tracks |-> << >>, aw |-> [period |-> 100, counter |-> 100]]
             /\ l = 2 /\ TLCSet(1, 2) /\ TLCSet(2, [epoch |-> << >>, tracks |-> << >>, aw |-> [period |-> 100, counter |-> 100]])
Ev(name) == l <= Len(Rec) /\ Rec[l].ev = name /\ l' = l + 1
Places(s2, e) == In(s2, "main") = SetOf(e.main) /\ In(s2, "coll") = SetOf(e.coll)   \* physical stores agree

(* C01 / C02 / C03 / C04 / C20 on one recorded predict call *)
PredictOK(pro, e, ep) ==
  LET a == e.ids  n == Len(a)  live == Live(pro, e.scene, ep)  W == Weff(e, live)
      cont == {i \in 1..n : a[i] \in Ids(pro)} IN
  /\ Len(a) = Len(e.cids) /\ Len(e.w) = n                                        \* one record per detection
  /\ \A i, j \in 1..n : i # j => a[i] # a[j]                                      \* distinct ids in one call
  /\ \A i \in cont : /\ a[i] \in live                                             \* same scene, unexpired, in the live store
                     /\ a[i] \in DOMAIN Wof(e)[i] /\ Wof(e)[i][a[i]] >= Thr       \* gated
                     /\ Verdict(e, i, a[i]) # "no"                                \* never beyond a binding constraint
  /\ (HasEdge(e) \/ ValueOf(W, n, a) + Margin >= BestValue(W, n, live))           \* maximum total weight
  /\ \A i \in 1..n : a[i] \notin Ids(pro) => a[i] \notin Ids(st)                  \* fresh ids were never issued

TPredict == /\ Ev("predict")
            /\ LET e == Rec[l]  pro == Prologue(st)  ep == Ep(pro, e.scene) + 1
                   s2 == Predict(st, e.scene, e.cids, Wof(e), e.ids) IN
               /\ PredictOK(pro, e, ep) /\ e.echo = 1
               /\ \A i \in DOMAIN e.ids : e.eps[i] = ep /\ e.lens[i] = s2.tracks[e.ids[i]].len
               /\ Places(s2, e)
               /\ st' = s2
TSkip    == Ev("skip") /\ LET e == Rec[l]  s2 == Skip(st, e.scene, e.n) IN Places(s2, e) /\ st' = s2
TWasted  == Ev("wasted") /\ LET e == Rec[l] IN SetOf(e.ids) = WastedIds(st) /\ st' = Wasted(st) /\ Places(Wasted(st), e)
TIdle    == Ev("idle") /\ SetOf(Rec[l].ids) = IdleIds(st, Rec[l].scene) /\ UNCHANGED st
TClear   == Ev("clear") /\ st' = Clear(st)
TSetAw   == Ev("setaw") /\ st' = SetAw(st, Rec[l].p)
TStats   == Ev("stats") /\ Rec[l].active = Cardinality(In(st, "main")) /\ Rec[l].wasted = Cardinality(In(st, "coll")) /\ UNCHANGED st
TraceNext == TPredict \/ TSkip \/ TWasted \/ TIdle \/ TClear \/ TSetAw \/ TStats
TraceSpec == TraceInit /\ [][TraceNext]_<<st, l>>
Progress == IF l > TLCGet(1) THEN TLCSet(1, l) /\ TLCSet(2, st) ELSE TRUE
(* ---- diagnosis of a rejected line: which conjuncts fail in the state reached before it ---- *)
WhyPredict(s0, e) ==
  LET pro == Prologue(s0)  ep == Ep(pro, e.scene) + 1  a == e.ids  n == Len(a)
      live == Live(pro, e.scene, ep)  W == Weff(e, live)
      cont == {i \in 1..n : a[i] \in Ids(pro)}
      s2 == Predict(s0, e.scene, e.cids, Wof(e), e.ids) IN
  (IF Len(a) = Len(e.cids) /\ Len(e.w) = n THEN {} ELSE {"count"})
  \cup (IF \A i, j \in 1..n : i # j => a[i] # a[j] THEN {} ELSE {"distinct"})
  \cup (IF \A i \in cont : pro.tracks[a[i]].scene = e.scene THEN {} ELSE {"foreign-scene"})
  \cup (IF \A i \in cont : pro.tracks[a[i]].scene # e.scene \/ (pro.tracks[a[i]].place = "main" /\ ep - pro.tracks[a[i]].last <= MaxIdle) THEN {} ELSE {"expired"})
  \cup (IF \A i \in cont : a[i] \in DOMAIN Wof(e)[i] /\ Wof(e)[i][a[i]] >= Thr THEN {} ELSE {"gate"})
  \cup (IF \A i \in cont : Verdict(e, i, a[i]) # "no" THEN {} ELSE {"constraint"})
  \cup (IF n # Len(e.w) \/ HasEdge(e) \/ ValueOf(W, n, a) + Margin >= BestValue(W, n, live) THEN {} ELSE {"optimal"})
  \cup (IF \A i \in 1..n : a[i] \notin Ids(pro) => a[i] \notin Ids(s0) THEN {} ELSE {"fresh"})
  \cup (IF e.echo = 1 THEN {} ELSE {"echo"})
  \cup (IF \A i \in DOMAIN e.ids : e.eps[i] = ep THEN {} ELSE {"epoch"})
  \cup (IF (\A i, j \in 1..n : i # j => a[i] # a[j]) /\ (\A i \in DOMAIN e.ids : e.lens[i] = s2.tracks[e.ids[i]].len) THEN {} ELSE {"len"})
  \cup (IF (\A i, j \in 1..n : i # j => a[i] # a[j]) /\ Places(s2, e) THEN {} ELSE {"places"})
Why(s0, e) ==
  CASE e.ev = "predict" -> WhyPredict(s0, e)
    [] e.ev = "idle" -> {"idle"}
    [] e.ev = "wasted" -> {"wasted"}
    [] e.ev = "stats" -> {"stats"}
    [] e.ev = "skip" -> {"places"}
    [] e.ev = "PANIC" -> {"panic"}
    [] OTHER -> {"event"}
Accepted == IF TLCGet(1) = Len(Rec) + 1 THEN TRUE
            ELSE PrintT("REJECTED at line " \o ToString(<<TLCGet(1), "why", Why(TLCGet(2), Rec[TLCGet(1)]), Rec[TLCGet(1)]>>)) /\ FALSE
=============================================================================
