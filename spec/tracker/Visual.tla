------------------------------- MODULE Visual -------------------------------
(* R1 model of VisualSORT (VisualSort, BatchVisualSort): Tracker extended with *)
(* appearance features.  A detection carries a feature symbol f (0 = none) and  *)
(* a quality q (1/100); a track carries its gallery gal (sequence of [f, q],    *)
(* index 1 = newest observation, the only one that still has a box), the ring   *)
(* fh of submitted features and the voting type vt of its last attachment.      *)
(*                                                                             *)
(* Association (C12), as coded: appearance claims first (usable feature, track  *)
(* with enough collected features, enough stored features within the visual     *)
(* threshold), a track goes to its heaviest claimant, a detection's heaviest     *)
(* claim decides for it (lost -> new track); detections without any claim go to  *)
(* the positional assignment over the tracks not taken by appearance.            *)
(* Gallery (C13), as coded: drop feature-less old entries, order by quality,     *)
(* evict the lowest when MaxObs is reached, the newest entry keeps its feature   *)
(* only if it meets the collect thresholds (a new track keeps it anyway).        *)
EXTENDS Tracker
CONSTANTS Feats, Quals, MaxObs, MinTrackLen, MinVotes, QUse, QCollect, VisThr,
          MinArea,             \* minimal box area for a feature to be used / collected
          VisKind,             \* "euclid" | "cosine"
          OwnUse, OwnCollect   \* minimal exclusively-owned area share (1/100) to use / collect a feature; both 0 = not computed

VDet == [slot : Slots, conf : Confs, cid : Cids, f : Feats \cup {0}, q : Quals]
(* feature symbols are points.  Euclidean: 1 = (0,0), 2 = (3,0), 3 = (0,4), distances x 10.
   Cosine: 1 = (1,0), 2 = (0.6,0.8), 3 = (0,1); the engine votes with 1 - similarity, x 10 *)
Dist(a, b) == IF a = b THEN 0 ELSE LET p == IF a < b THEN <<a, b>> ELSE <<b, a>> IN
              IF VisKind = "euclid"
              THEN CASE p = <<1, 2>> -> 30 [] p = <<1, 3>> -> 40 [] p = <<2, 3>> -> 50
              ELSE CASE p = <<1, 2>> -> 4 [] p = <<1, 3>> -> 10 [] p = <<2, 3>> -> 2
(* areas of the slot boxes of the harness *)
SlotArea(s) == CASE s = 1 -> 3200 [] s = 2 -> 2400 [] s = 3 -> 2500 [] s = 4 -> 2880 [] s = 5 -> 2048
(* slot 5 is slot 1 seen smaller (same centre and aspect, height 64 instead of 80: IoU 0.64 with slot 1): an object
   whose apparent size changes.  Place(s) is where the box is; area gates read the box of the detection itself. *)
Place(s) == IF s = 5 THEN 1 ELSE s
MaxOf(S) == CHOOSE x \in S : \A y \in S : y <= x
RECURSIVE SumSet(_, _)
SumSet(f, S) == IF S = {} THEN 0 ELSE LET x == CHOOSE y \in S : TRUE IN f[x] + SumSet(f, S \ {x})

(* ---- gallery ---- *)
RECURSIVE SortDescQ(_), InsQ(_, _)
InsQ(x, s) == IF s = <<>> THEN <<x>> ELSE IF x.q > Head(s).q THEN <<x>> \o s ELSE <<Head(s)>> \o InsQ(x, Tail(s))
SortDescQ(s) == IF s = <<>> THEN <<>> ELSE InsQ(s[Len(s)], SortDescQ(SubSeq(s, 1, Len(s) - 1)))
Continue(g, f, q, collectable) ==
  LET kept   == SelectSeq(g, LAMBDA e : e.f # 0)
      sorted == SortDescQ(kept)
      cut    == IF Len(sorted) >= MaxObs THEN SubSeq(sorted, 1, Len(sorted) - 1) ELSE sorted
      newest == [f |-> IF collectable THEN f ELSE 0, q |-> q]
  IN IF cut = <<>> THEN <<newest>> ELSE <<newest>> \o SubSeq(cut, 2, Len(cut)) \o <<cut[1]>>
Collected(g) == Cardinality({i \in DOMAIN g : g[i].f # 0})
(* what C13 allows for g -> g2 (declarative; the coded update must be inside) *)
GalleryAllowed(g, f, q, collectable, g2) ==
  LET oldF == {i \in DOMAIN g : g[i].f # 0}
      n    == Cardinality(oldF)
      newF == IF collectable /\ f # 0 THEN 1 ELSE 0
      rest == {i \in DOMAIN g2 : i > 1}
      need == IF n + newF > MaxObs THEN n + newF - MaxObs ELSE 0
      most == IF n >= MaxObs /\ need = 0 THEN 1 ELSE need
      evicted == n - Cardinality(rest)
      bag(h, S) == [e \in {h[i] : i \in S} |-> Cardinality({i \in S : h[i] = e})]
      b1 == bag(g, oldF)
      b2 == bag(g2, rest)
  IN /\ g2 # <<>> /\ g2[1] = [f |-> IF newF = 1 THEN f ELSE 0, q |-> q]
     /\ Collected(g2) <= MaxObs
     /\ \A i \in rest : g2[i].f # 0
     /\ \A e \in DOMAIN b2 : e \in DOMAIN b1 /\ b2[e] <= b1[e]
     /\ need <= evicted /\ evicted <= most
     /\ \A e \in DOMAIN b1 : \A k \in DOMAIN b2 :
           (IF e \in DOMAIN b2 THEN b2[e] < b1[e] ELSE TRUE) => e.q <= k.q

(* ---- association ---- *)
(* exclusively-owned share of detection i within its call: slots are disjoint and detections on one slot are the
   same box, so a detection owns all of its area or (when another detection of the call sits on its slot) none *)
Share(dets, i) == IF \E j \in DOMAIN dets : j # i /\ dets[j].slot = dets[i].slot THEN 0 ELSE 100
OwnOn == OwnUse + OwnCollect > 0
Usable(dets, i) == dets[i].f # 0 /\ dets[i].q >= QUse /\ SlotArea(dets[i].slot) >= MinArea /\ (OwnOn => Share(dets, i) >= OwnUse)
Collectable(dets, i) == dets[i].f # 0 /\ dets[i].q >= QCollect /\ SlotArea(dets[i].slot) >= MinArea /\ (OwnOn => Share(dets, i) >= OwnCollect)
(* gallery entries of track t whose feature lies within the visual threshold of detection d *)
Votes(dets, i, t) == IF Usable(dets, i) /\ Collected(t.gal) >= MinTrackLen
               THEN {j \in DOMAIN t.gal : t.gal[j].f # 0 /\ Dist(dets[i].f, t.gal[j].f) <= VisThr} ELSE {}

VPredictBody(st, s, dets) ==
  LET e    == st.epoch[s] + 1
      n    == Len(st.tracks)
      tr   == st.tracks
      rows == 1..Len(dets)
      live == Live(st, s, e)
      allD == UNION {{Dist(dets[i].f, tr[k].gal[j].f) : j \in Votes(dets, i, tr[k])} : i \in rows, k \in live}
      maxSeen == IF allD = {} THEN 0 ELSE MaxOf(allD)
      claim(i, k) == Votes(dets, i, tr[k]) # {} /\ Cardinality(Votes(dets, i, tr[k])) >= MinVotes
      w(i, k) == SumSet([j \in DOMAIN tr[k].gal |-> maxSeen - Dist(dets[i].f, tr[k].gal[j].f)], Votes(dets, i, tr[k]))
      claimers == {i \in rows : \E k \in live : claim(i, k)}
      bestOf(i) == LET ks == {k \in live : claim(i, k)} IN CHOOSE k \in ks : \A k2 \in ks : w(i, k2) <= w(i, k)
      ownerOf(k) == LET is == {i \in rows : claim(i, k)} IN CHOOSE i \in is : \A i2 \in is : w(i2, k) <= w(i, k)
      tieFree == \A i1, i2 \in rows : \A k1, k2 \in live :
                   (claim(i1, k1) /\ claim(i2, k2) /\ <<i1, k1>> # <<i2, k2>> /\ (i1 = i2 \/ k1 = k2)) => w(i1, k1) # w(i2, k2)
      vis == [i \in claimers |-> IF ownerOf(bestOf(i)) = i THEN bestOf(i) ELSE 0]      \* 0 = new track
      taken == {vis[i] : i \in claimers} \ {0}
      prow == rows \ claimers
      pcol == live \ taken
      W    == [i \in prow |-> [k \in pcol |-> IF Place(dets[i].slot) = Place(tr[k].slot) THEN Weight(dets[i].conf) ELSE 0]]
      best == A!Best(W, prow, pcol, Thr)
      pa   == CHOOSE x \in best : TRUE
      target(i) == IF i \in claimers THEN vis[i] ELSE pa[i]
      kind(i) == IF i \in claimers THEN "vis" ELSE "pos"
      newBefore(i) == Cardinality({j \in 1..(i-1) : target(j) = 0})
      kOf(i) == IF target(i) # 0 THEN target(i) ELSE n + newBefore(i) + 1
      nNew == Cardinality({i \in rows : target(i) = 0})
      upd(k) == IF \E i \in rows : target(i) = k
                THEN LET i == CHOOSE j \in rows : target(j) = k IN
                     [tr[k] EXCEPT !.last = e, !.len = @ + 1, !.cid = dets[i].cid, !.vt = kind(i), !.slot = dets[i].slot,
                                   !.ring = Ring(@, <<dets[i].slot, dets[i].conf>>),
                                   !.fh = Ring(@, dets[i].f),
                                   !.gal = Continue(@, dets[i].f, dets[i].q, Collectable(dets, i))]
                ELSE tr[k]
      newt(m) == LET i == CHOOSE j \in rows : target(j) = 0 /\ newBefore(j) = m - 1 IN
                 [scene |-> s, slot |-> dets[i].slot, last |-> e, len |-> 1, cid |-> dets[i].cid,
                  ring |-> <<<<dets[i].slot, dets[i].conf>>>>, place |-> "main",
                  vt |-> "pos", fh |-> <<dets[i].f>>, gal |-> <<[f |-> dets[i].f, q |-> dets[i].q]>>]
      trs == [k \in 1..(n + nNew) |-> IF k <= n THEN upd(k) ELSE newt(k - n)]
  IN [unique |-> /\ tieFree /\ Cardinality(best) = 1
                 (* R1 keeps objects stationary: no appearance match that moves a track to another slot *)
                 /\ \A i \in claimers : vis[i] # 0 => Place(tr[vis[i]].slot) = Place(dets[i].slot)
                 (* two sizes of one place in a single call would make the positional weights depend on the
                    smoothed size of the track: outside the slot world *)
                 /\ \A i, j \in rows : Place(dets[i].slot) = Place(dets[j].slot) => dets[i].slot = dets[j].slot,
      st     |-> [st EXCEPT !.tracks = trs, !.epoch[s] = e, !.sub = @ + Len(dets)],
      ret    |-> [i \in rows |-> [id |-> kOf(i), scene |-> s, ep |-> e, len |-> trs[kOf(i)].len,
                                  slot |-> dets[i].slot, conf |-> dets[i].conf, cid |-> dets[i].cid,
                                  vt |-> trs[kOf(i)].vt]],
      claimers |-> claimers, vis |-> vis, taken |-> taken, pa |-> pa,
      lost |-> {i \in claimers : vis[i] = 0},
      evicts |-> {k \in DOMAIN tr : (\E i \in rows : target(i) = k) /\ Collected(tr[k].gal) >= MaxObs},
      refused |-> {i \in rows : target(i) # 0 /\ dets[i].f # 0 /\ ~Collectable(dets, i)},
      (* C12 stated on the outcome *)
      ok |-> /\ \A i \in claimers : vis[i] # 0 =>
                   /\ claim(i, vis[i])
                   /\ \A i2 \in rows : claim(i2, vis[i]) => w(i2, vis[i]) <= w(i, vis[i])
             /\ \A i \in claimers : vis[i] = 0 => kOf(i) > n                          \* a loser starts a new track
             /\ \A i \in prow : pa[i] # 0 => pa[i] \notin taken
             /\ \A i1, i2 \in rows : (i1 # i2 /\ target(i1) # 0) => target(i1) # target(i2)
             /\ \A k \in DOMAIN tr : (\E i \in rows : target(i) = k) =>
                   LET i == CHOOSE j \in rows : target(j) = k IN
                   GalleryAllowed(tr[k].gal, dets[i].f, dets[i].q, Collectable(dets, i), trs[k].gal)]

VPredict(st, s, dets) == VPredictBody(Prologue(st), s, dets)
RECURSIVE VBatchBodies(_, _, _)
VBatchBodies(st, B, todo) ==
  IF todo = {} THEN [unique |-> TRUE, st |-> st, ret |-> [s \in {} |-> <<>>], ok |-> TRUE,
                     nlost |-> 0, nvis |-> 0, nevicts |-> 0, nrefused |-> 0]
  ELSE LET s == CHOOSE x \in todo : \A y \in todo : x <= y
           b == VPredictBody(st, s, B[s])
           r == VBatchBodies(b.st, B, todo \ {s})
       IN [unique |-> b.unique /\ r.unique, st |-> r.st, ok |-> b.ok /\ r.ok,
           nlost |-> Cardinality(b.lost) + r.nlost, nvis |-> Cardinality(b.claimers) + r.nvis,
           nevicts |-> Cardinality(b.evicts) + r.nevicts, nrefused |-> Cardinality(b.refused) + r.nrefused,
           ret |-> [x \in DOMAIN r.ret \cup {s} |-> IF x = s THEN b.ret ELSE r.ret[x]]]
VPredictBatch(st, B) == VBatchBodies(Prologue(st), B, DOMAIN B)
(* wasted(): as Tracker!Wasted plus the feature history *)
VWasted(st) == LET c == Collect(st)  w == In(c, "coll") IN
               [st |-> Kill(c, w, "out"),
                ret |-> {[id |-> k, scene |-> c.tracks[k].scene, ep |-> c.tracks[k].last, len |-> c.tracks[k].len,
                          ring |-> c.tracks[k].ring, fh |-> c.tracks[k].fh] : k \in w}]
=============================================================================
