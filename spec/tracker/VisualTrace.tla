----------------------------- MODULE VisualTrace -----------------------------
(* impl -> spec (regime R2, "free world") for VisualSORT: validates one recorded *)
(* run of the real VisualSort / BatchVisualSort with appearance features against *)
(* the cascade of C12 and the gallery rules of C13.  Random moving, crossing,    *)
(* look-alike objects; features are symbols of a small alphabet whose pairwise   *)
(* distances (Euclidean) or similarities (cosine) the harness measures once with *)
(* the library's own distance functions (bound to Feature.tla by C16) and logs   *)
(* in the configuration line, x 1000.  Before every predict call the harness     *)
(* reads the observable galleries of the scene's stored tracks, and logs for     *)
(* every detection its feature symbol, quality, box area and exclusively-owned   *)
(* share (measured with the library's own-area function, bound to Lattice.tla by *)
(* C15).  The specification recomputes the use / collect gates, the votes, the   *)
(* claim weights, "a track goes to its heaviest claimant", "a detection's        *)
(* heaviest claim decides", the positional fallback among the tracks not taken   *)
(* (optimum by subset DP over the measured weights, as in TrackerTrace), the     *)
(* voting type of every record and the admissible evolutions of the galleries,   *)
(* and compares the recorded decision with them.                                 *)
(*                                                                               *)
(* Additional fields of a predict line:                                          *)
(*   "f":[sym..] (0 = no feature) "q":[quality x1000..] "area":[..] "share":[x10000 or -1..]  *)
(*   "g":[[id, collected, [[sym, q]..]]..]  galleries before the call (newest first)          *)
(*   "vt":[0|1..] voting type of every record (1 = visual)                                    *)
(*   "g2":[[id, collected, [[sym, q]..]]..] gallery of every record's track after the call     *)
(* Configuration: "v": [kind, thr, dist, minvotes, mintracklen, maxobs, quse, qcollect,       *)
(*                       minarea, ownuse, owncollect, wmargin, qeps, aeps, seps, deps]        *)
(* Where a logged quantity lies within its eps of a threshold, or two competing  *)
(* claim weights lie within wmargin, the float implementation may decide either  *)
(* way: such a call is checked structurally only (counted by the check).         *)
EXTENDS TrackerTrace
VARIABLE gal          \* [track id -> gallery]: the galleries as this specification has seen them evolve
V == Cfg.v
Abs(x) == IF x < 0 THEN -x ELSE x
Dist(a, b) == V.dist[a][b]
Within(a, b) == IF V.kind = "euclid" THEN Dist(a, b) <= V.thr ELSE Dist(a, b) >= V.thr
VoteD(a, b) == IF V.kind = "euclid" THEN Dist(a, b) ELSE 1000 - Dist(a, b)      \* the distance a counted vote carries
(* the recorder keeps every table entry away from the threshold; anything else is a tooling error, not a verdict *)
ASSUME \A a \in DOMAIN V.dist : \A b \in DOMAIN V.dist[a] : Abs(Dist(a, b) - V.thr) > V.deps
OwnOn == V.ownuse + V.owncollect > 0

(* ---- galleries: sequences of <<symbol, quality>>, index 1 = newest ---- *)
GOf(e) == [k \in {e.g[j][1] : j \in DOMAIN e.g} |-> e.g[CHOOSE j \in DOMAIN e.g : e.g[j][1] = k]]
Stored(g) == {j \in DOMAIN g : g[j][1] # 0}
NStored(g) == Cardinality(Stored(g))
BagOf(h, S) == [x \in {h[i] : i \in S} |-> Cardinality({i \in S : h[i] = x})]
(* what C13 allows for the gallery g of a continued track when a detection (f, q) arrives (the same statement as
   Visual!GalleryAllowed): the newest entry is the detection (its feature kept iff collectable), only stored features
   survive behind it, nothing is invented, the bound holds, and what was evicted is of the lowest quality *)
GalleryAllowed(g, f, q, collectable, g2) ==
  LET oldF == Stored(g)
      n    == Cardinality(oldF)
      newF == IF collectable /\ f # 0 THEN 1 ELSE 0
      rest == {i \in DOMAIN g2 : i > 1}
      need == IF n + newF > V.maxobs THEN n + newF - V.maxobs ELSE 0
      most == IF n >= V.maxobs /\ need = 0 THEN 1 ELSE need
      evicted == n - Cardinality(rest)
      b1 == BagOf(g, oldF)
      b2 == BagOf(g2, rest)
  IN /\ g2 # <<>> /\ g2[1] = <<IF newF = 1 THEN f ELSE 0, q>>
     /\ NStored(g2) <= V.maxobs
     /\ \A i \in rest : g2[i][1] # 0
     /\ \A x \in DOMAIN b2 : x \in DOMAIN b1 /\ b2[x] <= b1[x]
     /\ need <= evicted /\ evicted <= most
     /\ \A x \in DOMAIN b1 : \A y \in DOMAIN b2 : (IF x \in DOMAIN b2 THEN b2[x] < b1[x] ELSE TRUE) => x[2] <= y[2]

(* ---- gates ---- *)
Near(x, t, eps) == Abs(x - t) <= eps
EdgeDet(e, i) == /\ e.f[i] # 0
                 /\ \/ Near(e.q[i], V.quse, V.qeps) \/ Near(e.q[i], V.qcollect, V.qeps)
                    \/ Near(e.area[i], V.minarea, V.aeps)
                    \/ (OwnOn /\ (Near(e.share[i], V.ownuse, V.seps) \/ Near(e.share[i], V.owncollect, V.seps)))
Usable(e, i) == e.f[i] # 0 /\ e.q[i] >= V.quse /\ e.area[i] >= V.minarea /\ (OwnOn => e.share[i] >= V.ownuse)
Collectable(e, i) == e.f[i] # 0 /\ e.q[i] >= V.qcollect /\ e.area[i] >= V.minarea /\ (OwnOn => e.share[i] >= V.owncollect)

SumOver(f, S) == LET RECURSIVE Sm(_)
                     Sm(X) == IF X = {} THEN 0 ELSE LET x == CHOOSE y \in X : TRUE IN f[x] + Sm(X \ {x})
                 IN Sm(S)

(* ---- the cascade on one recorded call: everything the decision depends on ---- *)
Cascade(pro, e, ep, G) ==
  LET n    == Len(e.ids)
      rows == 1..n
      live == Live(pro, e.scene, ep)
      cand(i) == {k \in live : Verdict(e, i, k) # "no"}                      \* constraints filter both stages
      votes(i, k) == IF Usable(e, i) /\ NStored(G[k][3]) >= V.mintracklen
                     THEN {j \in Stored(G[k][3]) : Within(e.f[i], G[k][3][j][1])} ELSE {}
      allD == UNION {UNION {{VoteD(e.f[i], G[k][3][j][1]) : j \in votes(i, k)} : k \in cand(i)} : i \in rows}
      maxSeen == IF allD = {} THEN 0 ELSE MaxOf(allD)
      claim(i, k) == k \in cand(i) /\ votes(i, k) # {} /\ Cardinality(votes(i, k)) >= V.minvotes
      w(i, k) == SumOver([j \in DOMAIN G[k][3] |-> maxSeen - VoteD(e.f[i], G[k][3][j][1])], votes(i, k))
      claimers == {i \in rows : \E k \in live : claim(i, k)}
      bestOf(i) == LET ks == {k \in live : claim(i, k)} IN CHOOSE k \in ks : \A k2 \in ks : w(i, k2) <= w(i, k)
      ownerOf(k) == LET is == {i \in rows : claim(i, k)} IN CHOOSE i \in is : \A i2 \in is : w(i2, k) <= w(i, k)
      tie == \E i1, i2 \in rows : \E k1, k2 \in live :
               /\ claim(i1, k1) /\ claim(i2, k2) /\ <<i1, k1>> # <<i2, k2>> /\ (i1 = i2 \/ k1 = k2)
               /\ Abs(w(i1, k1) - w(i2, k2)) <= V.wmargin
      vis == [i \in claimers |-> IF ownerOf(bestOf(i)) = i THEN bestOf(i) ELSE 0]          \* 0 = lost: new track
      taken == {vis[i] : i \in claimers} \ {0}
      prow == rows \ claimers
      pcol == live \ taken
      Wall == Weff(e, live)
      Wp   == [i \in rows |-> IF i \in prow THEN [k \in DOMAIN Wall[i] \cap pcol |-> Wall[i][k]] ELSE [k \in {} |-> 0]]
  IN [live |-> live, claimers |-> claimers, vis |-> vis, taken |-> taken, prow |-> prow, pcol |-> pcol, Wp |-> Wp,
      loose |-> tie \/ HasEdge(e) \/ \E i \in rows : EdgeDet(e, i)]

Structural(pro, e, ep, live) ==
  LET a == e.ids  n == Len(a) IN
  /\ Len(e.cids) = n /\ Len(e.w) = n /\ Len(e.f) = n /\ Len(e.vt) = n /\ Len(e.g2) = n     \* one record per detection
  /\ \A i, j \in 1..n : i # j => a[i] # a[j]                                                \* distinct ids
  /\ \A i \in 1..n : a[i] \in Ids(pro) => a[i] \in live                                     \* same scene, unexpired, stored
  /\ \A i \in 1..n : a[i] \notin Ids(pro) => a[i] \notin Ids(st)                            \* fresh ids
  /\ \A i \in 1..n : e.g2[i][1] = a[i]

(* C12 on the outcome *)
AppearanceOK(pro, e, c) ==
  /\ \A i \in c.claimers : IF c.vis[i] # 0 THEN e.ids[i] = c.vis[i] /\ e.vt[i] = 1          \* the heaviest claim of the heaviest claimant
                           ELSE e.ids[i] \notin Ids(pro) /\ e.vt[i] = 0                     \* a loser starts a new track
FallbackOK(pro, e, c) ==
  LET a == e.ids  n == Len(a) IN
  /\ \A i \in c.prow : /\ e.vt[i] = 0
                       /\ a[i] \in Ids(pro) => /\ a[i] \in c.pcol                           \* never a track taken by appearance
                                               /\ a[i] \in DOMAIN Wof(e)[i] /\ Wof(e)[i][a[i]] >= Thr
                                               /\ Verdict(e, i, a[i]) # "no"
  /\ ValueOf(c.Wp, n, a) + Margin >= BestValue(c.Wp, n, c.pcol)                             \* exactly as in SORT
(* C13 on the galleries after the call *)
GalleryOK(pro, e, G) ==
  \A i \in DOMAIN e.ids :
     LET g2 == e.g2[i][3]  k == e.ids[i] IN
     IF k \in Ids(pro)
     THEN k \in DOMAIN G /\ \E cl \in (IF EdgeDet(e, i) THEN BOOLEAN ELSE {Collectable(e, i)}) : GalleryAllowed(G[k][3], e.f[i], e.q[i], cl, g2)
     ELSE Len(g2) = 1 /\ g2[1][2] = e.q[i] /\ g2[1][1] \in {e.f[i], 0}
CollectedOK(e) == /\ \A i \in DOMAIN e.g2 : e.g2[i][2] = NStored(e.g2[i][3])                  \* the reported count is the stored count
                  /\ \A j \in DOMAIN e.g : e.g[j][2] = NStored(e.g[j][3])
(* nothing touches a gallery between two calls for its scene *)
ContinuityOK(e, live) == \A k \in live : k \in DOMAIN GOf(e) /\ (k \in DOMAIN gal => GOf(e)[k][3] = gal[k])

VInit == TraceInit /\ gal = << >> /\ TLCSet(3, << >>) /\ TLCSet(4, <<0, 0, 0, 0, 0, 0>>)
NewGal(e) == [k \in DOMAIN gal \cup {e.ids[i] : i \in DOMAIN e.ids} |->
                IF \E i \in DOMAIN e.ids : e.ids[i] = k THEN e.g2[CHOOSE i \in DOMAIN e.ids : e.ids[i] = k][3] ELSE gal[k]]
TVPredict == /\ Ev("predict")
             /\ LET e == Rec[l]  pro == Prologue(st)  ep == Ep(pro, e.scene) + 1
                    live == Live(pro, e.scene, ep)
                    s2 == Predict(st, e.scene, e.cids, Wof(e), e.ids) IN
                /\ Structural(pro, e, ep, live) /\ e.echo = 1
                /\ ContinuityOK(e, live) /\ CollectedOK(e)
                /\ LET c == Cascade(pro, e, ep, GOf(e)) IN
                   /\ c.loose \/ (AppearanceOK(pro, e, c) /\ FallbackOK(pro, e, c))
                   (* non-vacuity counters (one path: the trace): calls checked structurally only / with appearance claims /
                      with a claim that lost / with a positional fallback next to an appearance attachment; gallery updates *)
                   /\ LET t == TLCGet(4) IN
                      TLCSet(4, <<t[1] + (IF c.loose THEN 1 ELSE 0), t[2] + (IF c.claimers # {} /\ ~c.loose THEN 1 ELSE 0),
                                  t[3] + (IF ~c.loose /\ \E i \in c.claimers : c.vis[i] = 0 THEN 1 ELSE 0),
                                  t[4] + (IF ~c.loose /\ c.taken # {} /\ \E i \in c.prow : e.ids[i] \in Ids(pro) THEN 1 ELSE 0),
                                  (* galleries: continuations of a track whose gallery is full (an eviction is due) / whose
                                     detection carries a feature that the collect gate refuses *)
                                  t[5] + Cardinality({i \in DOMAIN e.ids : e.ids[i] \in Ids(pro) /\ e.ids[i] \in DOMAIN GOf(e)
                                                        /\ NStored(GOf(e)[e.ids[i]][3]) >= V.maxobs}),
                                  t[6] + Cardinality({i \in DOMAIN e.ids : e.ids[i] \in Ids(pro) /\ e.f[i] # 0 /\ ~Collectable(e, i)})>>)
                /\ GalleryOK(pro, e, GOf(e))
                /\ \A i \in DOMAIN e.ids : e.eps[i] = ep /\ e.lens[i] = s2.tracks[e.ids[i]].len
                /\ Places(s2, e)
                /\ st' = s2 /\ gal' = NewGal(e)
VOther == (TSkip \/ TWasted \/ TIdle \/ TClear \/ TSetAw \/ TStats) /\ UNCHANGED gal
VNext == TVPredict \/ VOther
VSpec == VInit /\ [][VNext]_<<st, l, gal>>
VProgress == IF l > TLCGet(1) THEN TLCSet(1, l) /\ TLCSet(2, st) /\ TLCSet(3, gal) ELSE TRUE

(* ---- diagnosis of a rejected line ---- *)
WhyV(s0, g0, e) ==
  LET pro == Prologue(s0)  ep == Ep(pro, e.scene) + 1  live == Live(pro, e.scene, ep)
      a == e.ids  n == Len(a)
      s2 == Predict(s0, e.scene, e.cids, Wof(e), e.ids)
      shape == Len(e.cids) = n /\ Len(e.w) = n /\ Len(e.f) = n /\ Len(e.vt) = n /\ Len(e.g2) = n
      distinct == \A i, j \in 1..n : i # j => a[i] # a[j]
      galsOK == \A k \in live : k \in DOMAIN GOf(e)
  IN (IF shape THEN {} ELSE {"count"})
     \cup (IF distinct THEN {} ELSE {"distinct"})
     \cup (IF \A i \in 1..n : a[i] \in Ids(pro) => pro.tracks[a[i]].scene = e.scene THEN {} ELSE {"foreign-scene"})
     \cup (IF \A i \in 1..n : (a[i] \in Ids(pro) /\ pro.tracks[a[i]].scene = e.scene) => a[i] \in live THEN {} ELSE {"expired"})
     \cup (IF \A i \in 1..n : a[i] \notin Ids(pro) => a[i] \notin Ids(s0) THEN {} ELSE {"fresh"})
     \cup (IF e.echo = 1 THEN {} ELSE {"echo"})
     \cup (IF \A i \in DOMAIN e.ids : e.eps[i] = ep THEN {} ELSE {"epoch"})
     \cup (IF ~shape \/ ~distinct \/ \A i \in DOMAIN e.ids : e.lens[i] = s2.tracks[e.ids[i]].len THEN {} ELSE {"len"})
     \cup (IF ~shape \/ ~distinct \/ Places(s2, e) THEN {} ELSE {"places"})
     \cup (IF ~shape \/ CollectedOK(e) THEN {} ELSE {"collected"})
     \cup (IF galsOK THEN {} ELSE {"places"})
     \cup (IF ~galsOK \/ \A k \in live : (k \in DOMAIN g0 => GOf(e)[k][3] = g0[k]) THEN {} ELSE {"gallery-continuity"})
     \cup (IF ~shape \/ ~galsOK \/ ~distinct THEN {}
           ELSE LET c == Cascade(pro, e, ep, GOf(e)) IN
                (IF c.loose \/ AppearanceOK(pro, e, c) THEN {} ELSE {"appearance"})
                \cup (IF c.loose \/ ~AppearanceOK(pro, e, c) \/ FallbackOK(pro, e, c) THEN {} ELSE {"fallback"})
                \cup (IF GalleryOK(pro, e, GOf(e)) THEN {} ELSE {"gallery"}))
WhyVis(s0, g0, e) == IF e.ev = "predict" THEN WhyV(s0, g0, e) ELSE Why(s0, e)
VAccepted == IF TLCGet(1) = Len(Rec) + 1 THEN PrintT("VSTATS " \o ToString(TLCGet(4)))
             ELSE PrintT("REJECTED at line " \o ToString(<<TLCGet(1), "why", WhyVis(TLCGet(2), TLCGet(3), Rec[TLCGet(1)]), Rec[TLCGet(1)]>>)) /\ FALSE
=============================================================================
