CONSTANTS
 Scenes = {1}
 Slots = {1, 2}
 Confs = {900, 800}
 Cids = {0}
 Metric = "iou"
 Thr = 300
 MinConf = 50
 MaxIdle = 2
 H = 2
 NShards = 2
 Feats = {1, 2, 3}
 Quals = {30, 70, 90}
 MaxObs = 2
 MinTrackLen = 1
 MinVotes = 1
 QUse = 50
 QCollect = 60
 VisThr = 35
 D = 7
 Kind = "simple"
 Periods = {0}
 MaxDets = 2
 Sim = 6
 LifecycleOps = FALSE
SPECIFICATION GSpec
INVARIANT Emit
CHECK_DEADLOCK FALSE
