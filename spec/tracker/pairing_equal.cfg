CONSTANTS
 Mode = "equal"
 Scene = 0
SPECIFICATION Spec
CONSTRAINT Progress
POSTCONDITION Accepted
CHECK_DEADLOCK FALSE
