CONSTANTS
 Mode = "renaming"
 Scene = 7
SPECIFICATION Spec
CONSTRAINT Progress
POSTCONDITION Accepted
CHECK_DEADLOCK FALSE
