CONSTANTS
 MaxIdle <- TraceMaxIdle
 Thr <- TraceThr
SPECIFICATION TraceSpec
CONSTRAINT Progress
POSTCONDITION Accepted
CHECK_DEADLOCK FALSE
