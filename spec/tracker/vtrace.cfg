CONSTANTS
 MaxIdle <- TraceMaxIdle
 Thr <- TraceThr
SPECIFICATION VSpec
CONSTRAINT VProgress
POSTCONDITION VAccepted
CHECK_DEADLOCK FALSE
