-------------------------------- MODULE DP --------------------------------
(* Maximum value of a gated one-to-one assignment with "own column = threshold" by *)
(* dynamic programming over the sets of used columns: the optimum for matrices too *)
(* large for Assignment!Best (8 x 8).  W : [1..n -> [Cols -> Nat]], 0 = no pair.    *)
(* f[i][U] = best value of rows i+1..n when the columns U are taken; built bottom-up *)
(* (row n first) so that every table is a fully evaluated function.                 *)
EXTENDS Integers, Sequences, FiniteSets, TLC
DMax(a, b) == IF a >= b THEN a ELSE b
DMaxOf(S) == CHOOSE x \in S : \A y \in S : y <= x
RECURSIVE Table(_, _, _, _, _)
Table(W, n, Cols, thr, i) ==        \* [SUBSET Cols -> value of rows i+1..n]
  IF i = n THEN [U \in SUBSET Cols |-> 0]
  ELSE LET nxt == Table(W, n, Cols, thr, i + 1) IN
       TLCEval([U \in SUBSET Cols |->
          LET opts == {W[i + 1][c] + nxt[U \cup {c}] : c \in {x \in Cols \ U : W[i + 1][x] > 0}} IN
          DMax(thr + nxt[U], IF opts = {} THEN 0 ELSE DMaxOf(opts))])     \* TLCEval: tabulate, do not re-evaluate
BestValue(W, n, Cols, thr) == Table(W, n, Cols, thr, 0)[{}]
=============================================================================
