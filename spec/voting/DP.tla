---- MODULE DP ----
EXTENDS Integers, Sequences, FiniteSets, TLC
(* maximum value of a gated one-to-one assignment by DP over used-column sets *)
Max(a, b) == IF a >= b THEN a ELSE b
MaxOf(S) == CHOOSE x \in S : \A y \in S : y <= x
BestValue(W, n, Cols, thr) ==
  LET f[i \in 0..n, U \in SUBSET Cols] ==
        IF i = n THEN 0
        ELSE LET skip == thr + f[i + 1, U]
                 opts == {W[i + 1][c] + f[i + 1, U \cup {c}] : c \in {x \in Cols \ U : W[i + 1][x] > 0}}
             IN IF opts = {} THEN skip ELSE Max(skip, MaxOf(opts))
  IN f[0, {}]
ValueOf(W, n, a, thr) == LET g[i \in 0..n] == IF i = 0 THEN 0 ELSE g[i-1] + (IF a[i] = 0 THEN thr ELSE W[i][a[i]]) IN g[n]
N == 8
Cols == 1..8
W0 == [i \in 1..N |-> [c \in Cols |-> IF (i * 7 + c * 13) % 5 = 0 THEN 0 ELSE 300000 + ((i * 31 + c * 17) % 23) * 30000]]
ASSUME PrintT(<<"best", BestValue(W0, N, Cols, 300000)>>)
VARIABLE x
Init == x = 0
Next == x' = x
====
