---- MODULE GenA ----
EXTENDS Assignment, Json, TLC
VARIABLES W, done
Init == W \in [1..3 -> [1..3 -> {0, 2, 4, 6}]] /\ done = FALSE
Next == done = FALSE /\ done' = TRUE /\ UNCHANGED W
Emit == done => PrintT(<<"REPLAY", ToJson([kind |-> "asg", w |-> W, opt |-> Best(W, 1..3, 1..3, 3)])>>)
====
