-------------------------------- MODULE GenA --------------------------------
(* Generation instance for the Hungarian engine (SortVoting; property C17 and the   *)
(* engine half of C02): one JSON line per weight matrix.                             *)
(*   kind "asg"  : [w, thr, sc, opt, val, gs]   opt = Assignment!Best(W): EVERY        *)
(*                 optimal gated one-to-one assignment (row -> column, 0 = the row     *)
(*                 keeps its own column = starts a new track), val = its value          *)
(*   kind "asgv" : [w, thr, sc, val, gs]        val = optimum by DP!BestValue (8 x 8)    *)
(* w[r][c] = 0: no pair; real weight = w / sc, real threshold = thr / sc (exact in f32  *)
(* and after the engine's scaling by 1e6).  gs = 1 iff row-by-row greedy choice is      *)
(* worse than the optimum (the case separates optimal from greedy).                     *)
(* Mode "enum": every NR x NC matrix over the grid (two-stage Next: first row, rest).   *)
(* Mode "sim" : random NR x NC matrices over 0..63 built cell by cell by `tlc -simulate`.*)
EXTENDS Assignment, Json, TLC, Integers
D == INSTANCE DP
CONSTANTS Mode,    \* "enum" | "sim"
          NR, NC,  \* rows (queries / detections), columns (tracks)
          GridName,\* "coarse" | "full" | "tie"
          CheckDP  \* TRUE: also assert DP!BestValue = the value of Best (cross-check of the DP used for 8 x 8)
VARIABLES stage, c
vars == <<stage, c>>
Rows == 1..NR
Cols == 1..NC
(* "fine": weights in 1/4096 that differ by 2.4e-4 around the threshold 0.30005 (and one heavy value): an assignment that is
   better by a few 1e-4 is better *)
Grid == IF GridName = "coarse" THEN {0, 2, 4} ELSE IF GridName = "full" THEN {0, 2, 4, 6}
        ELSE IF GridName = "fine" THEN {0, 1228, 1229, 1231, 2456} ELSE {0, 2, 3, 4, 6}
Thr == IF GridName = "fine" THEN 1229 ELSE 3      \* straddled by the grid; "tie" / "fine" contain the threshold itself
Sc == IF GridName = "fine" THEN 4096 ELSE 16
RECURSIVE GreedyVal(_, _, _, _)
GreedyVal(W, thr, r, used) ==        \* rows in order, each takes its heaviest free gated column
  IF r > NR THEN 0
  ELSE LET av == {x \in Cols \ used : W[r][x] > 0 /\ W[r][x] >= thr} IN
       IF av = {} THEN thr + GreedyVal(W, thr, r + 1, used)
       ELSE LET x == CHOOSE a \in av : \A y \in av : W[r][y] <= W[r][a] IN W[r][x] + GreedyVal(W, thr, r + 1, used \cup {x})
Case(W) ==
  LET opt == Best(W, Rows, Cols, Thr)
      v == Value(W, Rows, CHOOSE a \in opt : TRUE, Thr)
  IN [kind |-> "asg", w |-> W, thr |-> Thr, sc |-> Sc, opt |-> opt, val |-> v,
      gs |-> IF GreedyVal(W, Thr, 1, {}) < v THEN 1 ELSE 0]
(* the specification's own facts: no optimum uses a pair below the threshold; the DP optimum agrees with Best *)
Facts(W, cs) == /\ \A a \in cs.opt : \A r \in Rows : a[r] # 0 => W[r][a[r]] >= Thr          \* Assignment!GateRespected
                /\ CheckDP => D!BestValue(W, NR, Cols, Thr) = cs.val
                /\ \A a \in cs.opt : \A r1, r2 \in Rows : (r1 # r2 /\ a[r1] # 0) => a[r1] # a[r2]

Init == stage = 0 /\ c = [kind |-> "init"]
EnumNext ==
  \/ /\ stage = 0 /\ stage' = 1 /\ \E row \in [Cols -> Grid] : c' = [row |-> row]
  \/ /\ stage = 1 /\ stage' = 2
     /\ \E rest \in [2..NR -> [Cols -> Grid]] :
          LET W == [r \in Rows |-> IF r = 1 THEN c.row ELSE rest[r]]
              cs == Case(W) IN
          /\ Assert(Facts(W, cs), <<"C02a/C17 violated by the specification", W>>)
          /\ c' = cs
SimThrs == {10, 20, 32, 45}
SimNext ==
  \/ /\ stage = 0 /\ stage' = 1
     /\ \E thr \in SimThrs : c' = [thr |-> thr, w |-> [r \in Rows |-> [x \in Cols |-> 0]], k |-> 0, ph |-> 0]
  \/ /\ stage = 1 /\ c.k < NR * NC /\ c.ph = 0 /\ stage' = 1
     /\ \E v \in 0..63, keep \in 0..3 :      \* one cell in four stays absent
          LET r == (c.k \div NC) + 1
              x == (c.k % NC) + 1 IN
          c' = [c EXCEPT !.w[r][x] = IF keep = 0 THEN 0 ELSE v, !.k = @ + 1, !.ph = IF c.k + 1 = NR * NC THEN 1 ELSE 0]
  \/ /\ stage = 1 /\ c.ph = 1 /\ stage' = 2 /\ UNCHANGED c
Next == IF Mode = "enum" THEN EnumNext ELSE SimNext
Spec == Init /\ [][Next]_vars
SimCase == LET v == D!BestValue(c.w, NR, Cols, c.thr) IN
           [kind |-> "asgv", w |-> c.w, thr |-> c.thr, sc |-> 64, val |-> v,
            gs |-> IF GreedyVal(c.w, c.thr, 1, {}) < v THEN 1 ELSE 0]
Emit == IF Mode = "enum" THEN stage = 2 => PrintT(<<"REPLAY", ToJson(c)>>)
        ELSE stage = 2 => PrintT(<<"REPLAY", ToJson(SimCase)>>)
(* reachability witnesses (TLC must violate them) *)
W_GreedyAlwaysOptimal == stage = 2 => c.gs = 0
W_OptimumAlwaysUnique == stage = 2 => Cardinality(c.opt) = 1
W_NeverUnmatchedByGate == stage = 2 => \A a \in c.opt : \A r \in Rows : (\E x \in Cols : c.w[r][x] > 0) => a[r] # 0
=============================================================================
