---- MODULE GenV ----
EXTENDS Voting, Json
VARIABLES str, maxd, minv, N, done
Qs == {101, 102}
Ts == {1, 2}
Ent == [q : Qs, t : Ts, am : {0}, fd : {1, 3, 5}]
GInit == /\ str \in UNION {[1..n -> Ent] : n \in 2..4} /\ maxd \in {2, 4} /\ minv \in {1, 2} /\ N \in {1, 2} /\ done = FALSE
         /\ \A i \in DOMAIN str : i > 1 => (str[i-1].q < str[i].q \/ (str[i-1].q = str[i].q /\ str[i-1].t <= str[i].t))   \* canonical order; harness permutes
         /\ TieFree(str, maxd, minv)
GNext == done = FALSE /\ done' = TRUE /\ UNCHANGED <<str, maxd, minv, N>>
RECURSIVE SortByW(_, _)
SortByW(q, S) == IF S = {} THEN <<>> ELSE LET t == CHOOSE x \in S : \A y \in S : Weight(str, q, y, maxd) <= Weight(str, q, x, maxd) IN <<t>> \o SortByW(q, S \ {t})
El(q) == {t \in Ts : <<q, t>> \in Claims(str, maxd, minv)}
Cut(s) == IF Len(s) > N THEN SubSeq(s, 1, N) ELSE s
Emit == done => PrintT(<<"REPLAY", ToJson([kind |-> "vote", str |-> str, maxd |-> maxd, minv |-> minv, n |-> N,
          topn |-> [q \in Qs |-> [i \in DOMAIN Cut(SortByW(q, El(q))) |-> <<Cut(SortByW(q, El(q)))[i], Weight(str, q, Cut(SortByW(q, El(q)))[i], maxd)>>]],
          best |-> [q \in Qs |-> [i \in DOMAIN SortByW(q, El(q)) |-> LET t == SortByW(q, El(q))[i] IN IF Owner(str, maxd, minv, t) = q THEN t ELSE q]]])>>)
====
