-------------------------------- MODULE GenV --------------------------------
(* Generation instance for property C17, top-N and best-fit voting: one JSON line   *)
(* per case [str, sc, maxd, minv, topn, best, contest, cut] where                     *)
(*   str   the stream in a canonical order (the harness permutes it), entries          *)
(*         [q, t, am, fd]: integer distance fd (-1 = no distance), real value fd / sc  *)
(*   topn  [N -> [q -> <<track, weight>> list]]   for every N in 1..NT                 *)
(*   best  [q -> <<winner, weight>> list]         (winner = q: the track went elsewhere)*)
(*   contest = 1 iff >= 2 queries claim one track; cut = 1 iff some query has more       *)
(*         eligible tracks than some emitted N.                                        *)
(* Only weight-tie-free streams are emitted (the property accepts ties either way).   *)
(*                                                                                    *)
(* Mode "enum": every stream over NQ queries x NT tracks with a bag of 0..PerPair      *)
(*   distances from Dists per pair, every maxd in MaxDs and minv in 1..PerPair.         *)
(*   Sym = TRUE keeps one representative per permutation of the tracks (bags of the     *)
(*   first query non-decreasing along the tracks).  Two-stage Next: first query's bags, *)
(*   then the rest.                                                                    *)
(* Mode "sim": for `tlc -simulate`: streams over 6 x 6 pairs with up to 5 distances     *)
(*   per pair from 0..400 (and none), grown entry by entry; emitted at SimLens.         *)
EXTENDS Voting, Json
CONSTANTS Mode,      \* "enum" | "sim"
          NQ, NT,    \* queries QBase+1..QBase+NQ, tracks 1..NT
          QBase,     \* 100: query ids and track ids are disjoint (as in the trackers); 0: they overlap (a query may carry
                     \* the number of a track: the engines must not confuse the two)
          PerPair,   \* at most this many distances per (query, track)
          WithNone,  \* TRUE: "no distance" entries are part of the alphabet
          Sym,       \* TRUE: reduce by track symmetry
          Only       \* "all" | "none": only streams with a no-distance entry | "none_or_last": ... or using track NT
                     \* (keeps the enumeration runs of one check disjoint)
VARIABLES stage, c
vars == <<stage, c>>
Qs == (QBase + 1)..(QBase + NQ)
Ts == 1..NT
Dists == {1, 3, 5}
MaxDs == {0, 1, 3, 4, 6}        \* below all / on a distance / on / between / above all
Vals == IF WithNone THEN Dists \cup {-1} ELSE Dists
Bags == {<<>>} \cup {<<a>> : a \in Vals} \cup (IF PerPair >= 2 THEN {bb \in {<<a, b>> : a \in Vals, b \in Vals} : bb[1] <= bb[2]} ELSE {})
Code(b) == IF Len(b) = 0 THEN 0 ELSE IF Len(b) = 1 THEN 10 + b[1] + 1 ELSE 100 + 10 * (b[1] + 1) + b[2] + 1
Ent(q, t, bag) == [i \in DOMAIN bag |-> [q |-> q, t |-> t, am |-> 0, fd |-> bag[i]]]
RECURSIVE FlatT(_, _, _)
FlatT(q, row, t) == IF t > NT THEN <<>> ELSE Ent(q, t, row[t]) \o FlatT(q, row, t + 1)
RECURSIVE FlatQ(_, _)
FlatQ(rows, q) == IF q > QBase + NQ THEN <<>> ELSE FlatT(q, rows[q], 1) \o FlatQ(rows, q + 1)

Case(str, sc, maxd, minv, nmax) ==
  LET x == Ctx(str, maxd, minv) IN
  [kind |-> "vote", str |-> str, sc |-> sc, maxd |-> maxd, minv |-> minv,
   topn |-> [N \in 1..nmax |-> [q \in x.Q |-> LET l == TopNC(x, N, q) IN [i \in DOMAIN l |-> <<l[i], x.w[q][l[i]]>>]]],
   best |-> [q \in x.Q |-> LET l == ByWeightC(x, q, EligibleC(x, q))
                                b == BestFitC(x, q) IN [i \in DOMAIN l |-> <<b[i], x.w[q][l[i]]>>]],
   contest |-> IF ContestedC(x) THEN 1 ELSE 0,
   cut |-> IF \E N \in 1..nmax : CutAtC(x, N) THEN 1 ELSE 0]
Facts(str, maxd, minv, nmax) == LET x == Ctx(str, maxd, minv) IN BestFitFactsC(x) /\ \A N \in 1..nmax : TopNFactsC(x, N)
Tf(str, maxd, minv) == TieFreeC(Ctx(str, maxd, minv))

Init == stage = 0 /\ c = [kind |-> "init"]
EnumNext ==
  \/ /\ stage = 0 /\ stage' = 1
     /\ \E row \in [Ts -> Bags] :
          /\ Sym => \A t \in Ts : t > 1 => Code(row[t - 1]) <= Code(row[t])
          /\ c' = [row |-> row]
  \/ /\ stage = 1 /\ stage' = 2
     /\ \E rest \in [Qs \ {QBase + 1} -> [Ts -> Bags]], maxd \in MaxDs, minv \in 1..PerPair :
          LET rows == [q \in Qs |-> IF q = QBase + 1 THEN c.row ELSE rest[q]]
              str == FlatQ(rows, QBase + 1) IN
          /\ Only = "none" => \E i \in DOMAIN str : str[i].fd = -1
          /\ Only = "none_or_last" => \E i \in DOMAIN str : str[i].fd = -1 \/ str[i].t = NT
          /\ Tf(str, maxd, minv)
          (* with overlapping ids "the query itself" and "the track with the query's number" are written alike, so the
             declarative facts are asserted on the instances with disjoint ids only; the overlapping instance replays *)
          /\ (IF QBase = 0 THEN TRUE ELSE Assert(Facts(str, maxd, minv, NT), <<"C17 violated by the specification", str, maxd, minv>>))
          /\ c' = Case(str, 8, maxd, minv, NT)

(* ---- simulation: 6 x 6 pairs, <= 5 distances per pair, distances 0..400 or none; the case is emitted from the
   single successor (ph 2 -> 0) of the state the simulator drew (TLC evaluates invariants on every candidate) *)
SimLens == {8, 20, 40, 70, 110}
SimMax == 110
SQ == 101..106
ST == 1..6
SimNext ==
  \/ /\ stage = 0 /\ stage' = 1
     /\ \E maxd \in {50, 150, 250, 399}, minv \in 1..3 :
          c' = [maxd |-> maxd, minv |-> minv, str |-> <<>>, ph |-> 0, q |-> 0, t |-> 0]
  \/ /\ stage = 1 /\ Len(c.str) < SimMax /\ stage' = 1
     /\ \/ /\ c.ph = 0
           /\ \E q \in SQ, t \in ST :
                /\ Cardinality({i \in DOMAIN c.str : c.str[i].q = q /\ c.str[i].t = t}) < 5
                /\ c' = [c EXCEPT !.ph = 1, !.q = q, !.t = t]
        \/ /\ c.ph = 1
           /\ \E d \in (0..400) \cup {-1} : c' = [c EXCEPT !.ph = 2, !.str = Append(@, [q |-> c.q, t |-> c.t, am |-> 0, fd |-> d])]
        \/ /\ c.ph = 2 /\ c' = [c EXCEPT !.ph = 0]
Next == IF Mode = "enum" THEN EnumNext ELSE SimNext
Spec == Init /\ [][Next]_vars
Emit == IF Mode = "enum" THEN stage = 2 => PrintT(<<"REPLAY", ToJson(c)>>)
        ELSE (stage = 1 /\ c.ph = 0 /\ Len(c.str) \in SimLens /\ Tf(c.str, c.maxd, c.minv)) =>
               /\ Assert(Facts(c.str, c.maxd, c.minv, 6), "C17 violated by the specification (sim)")
               /\ PrintT(<<"REPLAY", ToJson(Case(c.str, 1024, c.maxd, c.minv, 6))>>)
(* reachability witnesses (TLC must violate them) *)
W_NeverContested == stage = 2 => c.contest = 0
W_NeverCut == stage = 2 => c.cut = 0
=============================================================================
