------------------------------- MODULE GenVV -------------------------------
(* Generation instance for the VisualSORT voting cascade (property C12,       *)
(* engine level): streams over 2 queries x NT tracks; every (query, track)    *)
(* pair has one entry with a positional weight am in {0 (none), 2, 4} and a    *)
(* feature distance fd in {-1 (none), 1, 3}; some pairs have a second          *)
(* gallery entry (am = 0) with a feature distance.  TLC asserts that the       *)
(* operational cascade (as coded) is inside the declarative C12 outcome set    *)
(* and emits the outcome for tie-free streams with a unique positional         *)
(* optimum; `vh replay visvote` feeds every permutation of the stream to the   *)
(* real VisualVoting::winners.                                                 *)
EXTENDS Voting, Json
CONSTANTS NT, MinVs, Thr
VARIABLES stage, c
vars == <<stage, c>>
Qs == {101, 102}
Ts == 1..NT
Ams == {0, 2, 4}
Fds == {-1, 1, 3}
Pairs == Qs \X Ts
PairSeq == LET RECURSIVE S(_)
               S(P) == IF P = {} THEN <<>> ELSE LET m == CHOOSE x \in P : \A y \in P : x[1] < y[1] \/ (x[1] = y[1] /\ x[2] <= y[2]) IN <<m>> \o S(P \ {m})
           IN S(Pairs)
Main(f) == [i \in DOMAIN PairSeq |-> [q |-> PairSeq[i][1], t |-> PairSeq[i][2], am |-> f[i][1], fd |-> f[i][2]]]
(* extra gallery entries for the pairs (101, 1) and (102, 1) *)
Extra(e1, e2) == (IF e1 = -1 THEN <<>> ELSE <<[q |-> 101, t |-> 1, am |-> 0, fd |-> e1]>>)
                 \o (IF e2 = -1 THEN <<>> ELSE <<[q |-> 102, t |-> 1, am |-> 0, fd |-> e2]>>)
Big == 2147483647
OutOf(str, minv) ==
  LET v == VisualOp(str, minv, Thr)
      a == CHOOSE x \in v.best : TRUE
  IN [q \in Queries(str) |->
        IF q \in v.claimers THEN v.fw[q]
        ELSE IF q \in v.rq /\ a[q] # 0 THEN <<a[q], "pos">> ELSE <<q, "pos">>]
Init == stage = 0 /\ c = [kind |-> "init"]
Next ==
  \/ /\ stage = 0 /\ stage' = 1
     /\ \E p1 \in Ams \X Fds, e1 \in Fds : c' = [p1 |-> p1, e1 |-> e1]
  \/ /\ stage = 1 /\ stage' = 2
     /\ \E f \in [DOMAIN PairSeq -> Ams \X Fds], e2 \in Fds, minv \in MinVs :
          /\ f[1] = c.p1
          /\ LET str == Main(f) \o Extra(c.e1, e2)
                 v == VisualOp(str, minv, Thr)
                 out == OutOf(str, minv) IN
             /\ TieFree(str, Big, minv)
             /\ Cardinality(v.best) = 1
             /\ Assert(VisualAllowed(str, minv, Thr, out), <<"cascade outside what C12 allows", str, minv>>)
             /\ c' = [kind |-> "visvote", str |-> str, minv |-> minv, thr |-> Thr,
                      out |-> [q \in Queries(str) |-> out[q]],
                      contested |-> IF \E q \in v.claimers : v.fw[q][1] = q THEN 1 ELSE 0,
                      claims |-> Cardinality(v.claimers)]
Spec == Init /\ [][Next]_vars
Emit == stage = 2 => PrintT(<<"REPLAY", ToJson(c)>>)
W_NeverContested == stage = 2 => c.contested = 0
=============================================================================
