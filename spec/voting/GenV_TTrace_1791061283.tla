---- MODULE GenV_TTrace_1791061283 ----
EXTENDS Sequences, TLCExt, Toolbox, GenV, Naturals, TLC

_expression ==
    LET GenV_TEExpression == INSTANCE GenV_TEExpression
    IN GenV_TEExpression!expression
----

_trace ==
    LET GenV_TETrace == INSTANCE GenV_TETrace
    IN GenV_TETrace!trace
----

_inv ==
    ~(
        TLCGet("level") = Len(_TETrace)
        /\
        c = ([row |-> <<<<>>, <<>>>>])
        /\
        stage = (1)
    )
----

_init ==
    /\ c = _TETrace[1].c
    /\ stage = _TETrace[1].stage
----

_next ==
    /\ \E i,j \in DOMAIN _TETrace:
        /\ \/ /\ j = i + 1
              /\ i = TLCGet("level")
        /\ c  = _TETrace[i].c
        /\ c' = _TETrace[j].c
        /\ stage  = _TETrace[i].stage
        /\ stage' = _TETrace[j].stage

\* Uncomment the ASSUME below to write the states of the error trace
\* to the given file in Json format. Note that you can pass any tuple
\* to `JsonSerialize`. For example, a sub-sequence of _TETrace.
    \* ASSUME
    \*     LET J == INSTANCE Json
    \*         IN J!JsonSerialize("GenV_TTrace_1791061283.json", _TETrace)

=============================================================================

 Note that you can extract this module `GenV_TEExpression`
  to a dedicated file to reuse `expression` (the module in the 
  dedicated `GenV_TEExpression.tla` file takes precedence 
  over the module `GenV_TEExpression` below).

---- MODULE GenV_TEExpression ----
EXTENDS Sequences, TLCExt, Toolbox, GenV, Naturals, TLC

expression == 
    [
        \* To hide variables of the `GenV` spec from the error trace,
        \* remove the variables below.  The trace will be written in the order
        \* of the fields of this record.
        c |-> c
        ,stage |-> stage
        
        \* Put additional constant-, state-, and action-level expressions here:
        \* ,_stateNumber |-> _TEPosition
        \* ,_cUnchanged |-> c = c'
        
        \* Format the `c` variable as Json value.
        \* ,_cJson |->
        \*     LET J == INSTANCE Json
        \*     IN J!ToJson(c)
        
        \* Lastly, you may build expressions over arbitrary sets of states by
        \* leveraging the _TETrace operator.  For example, this is how to
        \* count the number of times a spec variable changed up to the current
        \* state in the trace.
        \* ,_cModCount |->
        \*     LET F[s \in DOMAIN _TETrace] ==
        \*         IF s = 1 THEN 0
        \*         ELSE IF _TETrace[s].c # _TETrace[s-1].c
        \*             THEN 1 + F[s-1] ELSE F[s-1]
        \*     IN F[_TEPosition - 1]
    ]

=============================================================================



Parsing and semantic processing can take forever if the trace below is long.
 In this case, it is advised to uncomment the module below to deserialize the
 trace from a generated binary file.

\*
\*---- MODULE GenV_TETrace ----
\*EXTENDS IOUtils, GenV, TLC
\*
\*trace == IODeserialize("GenV_TTrace_1791061283.bin", TRUE)
\*
\*=============================================================================
\*

---- MODULE GenV_TETrace ----
EXTENDS GenV, TLC

trace == 
    <<
    ([c |-> [kind |-> "init"],stage |-> 0]),
    ([c |-> [row |-> <<<<>>, <<>>>>],stage |-> 1])
    >>
----


=============================================================================

---- CONFIG GenV_TTrace_1791061283 ----
CONSTANTS
    Mode = "enum"
    NQ = 3
    NT = 2
    PerPair = 1
    WithNone = FALSE
    Sym = FALSE
    Only = "all"
    QBase = 0

INVARIANT
    _inv

CHECK_DEADLOCK
    \* CHECK_DEADLOCK off because of PROPERTY or INVARIANT above.
    FALSE

INIT
    _init

NEXT
    _next

CONSTANT
    _TETrace <- _trace

ALIAS
    _expression
=============================================================================
\* Generated on Sat Oct 03 21:01:27 UTC 2026