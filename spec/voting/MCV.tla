---- MODULE MCV ----
EXTENDS Voting
CONSTANTS NQ, NT, MinV, Thr
VARIABLES str, done
Qs == 101..(100+NQ)
Ts == 1..NT
\* one entry per (q,t) pair plus one extra gallery entry for pair (first q, first t)
Entry(q, t) == [q : {q}, t : {t}, am : {0, 2, 4}, fd : {-1, 1, 3}]
Pairs == Qs \X Ts
PSeq == CHOOSE s \in [1..Cardinality(Pairs) -> Pairs] : \A i, j \in DOMAIN s : i # j => s[i] # s[j]
Init == /\ str \in [1..Cardinality(Pairs) -> UNION {Entry(p[1], p[2]) : p \in Pairs}]
        /\ \A i \in DOMAIN str : str[i].q = PSeq[i][1] /\ str[i].t = PSeq[i][2]
        /\ done = FALSE
Next == done = FALSE /\ done' = TRUE /\ UNCHANGED str
\* operational outcome as a function on queries (tie-free streams with a unique positional optimum only)
OpOut ==
  LET v == VisualOp(str, MinV, Thr)
      a == CHOOSE x \in v.best : TRUE
  IN [q \in Queries(str) |->
        IF q \in v.claimers THEN v.fw[q]
        ELSE IF q \in v.rq /\ a[q] # 0 THEN <<a[q], "pos">> ELSE <<q, "pos">>]
OpInDecl == (TieFree(str, 2147483647, MinV)) => VisualAllowed(str, MinV, Thr, OpOut)
====
