------------------------------- MODULE Voting -------------------------------
(* Result streams are sequences of [q, t, am, fd]: query id, track id,        *)
(* positional weight am (0 = none) and feature distance fd (-1 = none).       *)
(* Order of the stream must not matter: every operator below is defined on    *)
(* the index set, never on positions.                                         *)
EXTENDS Integers, Sequences, FiniteSets, TLC
A == INSTANCE Assignment

RECURSIVE SumSet(_, _)
SumSet(f, S) == IF S = {} THEN 0 ELSE LET x == CHOOSE y \in S : TRUE IN f[x] + SumSet(f, S \ {x})
MaxOf(S) == CHOOSE x \in S : \A y \in S : y <= x

Idx(str) == DOMAIN str
Queries(str) == {str[i].q : i \in Idx(str)}
TracksOf(str) == {str[i].t : i \in Idx(str)}
MaxSeen(str) == LET S == {str[i].fd : i \in {j \in Idx(str) : str[j].fd >= 0}} IN IF S = {} THEN -1 ELSE MaxOf(S)
Counted(str, q, t, maxd) == {i \in Idx(str) : str[i].q = q /\ str[i].t = t /\ str[i].fd >= 0 /\ str[i].fd <= maxd}
Claims(str, maxd, minv) == {<<q, t>> \in Queries(str) \X TracksOf(str) : Cardinality(Counted(str, q, t, maxd)) >= minv}
Weight(str, q, t, maxd) == SumSet([i \in Idx(str) |-> MaxSeen(str) - str[i].fd], Counted(str, q, t, maxd))

(* ---- top-N: per query, eligible tracks by decreasing weight, cut at N (as a set of admissible lists) *)
TopNOK(str, maxd, minv, N, q, lst) ==
  LET el == {t \in TracksOf(str) : <<q, t>> \in Claims(str, maxd, minv)}
      w(t) == Weight(str, q, t, maxd)
  IN /\ Len(lst) = (IF Cardinality(el) < N THEN Cardinality(el) ELSE N)
     /\ \A i \in DOMAIN lst : lst[i] \in el
     /\ \A i, j \in DOMAIN lst : i < j => lst[i] # lst[j] /\ w(lst[i]) >= w(lst[j])
     /\ \A t \in el : (\A i \in DOMAIN lst : lst[i] # t) => \A i \in DOMAIN lst : w(lst[i]) >= w(t)

(* ---- best fit: a track goes to its heaviest claimant *)
TieFree(str, maxd, minv) ==
  \A c1, c2 \in Claims(str, maxd, minv) :
     (c1 # c2 /\ (c1[1] = c2[1] \/ c1[2] = c2[2])) => Weight(str, c1[1], c1[2], maxd) # Weight(str, c2[1], c2[2], maxd)
Owner(str, maxd, minv, t) ==      \* heaviest claimant of t (tie-free streams)
  LET cl == {q \in Queries(str) : <<q, t>> \in Claims(str, maxd, minv)} IN
  CHOOSE q \in cl : \A q2 \in cl : Weight(str, q2, t, maxd) <= Weight(str, q, t, maxd)
BestClaim(str, maxd, minv, q) ==  \* q's own heaviest claim
  LET ts == {t \in TracksOf(str) : <<q, t>> \in Claims(str, maxd, minv)} IN
  CHOOSE t \in ts : \A t2 \in ts : Weight(str, q, t2, maxd) <= Weight(str, q, t, maxd)
HasClaim(str, maxd, minv, q) == \E t \in TracksOf(str) : <<q, t>> \in Claims(str, maxd, minv)

(* ---- VisualSORT cascade, operational (as coded): the query's best claim decides *)
VisualOp(str, minv, thr) ==
  LET maxd == 2147483647
      claimers == {q \in Queries(str) : HasClaim(str, maxd, minv, q)}
      fw == [q \in claimers |-> LET t == BestClaim(str, maxd, minv, q) IN
                                IF Owner(str, maxd, minv, t) = q THEN <<t, "vis">> ELSE <<q, "vis">>]
      taken == {fw[q][1] : q \in claimers}
      rest == {i \in Idx(str) : str[i].q \notin claimers /\ str[i].t \notin taken /\ str[i].am > 0}
      rq == {str[i].q : i \in rest}
      rt == {str[i].t : i \in rest}
      W == [q \in rq |-> [t \in rt |-> LET S == {str[i].am : i \in {j \in rest : str[j].q = q /\ str[j].t = t}} IN
                                        IF S = {} THEN 0 ELSE MaxOf(S)]]
      best == A!Best(W, rq, rt, thr)
  IN [fw |-> fw, rq |-> rq, best |-> best, claimers |-> claimers, taken |-> taken]

(* ---- VisualSORT, declarative: what property C12 allows for an outcome
   out : [Queries -> <<target, kind>>], target = track id, or the query itself for "new track" *)
VisualAllowed(str, minv, thr, out) ==
  LET maxd == 2147483647
      cl == Claims(str, maxd, minv)
      w(q, t) == Weight(str, q, t, maxd)
      Q == Queries(str)
      att(q) == out[q][1] # q
      visTaken == {out[q][1] : q \in {x \in Q : att(x) /\ out[x][2] = "vis"}}
  IN /\ \A q1, q2 \in Q : (q1 # q2 /\ att(q1) /\ att(q2)) => out[q1][1] # out[q2][1]
     /\ \A q \in Q : (att(q) /\ out[q][2] = "vis") =>
           /\ <<q, out[q][1]>> \in cl
           /\ \A q2 \in Q : <<q2, out[q][1]>> \in cl => w(q2, out[q][1]) <= w(q, out[q][1])
     /\ \A q \in Q : (att(q) /\ out[q][2] = "pos") => out[q][1] \notin visTaken
     /\ \A q \in Q : (HasClaim(str, maxd, minv, q) /\ Owner(str, maxd, minv, BestClaim(str, maxd, minv, q)) = q)
           => out[q] = <<BestClaim(str, maxd, minv, q), "vis">>
     /\ \A q \in Q : ~HasClaim(str, maxd, minv, q) => (att(q) => out[q][2] = "pos")
=============================================================================
