------------------------------- MODULE Voting -------------------------------
(* Result streams are sequences of [q, t, am, fd]: query id, track id,        *)
(* positional weight am (0 = none) and feature distance fd (-1 = none).       *)
(* Order of the stream must not matter: every operator below is defined on    *)
(* the index set, never on positions.                                         *)
EXTENDS Integers, Sequences, FiniteSets, TLC
A == INSTANCE Assignment

RECURSIVE SumSet(_, _)
SumSet(f, S) == IF S = {} THEN 0 ELSE LET x == CHOOSE y \in S : TRUE IN f[x] + SumSet(f, S \ {x})
MaxOf(S) == CHOOSE x \in S : \A y \in S : y <= x

Idx(str) == DOMAIN str
Queries(str) == {str[i].q : i \in Idx(str)}
TracksOf(str) == {str[i].t : i \in Idx(str)}
MaxSeen(str) == LET S == {str[i].fd : i \in {j \in Idx(str) : str[j].fd >= 0}} IN IF S = {} THEN -1 ELSE MaxOf(S)
Counted(str, q, t, maxd) == {i \in Idx(str) : str[i].q = q /\ str[i].t = t /\ str[i].fd >= 0 /\ str[i].fd <= maxd}
Claims(str, maxd, minv) == {<<q, t>> \in Queries(str) \X TracksOf(str) : Cardinality(Counted(str, q, t, maxd)) >= minv}
Weight(str, q, t, maxd) == LET m == MaxSeen(str) IN SumSet([i \in Idx(str) |-> m - str[i].fd], Counted(str, q, t, maxd))

(* ---- top-N: per query, eligible tracks by decreasing weight, cut at N (as a set of admissible lists) *)
TopNOK(str, maxd, minv, N, q, lst) ==
  LET el == {t \in TracksOf(str) : <<q, t>> \in Claims(str, maxd, minv)}
      w(t) == Weight(str, q, t, maxd)
  IN /\ Len(lst) = (IF Cardinality(el) < N THEN Cardinality(el) ELSE N)
     /\ \A i \in DOMAIN lst : lst[i] \in el
     /\ \A i, j \in DOMAIN lst : i < j => lst[i] # lst[j] /\ w(lst[i]) >= w(lst[j])
     /\ \A t \in el : (\A i \in DOMAIN lst : lst[i] # t) => \A i \in DOMAIN lst : w(lst[i]) >= w(t)

(* ---- best fit: a track goes to its heaviest claimant *)
TieFree(str, maxd, minv) ==
  \A c1, c2 \in Claims(str, maxd, minv) :
     (c1 # c2 /\ (c1[1] = c2[1] \/ c1[2] = c2[2])) => Weight(str, c1[1], c1[2], maxd) # Weight(str, c2[1], c2[2], maxd)
Owner(str, maxd, minv, t) ==      \* heaviest claimant of t (tie-free streams)
  LET cl == {q \in Queries(str) : <<q, t>> \in Claims(str, maxd, minv)} IN
  CHOOSE q \in cl : \A q2 \in cl : Weight(str, q2, t, maxd) <= Weight(str, q, t, maxd)
BestClaim(str, maxd, minv, q) ==  \* q's own heaviest claim
  LET ts == {t \in TracksOf(str) : <<q, t>> \in Claims(str, maxd, minv)} IN
  CHOOSE t \in ts : \A t2 \in ts : Weight(str, q, t2, maxd) <= Weight(str, q, t, maxd)
HasClaim(str, maxd, minv, q) == \E t \in TracksOf(str) : <<q, t>> \in Claims(str, maxd, minv)

(* ---- top-N and best-fit as functions of the bag (property C17).  Every operator above and below quantifies over
   the index set of the stream and never looks at positions, so a permuted stream has the same Claims / Weight and
   hence the same answer: order independence holds by construction.  On weight-tie-free streams (TieFree) the
   answers below are the only ones the property admits.
   The operators with suffix C work on a context x = Ctx(str, maxd, minv): the claims and the weight table of the
   stream, evaluated once (TLCEval forces TLC to tabulate the functions instead of re-evaluating Weight).       *)
Ctx(str, maxd, minv) ==
  LET Q == Queries(str)
      T == TracksOf(str)
  IN [Q |-> Q, T |-> T, cl |-> Claims(str, maxd, minv),
      w |-> TLCEval([q \in Q |-> TLCEval([t \in T |-> Weight(str, q, t, maxd)])])]
EligibleC(x, q) == {t \in x.T : <<q, t>> \in x.cl}
RECURSIVE ByWeightC(_, _, _)
ByWeightC(x, q, S) ==               \* the tracks of S by decreasing weight for query q
  IF S = {} THEN <<>>
  ELSE LET t == CHOOSE a \in S : \A y \in S : x.w[q][y] <= x.w[q][a] IN <<t>> \o ByWeightC(x, q, S \ {t})
VPrefix(s, n) == IF Len(s) > n THEN SubSeq(s, 1, n) ELSE s
OwnerC(x, t) == LET cl == {q \in x.Q : <<q, t>> \in x.cl} IN CHOOSE q \in cl : \A q2 \in cl : x.w[q2][t] <= x.w[q][t]
(* top-N: the N heaviest eligible tracks of q, heaviest first *)
TopNC(x, N, q) == VPrefix(ByWeightC(x, q, EligibleC(x, q)), N)
(* best fit: every claim of q in weight order; a track q does not own is replaced by q itself *)
BestFitC(x, q) == LET l == ByWeightC(x, q, EligibleC(x, q)) IN [i \in DOMAIN l |-> IF OwnerC(x, l[i]) = q THEN l[i] ELSE q]
TieFreeC(x) == \A c1, c2 \in x.cl : (c1 # c2 /\ (c1[1] = c2[1] \/ c1[2] = c2[2])) => x.w[c1[1]][c1[2]] # x.w[c2[1]][c2[2]]
TopN(str, maxd, minv, N, q) == TopNC(Ctx(str, maxd, minv), N, q)
BestFit(str, maxd, minv, q) == BestFitC(Ctx(str, maxd, minv), q)
VRange(s) == {s[i] : i \in DOMAIN s}
(* facts: the functional answers satisfy the declarative statements of C17 *)
TopNOKC(x, N, q, lst) ==            \* TopNOK on a context
  LET el == EligibleC(x, q) IN
  /\ Len(lst) = (IF Cardinality(el) < N THEN Cardinality(el) ELSE N)
  /\ \A i \in DOMAIN lst : lst[i] \in el
  /\ \A i, j \in DOMAIN lst : i < j => lst[i] # lst[j] /\ x.w[q][lst[i]] >= x.w[q][lst[j]]
  /\ \A t \in el : (\A i \in DOMAIN lst : lst[i] # t) => \A i \in DOMAIN lst : x.w[q][lst[i]] >= x.w[q][t]
TopNFactsC(x, N) == \A q \in x.Q : TopNOKC(x, N, q, TopNC(x, N, q))
BestFitFactsC(x) ==
  /\ \A t \in x.T : Cardinality({q \in x.Q : t \in VRange(BestFitC(x, q))}) <= 1         \* a track is awarded at most once
  /\ \A q \in x.Q : \A t \in VRange(BestFitC(x, q)) \ {q} :                            \* ... to its heaviest claimant
        /\ <<q, t>> \in x.cl
        /\ \A q2 \in x.Q : <<q2, t>> \in x.cl => x.w[q2][t] <= x.w[q][t]
  /\ \A cc \in x.cl : \E q \in x.Q : cc[2] \in VRange(BestFitC(x, q))                   \* every claimed track is awarded
(* a track claimed by >= 2 queries; a query with more eligible tracks than N *)
ContestedC(x) == \E c1, c2 \in x.cl : c1[1] # c2[1] /\ c1[2] = c2[2]
CutAtC(x, N) == \E q \in x.Q : Cardinality(EligibleC(x, q)) > N

(* ---- VisualSORT cascade, operational (as coded): the query's best claim decides *)
VisualOp(str, minv, thr) ==
  LET maxd == 2147483647
      claimers == {q \in Queries(str) : HasClaim(str, maxd, minv, q)}
      fw == [q \in claimers |-> LET t == BestClaim(str, maxd, minv, q) IN
                                IF Owner(str, maxd, minv, t) = q THEN <<t, "vis">> ELSE <<q, "vis">>]
      taken == {fw[q][1] : q \in claimers}
      rest == {i \in Idx(str) : str[i].q \notin claimers /\ str[i].t \notin taken /\ str[i].am > 0}
      rq == {str[i].q : i \in rest}
      rt == {str[i].t : i \in rest}
      W == [q \in rq |-> [t \in rt |-> LET S == {str[i].am : i \in {j \in rest : str[j].q = q /\ str[j].t = t}} IN
                                        IF S = {} THEN 0 ELSE MaxOf(S)]]
      best == A!Best(W, rq, rt, thr)
  IN [fw |-> fw, rq |-> rq, best |-> best, claimers |-> claimers, taken |-> taken]

(* ---- VisualSORT, declarative: what property C12 allows for an outcome
   out : [Queries -> <<target, kind>>], target = track id, or the query itself for "new track" *)
VisualAllowed(str, minv, thr, out) ==
  LET maxd == 2147483647
      cl == Claims(str, maxd, minv)
      w(q, t) == Weight(str, q, t, maxd)
      Q == Queries(str)
      att(q) == out[q][1] # q
      visTaken == {out[q][1] : q \in {x \in Q : att(x) /\ out[x][2] = "vis"}}
  IN /\ \A q1, q2 \in Q : (q1 # q2 /\ att(q1) /\ att(q2)) => out[q1][1] # out[q2][1]
     /\ \A q \in Q : (att(q) /\ out[q][2] = "vis") =>
           /\ <<q, out[q][1]>> \in cl
           /\ \A q2 \in Q : <<q2, out[q][1]>> \in cl => w(q2, out[q][1]) <= w(q, out[q][1])
     /\ \A q \in Q : (att(q) /\ out[q][2] = "pos") => out[q][1] \notin visTaken
     /\ \A q \in Q : (HasClaim(str, maxd, minv, q) /\ Owner(str, maxd, minv, BestClaim(str, maxd, minv, q)) = q)
           => out[q] = <<BestClaim(str, maxd, minv, q), "vis">>
     /\ \A q \in Q : ~HasClaim(str, maxd, minv, q) => (att(q) => out[q][2] = "pos")
=============================================================================
