CONSTANTS
 NT = 2
 MinVs = {1, 2}
 Thr = 3
SPECIFICATION Spec
INVARIANT Emit
CHECK_DEADLOCK FALSE
